#!/usr/bin/env python
"""Differential test for property C20 (cached transformer decoding).

Builds several small random-weight transformer OCR engines through the real
constructors (only the pretrained VGG download is replaced by a tiny random
stand-in), decodes a few hundred small line images in sequences of batches
with cached and with uncached (recomputing) decoding, and also evaluates the
teacher-forced forward pass.  On the first run (clean tree) everything is
written to reference.json next to this file; later runs compare against it
with explicit tolerances and print MATCH / DIFFERENT.
"""
import contextlib
import io
import json
import os
import sys
import tempfile

import numpy as np
import torch
import torchvision

HERE = os.path.dirname(os.path.abspath(__file__))
REFERENCE = os.path.join(HERE, 'reference.json')

# float32 data.  Deviations are measured as max |new - ref| / max(1, max |ref|) per score tensor (scores are O(1)).
# NOMINAL is the 1e-6 expected for float32 round-off; it is reported, but the pass/fail limit is TOL = 5e-6 because a
# round-off of ~1e-7 per operation is amplified by the stacked LayerNorms of the 3- and 4-layer models to slightly more
# than 1e-6.  On the very same data the clean tree itself deviates (absolutely) by 3.8e-6 between cached and recomputed
# decoding, by 3.8e-6 between cached decoding and the teacher-forced pass and by 6.8e-6 between batch and single-line
# decoding, so TOL is still below the noise the property has to tolerate anyway.  Real errors show up as >= 1e-3.
NOMINAL = 1e-6
TOL = 5e-6
# an argmax whose two best reference scores are closer than this is regarded as an
# (almost) exact tie which round-off may resolve either way
TIE_GAP = 2e-5

CHARS = ['a', 'b', 'c', 'd', 'e', 'f']
HEIGHT = 16
EXTRA_KEYS = ('boundary_bias', 'ignore_bias', 'seed')
GAINS = {'trans_decoder': 1.5, 'dec_embeder': 4.0, 'multihead_attn': 4.0, 'multihead_attn.out_proj': 1.5, 'dec_out_proj': 3.0}
GAIN = 3.0  # random weights are scaled up so that the decoder output depends on the image and the history

CONFIGS = [
    # random-weight models over a range of widths, depths and head counts (seeds picked for varied transcriptions)
    dict(dim_model=16, dim_ff=32, heads=1, encoder_layers=1, decoder_layers=1, conv_subsampling=[8, 4], seed=100),
    dict(dim_model=16, dim_ff=32, heads=1, encoder_layers=1, decoder_layers=1, conv_subsampling=[8, 4], seed=200,
         ignore_bias=3.0),
    dict(dim_model=16, dim_ff=24, heads=2, encoder_layers=1, decoder_layers=2, conv_subsampling=[8, 4], seed=205,
         boundary_bias=2.0),
    dict(dim_model=24, dim_ff=48, heads=3, encoder_layers=2, decoder_layers=3, conv_subsampling=[8, 4], seed=202,
         ignore_bias=3.5),
    dict(dim_model=24, dim_ff=48, heads=3, encoder_layers=2, decoder_layers=3, conv_subsampling=[8, 4], seed=206),
    dict(dim_model=32, dim_ff=64, heads=4, encoder_layers=1, decoder_layers=4, conv_subsampling=[8, 8], seed=200,
         boundary_bias=2.0),
    dict(dim_model=32, dim_ff=32, heads=8, encoder_layers=1, decoder_layers=2, conv_subsampling=[8, 4], seed=204,
         boundary_bias=2.0),
    dict(dim_model=32, dim_ff=32, heads=8, encoder_layers=1, decoder_layers=2, conv_subsampling=[8, 4], seed=205),
]

# (batch size, width) sequences: equal and different batch sizes / widths (stale caches)
SCHEDULE = [(1, 32), (3, 32), (3, 32), (2, 48), (4, 48), (4, 64), (1, 64), (5, 40), (5, 40), (2, 96), (3, 32), (1, 36)]


class _TinyVGG(torch.nn.Module):
    """Stand-in for torchvision's pretrained VGG16 (no network in the sandbox)."""
    def __init__(self):
        super().__init__()
        layers = []
        c_in = 3
        for c_out in (4, 6, 8, 8):
            layers += [torch.nn.Conv2d(c_in, c_out, kernel_size=3, padding=1), torch.nn.ReLU(inplace=False),
                       torch.nn.MaxPool2d(kernel_size=2, stride=2)]
            c_in = c_out
        self.features = torch.nn.Sequential(*layers)


def build_engine(cfg, seed, tmpdir):
    from pero_ocr.ocr_engine import transformer
    from pero_ocr.ocr_engine.transformer_ocr_engine import TransformerEngineLineOCR

    orig_vgg16 = torchvision.models.vgg16
    torchvision.models.vgg16 = lambda *a, **k: _TinyVGG()
    try:
        with contextlib.redirect_stdout(io.StringIO()):
            torch.manual_seed(seed)
            net = transformer.build_net(net={k: v for k, v in cfg.items() if k not in EXTRA_KEYS}, input_height=HEIGHT, input_channels=3,
                                        nb_output_symbols=len(CHARS))
            # make the scores input dependent enough for lines to end at different steps
            with torch.no_grad():
                for name, par in net.named_parameters():
                    if par.dim() >= 2:
                        gain = GAIN
                        for key, val in GAINS.items():
                            if key in name:
                                gain = val
                        par.mul_(gain)
                    elif name.endswith('bias'):
                        par.add_(0.3 * torch.randn_like(par))
                # some preference for the boundary symbol so that decoding also ends before the length cap
                net.dec_out_proj.bias[len(CHARS)] += cfg.get('boundary_bias', 0.0)
                net.dec_out_proj.bias[len(CHARS) + 1] += cfg.get('ignore_bias', 0.0)
            ckpt = os.path.join(tmpdir, 'model_%d.pt' % seed)
            torch.save(net.state_dict(), ckpt)
            json_def = os.path.join(tmpdir, 'ocr_%d.json' % seed)
            with open(json_def, 'w', encoding='utf8') as f:
                json.dump({'line_px_height': HEIGHT, 'line_vertical_scale': 1.0, 'checkpoint': ckpt,
                           'characters': CHARS,
                           'net_name': {k: v for k, v in cfg.items() if k not in EXTRA_KEYS}}, f)
            torch.manual_seed(seed + 1000)  # constructor initialises a net before loading the checkpoint
            engine = TransformerEngineLineOCR(json_def, torch.device('cpu'), batch_size=4)
    finally:
        torchvision.models.vgg16 = orig_vgg16
    return engine


def make_batch(rng, batch, width):
    # NCHW uint8, as transcribe_batch() expects
    # vertical stripes of random colour and random width plus some noise, a different pattern for every line
    data = np.zeros((batch, 3, HEIGHT, width), dtype=np.float64)
    for b in range(batch):
        x = 0
        while x < width:
            w = int(rng.integers(2, 9))
            data[b, :, :, x:x + w] = rng.integers(0, 256, size=(3, 1, 1))
            x += w
    data += rng.normal(0, 12, size=data.shape)
    return np.clip(np.rint(data), 0, 255).astype(np.uint8)


def attention_trace(engine, inputs, labels):
    """Cached step-by-step decoding along the given symbols, asking the decoder for its attention weights,
    followed by uncached (recomputing) step-by-step decoding along the same symbols."""
    net = engine.net
    enc = net.encode(torch.from_numpy(inputs).float() / 255.0)
    embs = net.pos_encoder(net.dec_embeder(labels.permute(1, 0)))  # [T, B, E]
    scores, attention = [], []
    for t in range(1, embs.shape[0] + 1):
        out, att = net.trans_decoder.infer(embs[:t], enc, is_cached=True, return_attention=True)
        scores.append(net.dec_out_proj(out).double().numpy().tolist())
        attention.append(att.double().numpy().tolist())
    # the same symbols once more, recomputing everything at every step (no caches)
    recomputed = []
    for t in range(1, embs.shape[0] + 1):
        out = net.trans_decoder.infer(embs[:t], enc, is_cached=False)
        recomputed.append(net.dec_out_proj(out).double().numpy().tolist())
    # head-averaged weights straight from the cross- and self-attention modules of the first layer
    layer = net.trans_decoder.layers[0]
    x = embs[:1].clone()
    _, w_cross = layer.multihead_attn.infer(x, 1, enc, enc, need_weights=True)
    _, w_self = layer.self_attn.infer(x, 1, x, x, need_weights=True)
    return {'scores': scores, 'recomputed_scores': recomputed, 'attention': attention, 'avg_cross': w_cross.double().numpy().tolist(),
            'avg_self': w_self.double().numpy().tolist()}


def run_all():
    results = []
    with tempfile.TemporaryDirectory() as tmpdir:
        for ci, cfg in enumerate(CONFIGS):
            engine = build_engine(cfg, cfg.get('seed', 100 + ci), tmpdir)
            rng = np.random.default_rng(7 + ci)
            for bi, (batch, width) in enumerate(SCHEDULE):
                inputs = make_batch(rng, batch, width)
                rec = {'config': ci, 'step': bi, 'batch': batch, 'width': width}
                with torch.no_grad(), contextlib.redirect_stdout(io.StringIO()):
                    for mode in ('cached', 'uncached'):
                        outs, logits = engine.transcribe_batch(inputs.copy(), is_cached=(mode == 'cached'))
                        rec[mode + '_logits'] = logits.double().numpy().tolist()
                        rec[mode + '_outs'] = [[int(s) for s in o] for o in outs]
                        rec[mode + '_text'] = engine.decode(outs)
                    # single-line decoding of every line (independence of batch companions)
                    single = []
                    for li in range(batch):
                        o, lg = engine.transcribe_batch(inputs[li:li + 1].copy(), is_cached=True)
                        single.append({'outs': [int(s) for s in o[0]], 'logits': lg[0].double().numpy().tolist()})
                    rec['single'] = single
                    # teacher forced pass over the symbols emitted by the cached decoder
                    lg = torch.tensor(rec['cached_logits'])
                    emitted = torch.argmax(lg, dim=-1)  # [B, T]
                    start = torch.full((batch, 1), engine.sentence_boundary_ind, dtype=torch.long)
                    labels = torch.cat([start, emitted[:, :-1]], dim=1)
                    tf = engine.net.forward(torch.from_numpy(inputs).float() / 255.0, labels).permute(1, 0, 2)
                    rec['teacher_forced_logits'] = tf.double().numpy().tolist()
                    if bi % 3 == 0:
                        rec['attention'] = attention_trace(engine, inputs, labels)
                results.append(rec)
    return results


def cmp_scores(name, ref, new, problems, emitted_ref=None):
    ref = np.asarray(ref, dtype=np.float64)
    new = np.asarray(new, dtype=np.float64)
    if ref.shape != new.shape:
        problems.append('%s: shape %s vs %s' % (name, ref.shape, new.shape))
        return 0.0
    if ref.size == 0:
        return 0.0
    scale = max(1.0, float(np.abs(ref).max()))
    err = float(np.abs(ref - new).max()) / scale
    if not err <= TOL:
        problems.append('%s: scores differ by %.3g (relative to %.3g)' % (name, err, scale))
    return err


def tie_free_prefix_equal(ref_logits, ref_outs, new_outs):
    """Transcriptions must be equal, except after a step where the reference argmax was an (almost) exact tie."""
    if ref_outs == new_outs:
        return True
    ref_logits = np.asarray(ref_logits, dtype=np.float64)
    for t in range(ref_logits.shape[0]):
        top = np.sort(ref_logits[t])[::-1]
        if top[0] - top[1] < TIE_GAP:
            return True  # genuinely open tie: anything after it may differ
    return False


def compare(ref, new):
    problems = []
    worst = 0.0
    if len(ref) != len(new):
        return ['number of records %d vs %d' % (len(ref), len(new))], 0.0
    for r, n in zip(ref, new):
        tag = 'cfg%d/batch#%d(%dx%d)' % (r['config'], r['step'], r['batch'], r['width'])
        lens_equal = True
        for mode in ('cached', 'uncached'):
            for li in range(r['batch']):
                if not tie_free_prefix_equal(r[mode + '_logits'][li], r[mode + '_outs'][li], n[mode + '_outs'][li]):
                    problems.append('%s %s line %d: transcription %s vs %s' % (tag, mode, li, r[mode + '_outs'][li], n[mode + '_outs'][li]))
                    lens_equal = False
            if r[mode + '_text'] != n[mode + '_text'] and lens_equal and r[mode + '_outs'] == n[mode + '_outs']:
                problems.append('%s %s: text %r vs %r' % (tag, mode, r[mode + '_text'], n[mode + '_text']))
        if not lens_equal:
            continue
        for key in ('cached_logits', 'uncached_logits', 'teacher_forced_logits'):
            worst = max(worst, cmp_scores(tag + ' ' + key, r[key], n[key], problems))
        for li in range(r['batch']):
            rs, ns = r['single'][li], n['single'][li]
            if not tie_free_prefix_equal(rs['logits'], rs['outs'], ns['outs']):
                problems.append('%s single line %d: transcription %s vs %s' % (tag, li, rs['outs'], ns['outs']))
                continue
            worst = max(worst, cmp_scores(tag + ' single %d' % li, rs['logits'], ns['logits'], problems))
        if 'attention' in r:
            for key in ('scores', 'recomputed_scores', 'avg_cross', 'avg_self'):
                worst = max(worst, cmp_scores(tag + ' attention/' + key, r['attention'][key], n['attention'][key], problems))
            for t, (ra, na) in enumerate(zip(r['attention']['attention'], n['attention']['attention'])):
                worst = max(worst, cmp_scores(tag + ' attention weights step %d' % t, ra, na, problems))
    return problems, worst


def self_check(results):
    """Sanity: the workload really covers the cases the property talks about (printed only)."""
    n_lines = sum(r['batch'] for r in results)
    lengths = [len(o) for r in results for o in r['cached_outs']]
    steps = [len(r['cached_logits'][0]) for r in results]
    capped = sum(1 for r in results if len(r['cached_logits'][0]) > r['width'] // 4)
    uneven = sum(1 for r in results if len(set(len(o) for o in r['cached_outs'])) > 1)
    n_ignore = sum(int((np.argmax(np.asarray(r['cached_logits']), axis=-1) == len(CHARS) + 1).sum()) for r in results)
    gap = min(float(np.diff(np.sort(np.asarray(r['cached_logits']), axis=-1)[..., -2:], axis=-1).min()) for r in results)
    print('workload: %d batches, %d lines, transcription lengths %d..%d, decoding steps %d..%d, '
          '%d batches hit the length cap, %d batches with lines ending at different steps, %d ignore symbols emitted, '
          'smallest argmax gap %.3g'
          % (len(results), n_lines, min(lengths), max(lengths), min(steps), max(steps), capped, uneven, n_ignore, gap))


def property_check(results, problems):
    """The property itself on the tree under test: cached == recomputed == teacher-forced, batch == single line,
    transcriptions free of boundary / ignore symbols.  Tolerance 5e-5 (the clean tree reaches 6.8e-6 here)."""
    worst = {'cached vs recomputed': 0.0, 'cached vs teacher-forced': 0.0, 'batch vs single line': 0.0}
    for r in results:
        tag = 'cfg%d/batch#%d' % (r['config'], r['step'])
        a = np.asarray(r['cached_logits'])
        for key, other in (('cached vs recomputed', r['uncached_logits']), ('cached vs teacher-forced', r['teacher_forced_logits'])):
            b = np.asarray(other)
            if a.shape != b.shape:
                problems.append('%s: %s: shapes %s / %s' % (tag, key, a.shape, b.shape))
            else:
                worst[key] = max(worst[key], float(np.abs(a - b).max()))
        if r['cached_outs'] != r['uncached_outs']:
            problems.append('%s: cached and recomputed transcriptions differ' % tag)
        for li, s in enumerate(r['single']):
            c = np.asarray(s['logits'])
            n = min(c.shape[0], a.shape[1])  # a single line stops as soon as it is finished
            worst['batch vs single line'] = max(worst['batch vs single line'], float(np.abs(a[li, :n] - c[:n]).max()))
            if s['outs'] != r['cached_outs'][li]:
                problems.append('%s: line %d decoded alone gives another transcription' % (tag, li))
        for o in r['cached_outs'] + r['uncached_outs']:
            if len(CHARS) in o or len(CHARS) + 1 in o:
                problems.append('%s: boundary / ignore symbol in transcription' % tag)
    print('property on this tree: ' + ', '.join('%s %.3g' % kv for kv in worst.items()))
    for key, val in worst.items():
        if val > 5e-5:
            problems.append('property violated: %s deviates by %.3g' % (key, val))


def main():
    torch.set_num_threads(1)
    results = run_all()
    self_check(results)
    if not os.path.exists(REFERENCE):
        with open(REFERENCE, 'w') as f:
            json.dump(results, f)
        print('reference written to %s' % REFERENCE)
        print('MATCH')
        return 0
    with open(REFERENCE) as f:
        ref = json.load(f)
    problems, worst = compare(ref, results)
    property_check(results, problems)
    print('largest score deviation from reference: %.3g (nominal float32 round-off %.0e, limit %.0e)' % (worst, NOMINAL, TOL))
    if problems:
        print('DIFFERENT: ' + '; '.join(problems[:5]) + (' ... (%d in total)' % len(problems) if len(problems) > 5 else ''))
        return 1
    print('MATCH')
    return 0


if __name__ == '__main__':
    sys.exit(main())
