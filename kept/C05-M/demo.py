#!/usr/bin/env python
"""Differential test for pero_ocr.core.force_alignment (property C05).

First run (clean tree): writes reference.json next to this file.
Later runs: recompute everything and compare against reference.json with
explicit tolerances; print MATCH (exit 0) or DIFFERENT: <what> (exit 1).

What is compared
  * success / failure (ValueError) of the alignment            -> exactly
  * total cost of the returned alignment                        -> 1e-9 relative
                                                                   (1e-6 for float32 data)
  * the alignment itself                                        -> exactly, whenever an
    independent forward-backward oracle says the optimum is unique (no other
    alignment within the tolerance); otherwise as a member of the SET of
    minimum-cost alignments (valid + cost within tolerance of the reference
    cost), because the statement leaves the choice among tied optima open
  * align_text() positions                                      -> exactly when the
    alignment is unique and the most confident frame of every character is
    unique, otherwise as a member of the set of most confident frames
Every run additionally checks the property itself against the oracle.
"""
import json
import os
import sys

import numpy as np

from pero_ocr.core.force_alignment import force_align, viterbi_align, align_text

HERE = os.path.dirname(os.path.abspath(__file__))
REF_PATH = os.path.join(HERE, 'reference.json')
INF = float('inf')


def tol_for(dtype):
    return 1e-6 if np.dtype(dtype) == np.float32 else 1e-9


def close(a, b, tol):
    if a == b:
        return True
    return abs(a - b) <= tol * max(1.0, abs(a), abs(b))


# --------------------------------------------------------------------------
# independent oracle (pure Python, float64)
# --------------------------------------------------------------------------
def ctc_preds(labels):
    S = 2 * len(labels) + 1
    preds = []
    for s in range(S):
        p = [s]
        if s >= 1:
            p.append(s - 1)
        if s >= 3 and s % 2 == 1 and labels[s // 2] != labels[s // 2 - 1]:
            p.append(s - 2)
        preds.append(p)
    return preds


def preds_from_A(A):
    S = A.shape[0]
    return [[j for j in range(S) if A[j, s] != np.inf] for s in range(S)]


def oracle(costs, preds, tol):
    """costs: T x S list of floats. Returns (min_cost, unique) ; min_cost INF if infeasible."""
    T, S = len(costs), len(costs[0])
    alpha = [[INF] * S for _ in range(T)]
    for s in (0, 1):
        alpha[0][s] = costs[0][s]
    for t in range(1, T):
        for s in range(S):
            b = min([alpha[t - 1][j] for j in preds[s]] + [INF])
            alpha[t][s] = b + costs[t][s]
    succs = [[] for _ in range(S)]
    for s in range(S):
        for j in preds[s]:
            succs[j].append(s)
    beta = [[INF] * S for _ in range(T)]
    for s in (S - 1, S - 2):
        beta[T - 1][s] = costs[T - 1][s]
    for t in range(T - 2, -1, -1):
        for s in range(S):
            b = min([beta[t + 1][k] for k in succs[s]] + [INF])
            beta[t][s] = b + costs[t][s]
    best = min(alpha[T - 1][S - 1], alpha[T - 1][S - 2])
    if best == INF:
        return INF, True
    unique = True
    for t in range(T):
        n = 0
        for s in range(S):
            a, b, c = alpha[t][s], beta[t][s], costs[t][s]
            if a == INF or b == INF:
                continue
            through = a + b - c
            # generous margin: anything within 10*tol counts as a tie
            if through <= best + 10 * tol * max(1.0, abs(best)):
                n += 1
        if n != 1:
            unique = False
    return best, unique


def collapse(symbols, blank):
    out = []
    prev = None
    for s in symbols:
        if s != prev and s != blank:
            out.append(s)
        prev = s
    return out


# --------------------------------------------------------------------------
# case generation
# --------------------------------------------------------------------------
def make_cases():
    rng = np.random.RandomState(20240505)
    cases = []
    kinds = ['cont', 'quant', 'inf', 'const', 'peaky', 'neartie', 'bigoffset']
    for n in range(420):
        kind = kinds[n % len(kinds)]
        dtype = np.float32 if (n // len(kinds)) % 3 == 2 else np.float64
        C = int(rng.randint(2, 7))
        blank = [0, C - 1, int(rng.randint(0, C))][n % 3]
        L = int(rng.randint(1, 6))
        nonblank = [c for c in range(C) if c != blank]
        if C == 2 or rng.rand() < 0.35:
            base = int(rng.choice(nonblank))
            labels = [base if rng.rand() < 0.6 else int(rng.choice(nonblank)) for _ in range(L)]
        else:
            labels = [int(rng.choice(nonblank)) for _ in range(L)]
        if n % 41 == 7:
            labels[int(rng.randint(0, L))] = blank  # blank among the labels -> must fail
        needed = L + sum(1 for a, b in zip(labels, labels[1:]) if a == b)
        choice = n % 5
        if choice == 0:
            T = max(1, L - 1 + int(rng.randint(0, 2)))
        elif choice == 1:
            T = max(1, needed - 1)
        elif choice == 2:
            T = needed
        elif choice == 3:
            T = needed + int(rng.randint(1, 4))
        else:
            T = needed * 3 + int(rng.randint(0, 12))
        if kind == 'cont':
            m = rng.rand(T, C) * 10
        elif kind == 'quant':
            m = rng.randint(0, 3, size=(T, C)).astype(float)
        elif kind == 'inf':
            m = rng.rand(T, C) * 5
            m[rng.rand(T, C) < 0.25] = np.inf
        elif kind == 'const':
            m = np.zeros((T, C)) + float(rng.randint(0, 3))
        elif kind == 'peaky':
            logits = rng.randn(T, C) * 6
            m = -(logits - np.log(np.exp(logits).sum(axis=1, keepdims=True)))
        elif kind == 'neartie':
            m = 1.0 + rng.randint(0, 3, size=(T, C)) * (2.0 ** -50)
        else:  # bigoffset: large common offset + small integer structure
            m = 1e6 + rng.randint(0, 4, size=(T, C)).astype(float)
        cases.append(dict(name='fa%03d_%s_%s' % (n, kind, np.dtype(dtype).name),
                          costs=np.ascontiguousarray(m.astype(dtype)), labels=labels, blank=blank))
    return cases


def make_viterbi_cases():
    """Direct calls of viterbi_align with hand-made transition matrices."""
    rng = np.random.RandomState(77)
    cases = []
    for n in range(60):
        S = int(rng.randint(2, 7))
        T = int(rng.randint(1, 10))
        A = np.full((S, S), np.inf)
        mode = n % 4
        for i in range(S):
            for j in range(S):
                if mode == 0:      # CTC-like band, everything allowed in band
                    ok = 0 <= j - i <= 2
                elif mode == 1:    # band with random holes (also on the diagonal)
                    ok = 0 <= j - i <= 2 and rng.rand() < 0.75
                elif mode == 2:    # wider than the band / backward jumps -> generic path
                    ok = rng.rand() < 0.5
                else:              # finite non-zero entries: only the pattern matters
                    ok = 0 <= j - i <= 1
                if ok:
                    A[i, j] = 0.0 if mode != 3 else float(rng.randint(0, 5))
        if n % 2:
            m = rng.rand(T, S) * 4
        else:
            m = rng.randint(0, 3, size=(T, S)).astype(float)
        if n % 5 == 0:
            m[rng.rand(T, S) < 0.2] = np.inf
        cases.append(dict(name='vit%02d' % n, costs=m, A=A))
    return cases


# --------------------------------------------------------------------------
# running + property checks
# --------------------------------------------------------------------------
def run_force_align_case(case, problems):
    costs, labels, blank = case['costs'], case['labels'], case['blank']
    name = case['name']
    tol = tol_for(costs.dtype)
    T = costs.shape[0]
    res = {}
    before = costs.copy()
    try:
        sym = [int(s) for s in force_align(costs, list(labels), blank)]
        res['ok'] = True
    except ValueError:
        res['ok'] = False
    if not np.array_equal(before, costs):
        problems.append('%s: input cost matrix modified' % name)

    blank_in = blank in labels
    if blank_in:
        best, unique = INF, True
    else:
        seq = [blank] * (2 * len(labels) + 1)
        seq[1::2] = labels
        exp = [[float(costs[t, c]) for c in seq] for t in range(T)]
        best, unique = oracle(exp, ctc_preds(labels), tol)
    res['unique'] = bool(unique)
    if res['ok'] != (best != INF):
        problems.append('%s: failure reported=%s but oracle feasibility=%s' % (name, not res['ok'], best != INF))
    if not res['ok']:
        # the other entry points must fail as well
        for f in (lambda: force_align(costs, list(labels), blank, return_seq_positions=True),
                  lambda: align_text(costs, np.array(labels), blank)):
            try:
                f()
                problems.append('%s: inconsistent failure between entry points' % name)
            except ValueError:
                pass
        return res

    pos = [int(s) for s in force_align(costs, list(labels), blank, return_seq_positions=True)]
    chp = align_text(costs, np.array(labels), blank)
    if chp.dtype != np.int32:
        problems.append('%s: align_text dtype %s' % (name, chp.dtype))
    chp = [int(p) for p in chp]
    cost = float(sum(float(costs[t, s]) for t, s in enumerate(sym)))
    res.update(align=sym, seqpos=pos, charpos=chp, cost=cost)

    # --- the property itself
    if len(sym) != T or len(pos) != T:
        problems.append('%s: not one symbol per frame' % name)
        return res
    if collapse(sym, blank) != list(labels):
        problems.append('%s: alignment does not collapse to the labels' % name)
    if not close(cost, best, tol):
        problems.append('%s: cost %r is not the minimum %r' % (name, cost, best))
    for t in range(T):
        if (pos[t] == -1) != (sym[t] == blank) or (pos[t] >= 0 and labels[pos[t]] != sym[t]):
            problems.append('%s: seq positions inconsistent with symbols' % name)
            break
    chars = [p for p in pos if p >= 0]
    if sorted(set(chars)) != list(range(len(labels))) or any(b - a not in (0, 1) for a, b in zip(chars, chars[1:])):
        problems.append('%s: seq positions are not a monotone cover of the labels' % name)
        return res
    conf = (-costs).max(axis=-1)
    res['conf_unique'] = True
    if len(chp) != len(labels) or any(b <= a for a, b in zip(chp, chp[1:])):
        problems.append('%s: char positions not strictly increasing' % name)
    for i, p in enumerate(chp):
        frames = [t for t in range(T) if pos[t] == i]
        top = max(conf[t] for t in frames)
        if sum(1 for t in frames if conf[t] == top) != 1:
            res['conf_unique'] = False
        if p not in frames or conf[p] != top:
            problems.append('%s: char %d position %d is not a most confident aligned frame' % (name, i, p))
    return res


def run_viterbi_case(case, problems):
    costs, A, name = case['costs'], case['A'], case['name']
    T, S = costs.shape
    preds = preds_from_A(A)
    best, unique = oracle([[float(x) for x in row] for row in costs], preds, 1e-9)
    res = {'unique': bool(unique)}
    before = (costs.copy(), A.copy())
    try:
        path = [int(s) for s in viterbi_align(costs, A)]
        res['ok'] = True
    except ValueError:
        res['ok'] = False
    if not (np.array_equal(before[0], costs) and np.array_equal(before[1], A)):
        problems.append('%s: inputs modified' % name)
    if res['ok'] != (best != INF):
        problems.append('%s: failure reported=%s, oracle feasible=%s' % (name, not res['ok'], best != INF))
    if not res['ok']:
        return res
    cost = float(sum(float(costs[t, s]) for t, s in enumerate(path)))
    res.update(align=path, cost=cost)
    valid = (len(path) == T and path[0] in (0, 1) and path[-1] in (S - 1, S - 2)
             and all(a in preds[b] for a, b in zip(path, path[1:])))
    if not valid:
        problems.append('%s: path is not a valid state sequence' % name)
    if not close(cost, best, 1e-9):
        problems.append('%s: cost %r is not the minimum %r' % (name, cost, best))
    return res


def compare(name, new, ref, tol, diffs):
    if new['ok'] != ref['ok']:
        diffs.append('%s: success flag %s vs reference %s' % (name, new['ok'], ref['ok']))
        return
    if not new['ok']:
        return
    if not close(new['cost'], ref['cost'], tol):
        diffs.append('%s: cost %r vs reference %r' % (name, new['cost'], ref['cost']))
    if new['unique']:
        for key in ('align', 'seqpos'):
            if key in ref and new[key] != ref[key]:
                diffs.append('%s: %s differs although the optimum is unique' % (name, key))
        if 'charpos' in ref and new.get('conf_unique') and new['charpos'] != ref['charpos']:
            diffs.append('%s: char positions differ although alignment and confidence maxima are unique' % name)
    # non-unique optimum: membership in the set of optimal alignments == valid
    # (checked as the property above) + cost within tolerance (checked here)


def main():
    problems, results, tols = [], {}, {}
    for cases, runner in ((make_cases(), run_force_align_case), (make_viterbi_cases(), run_viterbi_case)):
        for case in cases:
            try:
                results[case['name']] = runner(case, problems)
            except Exception as e:  # anything but the documented ValueError on failure
                results[case['name']] = {'ok': False, 'unique': True}
                problems.append('%s: unexpected %s: %s' % (case['name'], type(e).__name__, e))
            tols[case['name']] = tol_for(case['costs'].dtype)

    n_ok = sum(1 for r in results.values() if r['ok'])
    n_tied = sum(1 for r in results.values() if r['ok'] and not r['unique'])
    print('cases: %d, aligned: %d (of which with tied optimum: %d), failures: %d'
          % (len(results), n_ok, n_tied, len(results) - n_ok))

    if problems:
        print('DIFFERENT: property violated: ' + '; '.join(problems[:5]))
        return 1

    if not os.path.exists(REF_PATH):
        with open(REF_PATH, 'w') as f:
            json.dump(results, f, indent=0, sort_keys=True)
        print('reference written to %s' % REF_PATH)
        for name in sorted(results)[:3]:
            print('  %s: %s' % (name, json.dumps(results[name], sort_keys=True)))
        print('MATCH')
        return 0

    with open(REF_PATH) as f:
        ref = json.load(f)
    diffs = []
    if sorted(ref) != sorted(results):
        diffs.append('case lists differ')
    else:
        n_same = 0
        for name in sorted(results):
            compare(name, results[name], ref[name], tols[name], diffs)
            if results[name].get('align') == ref[name].get('align') and \
                    results[name].get('charpos') == ref[name].get('charpos'):
                n_same += 1
        print('bit-identical to reference in %d of %d cases (others differ only inside tolerated ties)'
              % (n_same, len(results)))
    if diffs:
        print('DIFFERENT: ' + '; '.join(diffs[:5]) + (' ... (%d in total)' % len(diffs) if len(diffs) > 5 else ''))
        return 1
    print('MATCH')
    return 0


if __name__ == '__main__':
    sys.exit(main())
