#!/usr/bin/env python
"""Differential test for change N (C13: edit distance / alignments / error summaries).

First run on the CLEAN tree writes reference.json next to this file. Later runs compare the
current tree against it and print MATCH (exit 0) or DIFFERENT: <what> (exit 1).

What is compared
  * distances (plain with costs 1..4, substring with unit costs and, additionally, with the case's
    costs), summary totals: numerically, 1e-9 relative tolerance
  * substring alignments (their insertion sweep is rewritten by N): compared exactly, and for unit
    costs their cost without the free leading / trailing part is checked against the distance
  * plain alignments (not touched by N): projection onto both inputs, cost == distance, membership in
    the independently enumerated set of optimal alignments (small cases) AND equality with the
    reference, because N is not supposed to resolve any tie differently
  * (subs, ins, dels) of a line summary: sum equals the distance; aggregation is plain addition
"""
import json
import os
import random
import sys

import numpy as np

from pero_ocr.sequence_alignment import levenshtein_distance
from pero_ocr.sequence_alignment import levenshtein_alignment
from pero_ocr.sequence_alignment import levenshtein_alignment_path
from pero_ocr.sequence_alignment import levenshtein_distance_substring
from pero_ocr.sequence_alignment import levenshtein_alignment_substring
from pero_ocr.error_summary import ErrorsSummary

HERE = os.path.dirname(os.path.abspath(__file__))
REFERENCE = os.path.join(HERE, 'reference.json')
RTOL = 1e-9
SMALL = 5  # both sequences at most this long -> all optimal alignments are enumerated


# ----------------------------------------------------------------------------- inputs
def make_cases():
    rng = random.Random(1313)
    alphabets = {
        'str2': list('ab'),
        'str3': list('abc'),
        'strL': [chr(c) for c in range(ord('a'), ord('z') + 1)] + list(u'áčřž'),
        'int2': [0, 1],
        'int3': [1, 2, 3],
        'intL': list(range(-50, 1000, 7)),
        'mixed': [1, '1', 'a', 2, 'b', 'ab', 12],
    }
    cases = []

    def add(a, b, costs=(1, 1, 1)):
        cases.append((list(a), list(b), tuple(costs)))

    # hand-written corner cases
    corner = [
        ('', ''), ('', 'abc'), ('abc', ''), ('abc', 'abc'), ('a', 'a'), ('a', 'b'),
        ('bc', 'abc'), ('abc', 'bc'), ('a', 'ba'), ('ab', 'b'), ('b', 'abc'), ('abc', 'b'),
        ('abcd', 'abb'), ('abb', 'abcd'), ('ab', 'acd'), ('acd', 'ab'), ('ab', 'ba'), ('abc', 'cab'),
        ('abcabc', 'abc'), ('abc', 'abcabc'), ('xabcx', 'abc'), ('abc', 'xxabcxx'), ('aaaa', 'aa'), ('aa', 'aaaa'),
        ('kitten', 'sitting'), ('sunday', 'saturday'), ('abab', 'baba'),
    ]
    for a, b in corner:
        add(a, b)
        add(a, b, (rng.randint(1, 4), rng.randint(1, 4), rng.randint(1, 4)))
    int_corner = [
        ([], []), ([1], [1]), ([1], [2]), ([1], [2, 1]), ([1, 2], [1]), ([1, 2, 3], [1, -1, -2, 3]),
        ([1, -1, -2, 3], [1, 2, 3]), ([1, 2, 3], []), ([], [1, 2, 3]), ([1, 2, -1, 1, 2, 3], [1, 2, 3]),
        ([1, -1], [1, 2, 3]), ([1, 1, 1, 2, 3], [1, 2, 3]), ([1, 2, 3, 2, 3], [1, 2, 3]),
        ([1, '1', 2], ['1', 1, 2]), (['a', 1], [1, 'a']), ([1, 2], ['1', '2']), (['1', '2'], [1, 2]),
        ([1, 'a', 2], ['1', 'b']), ([12, 'ab'], ['ab', 12, 1]),
    ]
    for a, b in int_corner:
        add(a, b)
        add(a, b, (rng.randint(1, 4), rng.randint(1, 4), rng.randint(1, 4)))

    # all cost triples on a couple of tie-rich pairs
    for sub in range(1, 5):
        for ins in range(1, 5):
            for dele in range(1, 5):
                add('abca', 'bacb', (sub, ins, dele))
                add([1, 2, 1], [2, 1, 2, 2], (sub, ins, dele))

    # random small cases (optimal alignments enumerated)
    for name in sorted(alphabets):
        alpha = alphabets[name]
        for _ in range(22):
            a = [rng.choice(alpha) for _ in range(rng.randint(0, SMALL))]
            b = [rng.choice(alpha) for _ in range(rng.randint(0, SMALL))]
            costs = (1, 1, 1) if rng.random() < 0.5 else (rng.randint(1, 4), rng.randint(1, 4), rng.randint(1, 4))
            add(a, b, costs)
        # one a substring of the other / a mutated copy
        for _ in range(6):
            a = [rng.choice(alpha) for _ in range(rng.randint(1, SMALL))]
            lo = rng.randint(0, len(a) - 1)
            hi = rng.randint(lo, len(a))
            add(a, a[lo:hi])
            add(a[lo:hi], a, (rng.randint(1, 4), rng.randint(1, 4), rng.randint(1, 4)))

    # random long cases (validity + cost only)
    for name in sorted(alphabets):
        alpha = alphabets[name]
        for _ in range(8):
            a = [rng.choice(alpha) for _ in range(rng.randint(6, 14))]
            b = list(a)
            for _ in range(rng.randint(0, 6)):
                op = rng.randint(0, 2)
                pos = rng.randint(0, len(b))
                if op == 0:
                    b.insert(pos, rng.choice(alpha))
                elif op == 1 and b:
                    del b[min(pos, len(b) - 1)]
                elif b:
                    b[min(pos, len(b) - 1)] = rng.choice(alpha)
            if rng.random() < 0.3:
                b = [rng.choice(alpha) for _ in range(rng.randint(6, 14))]
            costs = (1, 1, 1) if rng.random() < 0.5 else (rng.randint(1, 4), rng.randint(1, 4), rng.randint(1, 4))
            add(a, b, costs)
    return cases


# ----------------------------------------------------------------------------- helpers
def norm(sym):
    if sym is None:
        return None
    if isinstance(sym, np.generic):
        return sym.item()
    return sym


def same_symbol(x, y):
    x, y = norm(x), norm(y)
    return type(x) is type(y) and x == y


def pairs_to_path(pairs):
    return [-1 if s is None else (1 if t is None else 0) for s, t in pairs]


def check_path(path, a, b, costs):
    """returns (problem or None, cost)"""
    sub, ins, dele = costs
    i = j = cost = 0
    for step in path:
        if step not in (-1, 0, 1):
            return 'illegal step %r' % (step,), None
        if step == 0:
            if i >= len(a) or j >= len(b):
                return 'path leaves the lattice', None
            cost += sub * (a[i] != b[j])
            i += 1
            j += 1
        elif step == 1:
            if i >= len(a):
                return 'path leaves the lattice', None
            cost += dele
            i += 1
        else:
            if j >= len(b):
                return 'path leaves the lattice', None
            cost += ins
            j += 1
    if i != len(a) or j != len(b):
        return 'path does not consume both inputs', None
    return None, cost


def check_pairs(pairs, a, b, costs):
    src = [s for s, t in pairs if s is not None]
    tar = [t for s, t in pairs if t is not None]
    if any(s is None and t is None for s, t in pairs):
        return 'pair (None, None)', None
    if len(src) != len(a) or not all(same_symbol(x, y) for x, y in zip(src, a)):
        return 'source projection differs from the input', None
    if len(tar) != len(b) or not all(same_symbol(x, y) for x, y in zip(tar, b)):
        return 'target projection differs from the input', None
    return check_path(pairs_to_path(pairs), a, b, costs)


def check_substring_pairs(pairs, a, b, dist_sub):
    """unit costs: projections reproduce the inputs; cost without the free leading / trailing part == distance"""
    src = [s for s, t in pairs if s is not None]
    tar = [t for s, t in pairs if t is not None]
    if len(src) != len(a) or not all(same_symbol(x, y) for x, y in zip(src, a)):
        return 'source projection differs from the input'
    if len(tar) != len(b) or not all(same_symbol(x, y) for x, y in zip(tar, b)):
        return 'target projection differs from the input'
    short_side = 1 if len(b) <= len(a) else 0  # symbols of the longer sequence are free outside the matched part
    core = list(pairs)
    while core and core[0][short_side] is None:
        core.pop(0)
    while core and core[-1][short_side] is None:
        core.pop()
    cost = sum(1 for s, t in core if s is None or t is None or not same_symbol(s, t))
    if not close(cost, dist_sub):
        return 'costs %r without the free ends, substring distance is %r' % (cost, dist_sub)
    return None


def all_optimal_paths(a, b, costs):
    """Independent enumeration of every cheapest alignment path (plain Python DP)."""
    sub, ins, dele = costs
    n, m = len(a), len(b)
    D = [[0] * (m + 1) for _ in range(n + 1)]
    for j in range(1, m + 1):
        D[0][j] = j * ins
    for i in range(1, n + 1):
        D[i][0] = i * dele
        for j in range(1, m + 1):
            D[i][j] = min(D[i - 1][j] + dele, D[i][j - 1] + ins, D[i - 1][j - 1] + sub * (a[i - 1] != b[j - 1]))
    out = []

    def walk(i, j, tail):
        if i == 0 and j == 0:
            out.append(tail)
            return
        if i > 0 and j > 0 and D[i][j] == D[i - 1][j - 1] + sub * (a[i - 1] != b[j - 1]):
            walk(i - 1, j - 1, (0,) + tail)
        if i > 0 and D[i][j] == D[i - 1][j] + dele:
            walk(i - 1, j, (1,) + tail)
        if j > 0 and D[i][j] == D[i][j - 1] + ins:
            walk(i, j - 1, (-1,) + tail)

    walk(n, m, ())
    return D[n][m], out


def path_key(path):
    return ','.join(str(int(p)) for p in path)


def triple_of_path(path, hyp, ref):
    """(subs, inss, dels) as ErrorsSummary.from_lists(ref, hyp) counts them for alignment(hyp, ref)."""
    i = j = subs = inss = dels = 0
    for step in path:
        if step == 0:
            subs += int(hyp[i] != ref[j])
            i += 1
            j += 1
        elif step == 1:  # hyp symbol without a reference symbol
            inss += 1
            i += 1
        else:  # reference symbol without a hyp symbol
            dels += 1
            j += 1
    return [subs, inss, dels]


# ----------------------------------------------------------------------------- measurement
def measure(cases):
    out = []
    summaries = []
    for a, b, costs in cases:
        sub, ins, dele = costs
        rec = {'input': repr((a, b, costs))}
        rec['dist'] = float(levenshtein_distance(list(a), list(b), sub, ins, dele))
        rec['dist_swapped'] = float(levenshtein_distance(list(b), list(a), sub, dele, ins))
        pairs = levenshtein_alignment(list(a), list(b), sub, ins, dele)
        rec['pairs'] = [[norm(s), norm(t)] for s, t in pairs]
        rec['path'] = [float(p) for p in levenshtein_alignment_path(list(a), list(b), sub, ins, dele)]
        rec['dist_sub_costs'] = float(levenshtein_distance_substring(list(a), list(b), sub, ins, dele))
        rec['pairs_sub_costs'] = [[norm(s), norm(t)]
                                  for s, t in levenshtein_alignment_substring(list(a), list(b), sub, ins, dele)]
        if costs == (1, 1, 1):
            rec['dist_sub'] = float(levenshtein_distance_substring(list(a), list(b)))
            rec['pairs_sub'] = [[norm(s), norm(t)] for s, t in levenshtein_alignment_substring(list(a), list(b))]
            summ = ErrorsSummary.from_lists(list(a), list(b))  # ref = a, hyp = b
            summaries.append(summ)
            rec['summary'] = {'nb_errors': float(summ.nb_errors), 'ref_len': summ.ref_len,
                              'triple': [int(summ.nb_subs), int(summ.nb_inss), int(summ.nb_dels)],
                              'nb_lines': summ.nb_lines_summarized}
        out.append(rec)

    aggregates = []
    for start in range(0, len(summaries), 7):
        chunk = summaries[start:start + 7]
        agg = ErrorsSummary.aggregate(chunk)
        aggregates.append({
            'nb_errors': float(agg.nb_errors), 'ref_len': int(agg.ref_len), 'nb_lines': int(agg.nb_lines_summarized),
            'triple': [int(agg.nb_subs), int(agg.nb_inss), int(agg.nb_dels)],
            'sum_of_parts': [int(sum(s.nb_subs for s in chunk)), int(sum(s.nb_inss for s in chunk)),
                             int(sum(s.nb_dels for s in chunk))],
        })
    empty = ErrorsSummary.aggregate([])
    aggregates.append({'nb_errors': float(empty.nb_errors), 'ref_len': int(empty.ref_len),
                       'nb_lines': int(empty.nb_lines_summarized),
                       'triple': [int(empty.nb_subs), int(empty.nb_inss), int(empty.nb_dels)],
                       'sum_of_parts': [0, 0, 0]})
    return {'cases': out, 'aggregates': aggregates}


def add_tie_sets(result, cases):
    """Reference only: the sets of admissible answers where the statement leaves a tie open."""
    for rec, (a, b, costs) in zip(result['cases'], cases):
        if len(a) <= SMALL and len(b) <= SMALL:
            _, paths = all_optimal_paths(a, b, costs)
            rec['optimal_paths'] = sorted(path_key(p) for p in paths)
            if 'summary' in rec:
                # from_lists(ref=a, hyp=b) aligns (source=hyp=b, target=ref=a)
                _, rev_paths = all_optimal_paths(b, a, costs)
                triples = sorted(set(tuple(triple_of_path(p, b, a)) for p in rev_paths))
                rec['summary']['admissible_triples'] = [list(t) for t in triples]


def close(x, y):
    return abs(x - y) <= RTOL * max(abs(x), abs(y))


# ----------------------------------------------------------------------------- comparison
def compare(cur, ref, cases):
    if len(cur['cases']) != len(ref['cases']):
        return 'number of cases'
    for idx, (c, r, (a, b, costs)) in enumerate(zip(cur['cases'], ref['cases'], cases)):
        tag = 'case %d %s: ' % (idx, r['input'])
        if c['input'] != r['input']:
            return tag + 'inputs of the demo changed'
        for key in ('dist', 'dist_swapped', 'dist_sub', 'dist_sub_costs'):
            if key in r and not close(c[key], r[key]):
                return tag + '%s %r vs reference %r' % (key, c[key], r[key])

        problem, cost = check_path(c['path'], a, b, costs)
        if problem:
            return tag + 'path: ' + problem
        if not close(cost, r['dist']):
            return tag + 'path costs %r, distance is %r' % (cost, r['dist'])
        pairs = [tuple(p) for p in c['pairs']]
        problem, cost = check_pairs(pairs, a, b, costs)
        if problem:
            return tag + 'pairs: ' + problem
        if not close(cost, r['dist']):
            return tag + 'pairs cost %r, distance is %r' % (cost, r['dist'])
        if 'optimal_paths' in r:
            admissible = set(r['optimal_paths'])
            if path_key(c['path']) not in admissible:
                return tag + 'path %r is not among the optimal alignments' % (c['path'],)
            if path_key(pairs_to_path(pairs)) not in admissible:
                return tag + 'pairs %r are not among the optimal alignments' % (pairs,)

        if c['path'] != r['path'] or c['pairs'] != r['pairs']:
            return tag + 'plain alignment differs from the reference although N does not touch it'
        if c['pairs_sub_costs'] != r['pairs_sub_costs']:
            return tag + 'substring alignment (costs) %r vs reference %r' % (c['pairs_sub_costs'], r['pairs_sub_costs'])
        if 'pairs_sub' in r:
            if c['pairs_sub'] != r['pairs_sub']:
                return tag + 'substring alignment %r vs reference %r' % (c['pairs_sub'], r['pairs_sub'])
            problem = check_substring_pairs([tuple(p) for p in c['pairs_sub']], a, b, r['dist_sub'])
            if problem:
                return tag + 'substring alignment: ' + problem

        if 'summary' in r:
            cs, rs = c['summary'], r['summary']
            for key in ('nb_errors', 'ref_len', 'nb_lines'):
                if not close(cs[key], rs[key]):
                    return tag + 'summary %s %r vs reference %r' % (key, cs[key], rs[key])
            if sum(cs['triple']) != rs['nb_errors']:
                return tag + 'subs+ins+dels %r != distance %r' % (cs['triple'], rs['nb_errors'])
            if 'admissible_triples' in rs and cs['triple'] not in rs['admissible_triples']:
                return tag + '(subs, ins, dels) %r not realised by any optimal alignment' % (cs['triple'],)

    if len(cur['aggregates']) != len(ref['aggregates']):
        return 'number of aggregates'
    for idx, (c, r) in enumerate(zip(cur['aggregates'], ref['aggregates'])):
        tag = 'aggregate %d: ' % idx
        for key in ('nb_errors', 'ref_len', 'nb_lines'):
            if not close(c[key], r[key]):
                return tag + '%s %r vs reference %r' % (key, c[key], r[key])
        if c['triple'] != c['sum_of_parts']:
            return tag + 'aggregation is not plain addition: %r vs %r' % (c['triple'], c['sum_of_parts'])
        if sum(c['triple']) != r['nb_errors']:
            return tag + 'subs+ins+dels %r != total distance %r' % (c['triple'], r['nb_errors'])
    return None


def main():
    cases = make_cases()
    try:
        current = measure(cases)
    except Exception as exc:  # the clean tree raises on none of the cases
        print('DIFFERENT: exception %s: %s' % (type(exc).__name__, exc))
        return 1
    if not os.path.exists(REFERENCE):
        add_tie_sets(current, cases)
        problem = compare(current, current, cases)  # the clean tree has to be admissible itself
        if problem:
            print('DIFFERENT: clean tree inconsistent with the enumerated optima: ' + problem)
            return 1
        with open(REFERENCE, 'w') as f:
            json.dump(current, f, indent=0, sort_keys=True)
        print('reference.json written (%d cases, %d aggregates)' % (len(current['cases']), len(current['aggregates'])))
        return 0
    with open(REFERENCE) as f:
        reference = json.load(f)
    problem = compare(current, reference, cases)
    if problem:
        print('DIFFERENT: ' + problem)
        return 1
    nb_changed = sum(c['path'] != r['path'] or c['pairs'] != r['pairs']
                     for c, r in zip(current['cases'], reference['cases']))
    print('MATCH (%d cases; %d of them resolve an open tie differently from the reference)'
          % (len(current['cases']), nb_changed))
    return 0


if __name__ == '__main__':
    sys.exit(main())
