"""Differential demo for change K (PageLayout._gen_logits rewrite).

Builds a few hundred random pages, saves their logits (bytes + file variants, strict and
missing_line_logits_ok modes), reloads them into same / subset / superset layouts and prints
a digest over everything observable: pickled bytes, key order, raised messages, restored
matrices, character tables and frame windows.
"""
import hashlib
import os
import pickle
import tempfile

import numpy as np
import scipy.sparse as sp

from pero_ocr.core.layout import PageLayout, RegionLayout, TextLine

H = hashlib.sha256()


def feed(*items):
    for it in items:
        if isinstance(it, np.ndarray):
            H.update(str(it.dtype).encode() + str(it.shape).encode() + np.ascontiguousarray(it).tobytes())
        elif isinstance(it, bytes):
            H.update(it)
        else:
            H.update(repr(it).encode('utf-8'))
        H.update(b'|')


def feed_sparse(m):
    if not sp.issparse(m):      # None, or a clash with one of the reserved keys
        feed('not-sparse', m)
        return
    feed(type(m).__name__, m.shape, str(m.dtype))
    for name in ('data', 'indices', 'indptr', 'row', 'col'):
        if hasattr(m, name):
            feed(name, np.asarray(getattr(m, name)))
    feed(m.toarray())


def feed_line(line):
    feed('line', line.id)
    feed_sparse(line.logits)
    feed(line.characters, line.logit_coords, line.transcription)
    if sp.issparse(line.logits):
        feed(line.get_dense_logits(), line.get_full_logprobs())


def random_sparse(rng):
    t = int(rng.integers(0, 9))
    c = int(rng.integers(1, 7))
    dtype = [np.float32, np.float64][int(rng.integers(0, 2))]
    dense = rng.normal(size=(t, c)).astype(dtype) * 5
    dense[dense == 0] = 1
    dense[rng.random((t, c)) < rng.choice([0.0, 0.3, 0.7, 1.0])] = 0
    fmt = rng.choice(['csc', 'csr', 'coo'], p=[0.7, 0.2, 0.1])
    return {'csc': sp.csc_matrix, 'csr': sp.csr_matrix, 'coo': sp.coo_matrix}[fmt](dense)


ALPHABET = list('abcdefghij šéxyz')


def random_line(rng, line_id, allow_missing):
    logits = random_sparse(rng)
    n_chars = logits.shape[1]
    chars = [str(ch) for ch in rng.choice(ALPHABET, size=n_chars - 1, replace=False)] + ['​']
    if rng.random() < 0.5:
        coords = [None, None]
    else:
        a = int(rng.integers(0, logits.shape[0] + 1))
        coords = [a, int(rng.integers(a, logits.shape[0] + 1))]
    line = TextLine(id=line_id, logits=logits, characters=chars, logit_coords=coords,
                    transcription=''.join(chars[:2]))
    if allow_missing:
        r = rng.random()
        if r < 0.1:
            line.logits = None
        elif r < 0.2:
            line.characters = None
        elif r < 0.3:
            line.logit_coords = None
        elif r < 0.35:
            line.logits = None
            line.logit_coords = None
        elif r < 0.4:
            line.logits = line.characters = line.logit_coords = None
    return line


def random_page(rng, case):
    page = PageLayout(id=f'page{case}', page_size=(100, 100))
    n_regions = int(rng.integers(0, 4))
    allow_missing = case % 3 == 0
    special = case % 10
    counter = 0
    for r in range(n_regions):
        region = RegionLayout(f'r{r}', np.array([[0, 0], [10, 0], [10, 10], [0, 10]]))
        for _ in range(int(rng.integers(0, 5))):
            line_id = f'l{counter}'
            counter += 1
            if special == 7 and rng.random() < 0.3 and counter > 1:
                line_id = f'l{int(rng.integers(0, counter))}'        # duplicated id
            if special == 9 and rng.random() < 0.2:
                line_id = str(rng.choice(['line_characters', 'logit_coords']))  # clash with reserved keys
            region.lines.append(random_line(rng, line_id, allow_missing))
        page.regions.append(region)
    return page


def skeleton(page, rng, mode):
    """A layout with the same / fewer / more line ids, lines pre-filled with sentinel values."""
    out = PageLayout(id=page.id, page_size=page.page_size)
    for region in page.regions:
        new_region = RegionLayout(region.id, region.polygon)
        for line in region.lines:
            if mode == 'subset' and rng.random() < 0.4:
                continue
            new_region.lines.append(TextLine(id=line.id))
        if mode == 'superset':
            extra = TextLine(id=f'extra_{region.id}', logits=sp.csc_matrix(np.eye(2)), characters=['q', 'w'],
                             logit_coords=[0, 1])
            new_region.lines.append(extra)
        out.regions.append(new_region)
    return out


def describe_dict(d):
    feed('keys', [k for k in d])
    for k, v in d.items():
        if k in ('line_characters', 'logit_coords') and isinstance(v, dict):
            feed(k, list(v.items()))
        else:
            feed(k)
            feed_sparse(v)


def main():
    rng = np.random.default_rng(20240909)
    tmpdir = tempfile.mkdtemp(prefix='c09_k_')
    n_ok = n_exc = 0
    for case in range(400):
        page = random_page(rng, case)
        for missing_ok in (False, True):
            feed('case', case, missing_ok)
            try:
                gen = page._gen_logits(missing_line_logits_ok=missing_ok)
            except Exception as e:
                feed('gen-exc', type(e).__name__, str(e))
            else:
                describe_dict(gen)
                # values must be the very objects held by the lines (no copies)
                feed([gen[l.id] is l.logits for l in page.lines_iterator()
                      if l.id not in ('line_characters', 'logit_coords')])
            try:
                blob = page.save_logits_bytes(missing_line_logits_ok=missing_ok)
            except Exception as e:
                feed('bytes-exc', type(e).__name__, str(e))
                blob = None
                n_exc += 1
            else:
                feed('bytes', hashlib.sha256(blob).hexdigest())
                n_ok += 1
            path = os.path.join(tmpdir, f'{case}_{missing_ok}.logits')
            try:
                page.save_logits(path, missing_line_logits_ok=missing_ok)
            except Exception as e:
                feed('file-exc', type(e).__name__, str(e), os.path.exists(path))
            else:
                with open(path, 'rb') as f:
                    feed('file', hashlib.sha256(f.read()).hexdigest())
            if blob is None:
                continue
            for mode in ('same', 'subset', 'superset'):
                for source in (blob, path):
                    target = skeleton(page, rng, mode)
                    try:
                        target.load_logits(source)
                    except Exception as e:
                        feed('load-exc', type(e).__name__, str(e))
                    feed('restored', mode, isinstance(source, bytes))
                    for line in target.lines_iterator():
                        feed_line(line)
            if os.path.exists(path):
                os.remove(path)
    os.rmdir(tmpdir)
    print(f'cases saved ok: {n_ok}, refused: {n_exc}')
    print('DIGEST', H.hexdigest())


if __name__ == '__main__':
    main()
