#!/usr/bin/env python3
"""Differential demo for change K (smart_sorter: no deepcopy in divide_and_order,
dict based id -> index lookup in process_page).

Runs SmartRegionSorter.process_page (and CoupledRegions.divide_and_order directly) on a few
hundred small synthetic pages and prints a digest of all results.  The digest must be identical
on the clean tree and on the patched tree.
"""
import configparser
import hashlib
import sys
import warnings

import numpy as np

warnings.filterwarnings("ignore")

from pero_ocr.core.layout import PageLayout, RegionLayout, TextLine
from pero_ocr.layout_engines.smart_sorter import SmartRegionSorter, CoupledRegions, Region


def make_sorter(param=None):
    cp = configparser.ConfigParser()
    cp.read_dict({'S': {} if param is None else {'FakeIntersectionParameter': str(param)}})
    return SmartRegionSorter(cp['S'])


def box(x0, y0, x1, y1, dtype=np.float64):
    return np.array([[x0, y0], [x1, y0], [x1, y1], [x0, y1]], dtype=dtype)


def make_page(polys, slant=0.0, lines_per_region=2, rng=None):
    page = PageLayout(id='p', page_size=(2000, 2000))
    for i, poly in enumerate(polys):
        reg = RegionLayout('r{:03d}'.format(i), poly.copy())
        reg.transcription = 'text of r{}'.format(i)
        x0, y0 = poly.min(axis=0)
        x1, y1 = poly.max(axis=0)
        n_lines = lines_per_region if rng is None else int(rng.integers(0, 4))
        for k in range(n_lines):
            yy = float(y0) + (k + 1) * (float(y1) - float(y0)) / (n_lines + 1)
            dy = slant * (float(x1) - float(x0))
            baseline = np.array([[x0, yy], [(x0 + x1) / 2.0, yy + dy / 2], [x1, yy + dy]], dtype=np.float64)
            lpoly = np.array([[x0, yy - 5], [x1, yy - 5 + dy], [x1, yy + 5 + dy], [x0, yy + 5]], dtype=np.float64)
            line = TextLine(id='r{:03d}-l{}'.format(i, k), baseline=baseline, polygon=lpoly,
                            heights=np.array([5.0, 5.0]), transcription='line {} {}'.format(i, k))
            reg.lines.append(line)
        page.regions.append(reg)
    return page


def describe_page(page):
    out = []
    for reg in page.regions:
        out.append(('R', reg.id, reg.transcription, str(reg.polygon.dtype), reg.polygon.shape,
                    tuple(np.round(np.asarray(reg.polygon, dtype=np.float64), 5).ravel().tolist())))
        for line in reg.lines:
            out.append(('L', line.id, line.transcription,
                        tuple(np.round(np.asarray(line.polygon, dtype=np.float64), 5).ravel().tolist()),
                        tuple(np.round(np.asarray(line.baseline, dtype=np.float64), 5).ravel().tolist())))
    return out


def gen_cases():
    rng = np.random.default_rng(1234)
    cases = []

    # 0 / 1 regions
    cases.append(('empty', [], 0.0))
    cases.append(('single', [box(10, 10, 100, 100)], 0.0))
    cases.append(('single-slant', [box(10, 10, 100, 100)], 0.05))

    # grids and columns
    for nx in range(1, 5):
        for ny in range(1, 5):
            for gap in (10, 0, -15):
                polys = []
                for ix in range(nx):
                    for iy in range(ny):
                        polys.append(box(50 + ix * 200, 50 + iy * 150, 50 + ix * 200 + 200 - gap, 50 + iy * 150 + 150 - gap))
                perm = rng.permutation(len(polys))
                cases.append(('grid{}x{}g{}'.format(nx, ny, gap), [polys[i] for i in perm], 0.0))
                cases.append(('grid{}x{}g{}s'.format(nx, ny, gap), [polys[i] for i in perm], 0.03))

    # identical regions, nested regions
    cases.append(('identical', [box(10, 10, 200, 200)] * 4, 0.0))
    cases.append(('identical-slant', [box(10, 10, 200, 200)] * 3, -0.04))
    cases.append(('nested', [box(10, 10, 500, 500), box(50, 50, 200, 200), box(60, 60, 100, 100), box(300, 300, 450, 450)], 0.0))
    cases.append(('nested-slant', [box(10, 10, 500, 500), box(50, 50, 200, 200), box(60, 60, 100, 100), box(300, 300, 450, 450)], 0.02))

    # degenerate boxes
    cases.append(('zero-width', [box(10, 10, 10, 100), box(50, 10, 50, 100), box(10, 200, 100, 300)], 0.0))
    cases.append(('zero-height', [box(10, 10, 100, 10), box(10, 50, 100, 50), box(200, 10, 300, 100)], 0.0))
    cases.append(('points', [box(10, 10, 10, 10), box(50, 50, 50, 50), box(10, 10, 10, 10)], 0.0))
    cases.append(('zero-width-overlap', [box(10, 10, 10, 100), box(10, 50, 10, 150), box(5, 20, 15, 40)], 0.0))
    cases.append(('int-dtype', [box(10, 10, 100, 100, np.int64), box(120, 10, 220, 100, np.int64), box(10, 120, 220, 300, np.int64)], 0.0))
    cases.append(('int-overlap', [box(10, 10, 100, 100, np.int64), box(50, 50, 150, 150, np.int64), box(90, 90, 300, 300, np.int64), box(0, 140, 60, 200, np.int64)], 0.0))
    cases.append(('f32', [box(10, 10, 100, 100, np.float32), box(50, 50, 150, 150, np.float32), box(400, 10, 500, 100, np.float32)], 0.0))
    cases.append(('negative', [box(-300, -300, -100, -100), box(-90, -300, -10, -100), box(-300, -90, -10, -10)], 0.0))
    cases.append(('huge', [box(2e5, 2e5, 3e5, 3e5), box(3.1e5, 2e5, 4e5, 3e5), box(2e5, 3.1e5, 4e5, 4e5)], 0.0))

    # random mutually overlapping boxes (fallback path) and random polygons
    for n in range(2, 9):
        for rep in range(12):
            polys = []
            for _ in range(n):
                x0, y0 = rng.integers(0, 600, size=2)
                w, h = rng.integers(0, 500, size=2)
                polys.append(box(float(x0), float(y0), float(x0 + w), float(y0 + h)))
            cases.append(('rand-ov-{}-{}'.format(n, rep), polys, 0.0 if rep % 3 else float(rng.uniform(-0.08, 0.08))))
    for n in range(2, 8):
        for rep in range(8):
            polys = []
            for _ in range(n):
                k = int(rng.integers(3, 9))
                c = rng.uniform(0, 1000, size=2)
                polys.append(c[None, :] + rng.uniform(-200, 200, size=(k, 2)))
            cases.append(('rand-poly-{}-{}'.format(n, rep), polys, 0.0 if rep % 2 else float(rng.uniform(-0.1, 0.1))))
    # integer lattice boxes: plenty of ties in x_min / y_min
    for n in range(2, 10):
        for rep in range(8):
            polys = []
            for _ in range(n):
                x0, y0 = rng.integers(0, 4, size=2) * 100
                w, h = rng.integers(0, 4, size=2) * 100
                polys.append(box(float(x0), float(y0), float(x0 + w), float(y0 + h)))
            cases.append(('lattice-{}-{}'.format(n, rep), polys, 0.0 if rep % 2 else 0.01))
    return cases


def main():
    h = hashlib.sha256()
    n_cases = 0
    n_exc = 0
    rng_lines = np.random.default_rng(99)
    for param in (None, 0.0, 0.5):
        sorter = make_sorter(param)
        for name, polys, slant in gen_cases():
            for variable_lines in (False, True):
                page = make_page(polys, slant, rng=rng_lines if variable_lines else None)
                orig_regions = list(page.regions)
                try:
                    res = sorter.process_page(None, page)
                    desc = describe_page(res)
                    same_objs = sorted(id(r) for r in res.regions) == sorted(id(r) for r in orig_regions)
                    rec = ('ok', name, param, variable_lines, res is page, same_objs, desc)
                except Exception as e:  # recorded, must be the same on both trees
                    n_exc += 1
                    rec = ('exc', name, param, variable_lines, type(e).__name__)
                h.update(repr(rec).encode())
                n_cases += 1

    # direct use of CoupledRegions on raw arrays (Region "TEST" path / test() helper of the module)
    rng = np.random.default_rng(7)
    for rep in range(100):
        n = int(rng.integers(1, 7))
        regs = []
        for i in range(n):
            x0, y0 = rng.integers(0, 300, size=2)
            w, hh = rng.integers(1, 300, size=2)
            r = Region(np.array([[x0, x0 + w, x0 + w, x0], [y0, y0, y0 + hh, y0 + hh]]))
            r.id = 't{}'.format(i)
            regs.append(r)
        try:
            c = CoupledRegions(list(regs))
            c.divide_and_order(bool(rep % 2))
            rec = ('ok', c.get_ordered_ids(), sorted(c.get_middle_coords().items()).__repr__())
        except Exception as e:
            n_exc += 1
            rec = ('exc', type(e).__name__)
        h.update(repr(rec).encode())
        n_cases += 1

    print('cases', n_cases, 'exceptions', n_exc)
    print('digest', h.hexdigest())
    return 0


if __name__ == '__main__':
    sys.exit(main())
