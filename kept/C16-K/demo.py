"""Differential test for change K (run-wise vectorised get_prob in page_parser)."""
import hashlib
import sys

import numpy as np
import scipy.sparse

from pero_ocr.core.layout import TextLine
from pero_ocr.document_ocr.page_parser import get_prob, PageParser, line_confident_enough

h = hashlib.sha256()
nb_cases = 0


def record(tag, value):
    global nb_cases
    nb_cases += 1
    if isinstance(value, (np.floating, float, int, np.integer)):
        kind = 'int' if isinstance(value, (int, np.integer)) and not isinstance(value, bool) else type(value).__name__
        text = f'{tag}:{kind}:{float(value).hex()}'
    else:
        text = f'{tag}:{value!r}'
    h.update(text.encode())


rng = np.random.default_rng(1234)

# --- get_prob directly -------------------------------------------------------------------------
hand_made = [
    ([], []),
    ([3], [0.25]),
    ([3], [1.0]),
    ([3], [1.0000000000000002]),
    ([3, 3, 3], [0.2, 0.9, 0.1]),
    ([0, 1, 0, 1], [0.9, 0.8, 0.7, 0.6]),
    ([2, 2, 5, 5, 2, 2], [0.3, 0.5, 1.0, 0.2, 0.4, 0.45]),
    ([-1, -1, 2], [0.3, 0.5, 0.9]),
    ([-1, -1], [0.3, 0.5]),
    ([-1, 4, -1, -1], [0.3, 0.5, 0.2, 0.1]),
    ([-1, 4], [1.5, 1.25]),
    ([1, 1, 2, 2], [1.0, 1.0, 1.0, 1.0]),
    ([1, 2, 3], [0.0, 0.0, 0.0]),
    ([1, 1, 2], [0.5, 0.5, 0.5]),
    ([1, 2, 2, 3], [0.7, np.nan, 0.2, 0.9]),
    ([1, 2, 2, 3], [0.7, 0.2, np.nan, 0.9]),
    ([1, 1], [np.nan, np.nan]),
    ([1, 2, 3, 4], [0.7, 0.2]),
    ([1, 2], [0.7, 0.2, 0.1, 0.05]),
]
for i, (ids, probs) in enumerate(hand_made):
    for dtype in (np.float64, np.float32):
        record(f'hand{i}-{np.dtype(dtype).name}', get_prob(np.array(ids, dtype=np.int64), np.array(probs, dtype=dtype)))
    record(f'hand{i}-lists', get_prob(list(ids), list(probs)))

for i in range(300):
    n = int(rng.integers(0, 40))
    nb_symbols = int(rng.integers(1, 5))
    ids = rng.integers(-1 if i % 7 == 0 else 0, nb_symbols, size=n)
    probs = rng.random(n)
    if i % 5 == 0:
        probs = np.round(probs, 1)  # many ties, exact 0.0 and 1.0
    if i % 11 == 0:
        probs = probs.astype(np.float32)
    record(f'rand{i}', get_prob(ids, probs))

# --- through PageParser.compute_line_confidence and line_confident_enough ---------------------------
thresholds = [-0.1, 0.0, 0.2, 0.5, 0.9, 0.999999, 1.0, 1.1, float('inf')]
for i in range(250):
    nb_frames = int(rng.integers(1, 30))
    nb_chars = int(rng.integers(2, 8))
    style = i % 5
    if style == 0:
        logits = rng.normal(scale=3.0, size=(nb_frames, nb_chars))
    elif style == 1:  # blocky output, long runs of the same winner
        winners = np.repeat(rng.integers(0, nb_chars, size=nb_frames), 3)[:nb_frames]
        logits = rng.normal(size=(nb_frames, nb_chars))
        logits[np.arange(nb_frames), winners] += rng.uniform(0, 8, size=nb_frames)
    elif style == 2:  # (nearly) one-hot posteriors
        winners = rng.integers(0, nb_chars, size=nb_frames)
        logits = np.full((nb_frames, nb_chars), -60.0)
        logits[np.arange(nb_frames), winners] = 20.0
    elif style == 3:  # exact ties between symbols
        logits = rng.integers(-2, 3, size=(nb_frames, nb_chars)).astype(np.float64)
    else:  # sparse-with-floor: most entries are dropped (== 0) and refilled by -80
        logits = rng.normal(scale=4.0, size=(nb_frames, nb_chars))
        logits[rng.random(logits.shape) < 0.6] = 0

    for dtype in (np.float64, np.float32):
        for shift in (0.0, 7.5):
            data = (logits + shift * (logits != 0)).astype(dtype) if style == 4 else (logits + shift).astype(dtype)
            line = TextLine(id=f'l{i}', logits=scipy.sparse.csc_matrix(data))
            conf = PageParser.compute_line_confidence(line)
            record(f'line{i}-{np.dtype(dtype).name}-{shift}', conf)
            ok = (conf == 1) or (0.0 <= float(conf) <= 1.0)
            record(f'range{i}', bool(ok))
            dense = line.get_dense_logits()
            record(f'thr{i}', [bool(line_confident_enough(dense, t)) for t in thresholds])

print(f'cases: {nb_cases}')
print(f'digest: {h.hexdigest()}')
sys.exit(0)
