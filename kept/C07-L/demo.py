#!/usr/bin/env python
"""Differential demo for change L (batch planning of process_lines on a width index array).

Runs BaseEngineLineOCR.process_lines on a few hundred line lists (0..n lines, widths 1 px .. beyond
the engine maximum, many equal widths, shuffled orders, batch sizes 1..16, sparse / dense /
tight-crop / no-logits modes) with
  * a numpy stub CTC engine (frame t depends only on pixel columns 4t..4t+3),
  * a numpy stub "transformer" engine (exercises the line splitting / merging path),
  * PytorchEngineLineOCR with an exported torch.jit stub network.
Everything returned (transcriptions, logits incl. sparse structure, logit coords), the printed
warnings and the exact sequence of batches handed to run_ocr go into one sha256 digest.
"""
import contextlib
import hashlib
import io
import json
import os
import sys
import tempfile

import numpy as np
import torch
from scipy import sparse

from pero_ocr.ocr_engine.line_ocr_engine import BaseEngineLineOCR
from pero_ocr.ocr_engine.pytorch_ocr_engine import PytorchEngineLineOCR

H = hashlib.sha256()


def feed(*items):
    for it in items:
        if isinstance(it, np.ndarray):
            H.update(str((it.dtype, it.shape)).encode())
            H.update(np.ascontiguousarray(it).tobytes())
        elif sparse.issparse(it):
            H.update(type(it).__name__.encode())
            feed('sp', np.asarray(it.shape), it.data, it.indices, it.indptr)
        elif isinstance(it, (list, tuple)):
            H.update(('[%d' % len(it)).encode())
            feed(*it)
            H.update(b']')
        else:
            H.update((type(it).__name__ + repr(it)).encode('utf8'))
        H.update(b'|')


CHARS = [chr(ord('a') + i) for i in range(14)]
HEIGHT = 8


def write_config(tmp, name, extra=None):
    cfg = dict(line_px_height=HEIGHT, line_vertical_scale=1, checkpoint=name + '.pt', characters=CHARS,
               net_name='stub')
    cfg.update(extra or {})
    jpath = os.path.join(tmp, name + '.json')
    with open(jpath, 'w', encoding='utf8') as f:
        json.dump(cfg, f)
    return jpath


class StubCTCEngine(BaseEngineLineOCR):
    """CTC-like engine; logits of frame t are a fixed function of pixel columns 4t..4t+3."""

    def __init__(self, json_def, batch_size, subsampling=4):
        super().__init__(json_def, torch.device('cpu'), batch_size=batch_size)
        self.net_subsampling = subsampling
        self.characters = list(self.characters) + [u'​']
        rng = np.random.RandomState(5)
        self.w = rng.randn(4 * HEIGHT * 3, len(self.characters)) * 1.2
        self.b = rng.randn(len(self.characters)) * 4
        self.b[-1] += 6
        self.calls = []

    def run_ocr(self, batch_data):
        self.calls.append((batch_data.shape, hashlib.md5(np.ascontiguousarray(batch_data).tobytes()).hexdigest()))
        n, h, w, c = batch_data.shape
        t = w // 4
        x = batch_data[:, :, :t * 4].astype(np.float64) / 255.0
        x = x.reshape(n, h, t, 4, c).transpose(0, 2, 1, 3, 4).reshape(n, t, -1)
        logits = (x @ self.w + self.b).astype(np.float32)
        best = logits.argmax(axis=2)
        decoded = []
        for row in best:
            prev = len(self.characters) - 1
            s = []
            for k in row:
                if k != prev and k != len(self.characters) - 1:
                    s.append(self.characters[k])
                prev = k
            decoded.append(''.join(s))
        return decoded, logits


class StubTransformerEngine(BaseEngineLineOCR):
    """Sequence-output engine: one character per 16 px of ink, logits N,L,C; exercises splitting."""

    def __init__(self, json_def, batch_size):
        super().__init__(json_def, torch.device('cpu'), batch_size=batch_size, model_type='transformer')
        self.net_subsampling = 4
        self.characters = list(self.characters) + [u'​', '']
        self.calls = []

    def run_ocr(self, batch_data):
        self.calls.append((batch_data.shape, hashlib.md5(np.ascontiguousarray(batch_data).tobytes()).hexdigest()))
        n, h, w, c = batch_data.shape
        max_len = w // 16 + 1
        logits = np.zeros((n, max_len, len(self.characters)), dtype=np.float32)
        decoded = []
        for i in range(n):
            s = []
            for j in range(w // 16):
                block = batch_data[i, :, 16 * j:16 * j + 16]
                if block.any():
                    k = int(block.astype(np.int64).sum() % len(CHARS))
                    logits[i, len(s), :] = np.linspace(-12, 3, logits.shape[2]) * ((k % 5) + 1) / 3.0
                    logits[i, len(s), k] = 9.0
                    s.append(self.characters[k])
            decoded.append(''.join(s))
        return decoded, logits


class QuantConv(torch.nn.Module):
    def __init__(self, height, n_out, quant, seed):
        super().__init__()
        g = torch.Generator().manual_seed(seed)
        self.conv = torch.nn.Conv2d(3, n_out, kernel_size=(height, 4), stride=(1, 4), bias=True)
        with torch.no_grad():
            self.conv.weight.copy_(torch.randn(self.conv.weight.shape, generator=g) * 1.5)
            self.conv.bias.copy_(torch.randn(self.conv.bias.shape, generator=g) * 4)
            self.conv.bias[-1] += 6.0
        self.quant = quant

    def forward(self, x):
        y = self.conv(x).squeeze(2)
        if self.quant > 0:
            y = torch.round(y * self.quant) / self.quant
        return y


def make_torch_engine(tmp, name, quant, batch_size):
    jpath = write_config(tmp, name)
    model = torch.jit.script(QuantConv(HEIGHT, len(CHARS) + 1, quant, 11).eval())
    torch.jit.save(model, os.path.join(tmp, name + '.pt.cpu'))
    return PytorchEngineLineOCR(jpath, torch.device('cpu'), batch_size=batch_size)


def make_lines(rng, widths):
    lines = []
    for w in widths:
        img = np.zeros((HEIGHT, w, 3), dtype=np.uint8)
        x = 0
        while x < w:
            run = int(rng.choice([2, 4, 8, 12, 16]))
            img[:, x:x + run, :] = rng.randint(0, 256, size=(HEIGHT, 1, 3))
            if rng.rand() < 0.3:
                img[:, x:x + run, :] = 0
            x += run
        lines.append(img)
    return lines


MODES = (dict(), dict(sparse_logits=False), dict(tight_crop_logits=True),
         dict(tight_crop_logits=True, sparse_logits=False), dict(no_logits=True))


def run(eng, lines, kwargs):
    if hasattr(eng, 'calls'):
        del eng.calls[:]
    snapshot = [l.copy() for l in lines]
    buf = io.StringIO()
    with contextlib.redirect_stdout(buf):
        tr, lg, co = eng.process_lines(lines, **kwargs)
    assert len(tr) == len(lg) == len(co) == len(lines)
    assert all(np.array_equal(a, b) for a, b in zip(snapshot, lines)), 'input lines were modified'
    feed(tr, lg, co, buf.getvalue(), list(getattr(eng, 'calls', [])))
    return tr, lg, co


def width_lists(rng, limit):
    pool = [1, 2, 3, 4, 5, 7, 8, 31, 32, 33, 63, 64, 65, 96, 100, 128, 250, limit - 65, limit - 64, limit - 63,
            limit - 1, limit, limit + 1, limit + 40, 2 * limit]
    pool = [w for w in pool if w >= 1]
    out = [[], [1], [limit + 40], [5, 5], [32] * 7, [33] * 19, list(range(1, 41)), list(range(40, 0, -1))]
    for n in (2, 3, 6, 11, 23):
        out.append([int(rng.choice(pool)) for _ in range(n)])
        # few distinct widths -> many ties whose relative order must be kept
        out.append([int(rng.choice([12, 40, 40, 64, 200])) for _ in range(n)])
    return out


def main():
    torch.manual_seed(0)
    torch.set_num_threads(1)
    rng = np.random.RandomState(2024)
    n_calls = 0
    with tempfile.TemporaryDirectory() as tmp:
        ctc_json = write_config(tmp, 'ctc')
        tr_json = write_config(tmp, 'tr', dict(max_line_width=160))
        tr_json_nolimit = write_config(tmp, 'tr_nolimit')

        for bs in (1, 2, 3, 4, 5, 8, 11, 16):
            engines = [('ctc', StubCTCEngine(ctc_json, bs))]
            if bs in (2, 8):
                engines.append(('ctc_sub8', StubCTCEngine(ctc_json, bs, subsampling=8)))
                engines.append(('ctc_sub4.0', StubCTCEngine(ctc_json, bs, subsampling=4.0)))
            if bs in (1, 4, 16):
                engines.append(('transformer', StubTransformerEngine(tr_json, bs)))
                engines.append(('transformer_nolimit', StubTransformerEngine(tr_json_nolimit, bs)))
            if bs in (1, 3, 16):
                engines.append(('torch_q0', make_torch_engine(tmp, 'tq0_%d' % bs, 0, bs)))
                engines.append(('torch_q2', make_torch_engine(tmp, 'tq2_%d' % bs, 2, bs)))
            for name, eng in engines:
                feed(name, bs)
                for widths in width_lists(rng, eng.max_input_horizontal_pixels):
                    lines = make_lines(rng, widths)
                    perm = rng.permutation(len(lines))
                    for k, kwargs in enumerate(MODES):
                        if name.startswith('torch') and k in (1, 3):
                            continue
                        res = run(eng, lines, kwargs)
                        n_calls += 1
                        if k == 0 and name == 'ctc':
                            # same lines in another order (also as a tuple): results follow their lines
                            res_p = run(eng, tuple(lines[i] for i in perm), kwargs)
                            n_calls += 1
                            for j, i in enumerate(perm):
                                feed(res_p[0][j] == res[0][i], res_p[2][j] == res[2][i])
    print('process_lines calls: %d' % n_calls)
    print('DIGEST', H.hexdigest())
    return 0


if __name__ == '__main__':
    sys.exit(main())
