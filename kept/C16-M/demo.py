"""Differential test for BagOfHypotheses.posteriors / confidence / transcript_confidence (property C16).

First run (no reference.json next to this file; must be the CLEAN tree) writes reference.json.
Later runs compare against it with explicit tolerances and print MATCH (exit 0) or DIFFERENT: <what> (exit 1).

Tolerances: log-posteriors are compared with |a-b| <= TOL * (1 + |a|) (an absolute error in the log domain is a
relative error of the probability); probabilities with relative TOL.  TOL = 1e-9 for float64 data, 1e-6 for float32.
"""
import json
import math
import os
import sys
import warnings

import numpy as np

from pero_ocr.decoding.bag_of_hypotheses import BagOfHypotheses

warnings.simplefilter('ignore')
HERE = os.path.dirname(os.path.abspath(__file__))
REF = os.path.join(HERE, 'reference.json')


def enc(x):
    x = float(x)
    if math.isnan(x):
        return 'nan'
    if math.isinf(x):
        return 'inf' if x > 0 else '-inf'
    return x


def dec(x):
    return float(x) if x in ('nan', 'inf', '-inf') else x


def call(f):
    try:
        return f()
    except Exception as e:  # only the type is recorded
        return 'EXC:' + type(e).__name__


def build_cases():
    rng = np.random.RandomState(1601)
    cases = []  # (name, tol, lm_weight, [(transcript, vis, lm)])

    def add(name, lm_weight, hyps, tol=1e-9):
        cases.append((name, tol, lm_weight, hyps))

    alphabet = 'abcdefgh'
    for n in range(300):
        size = int(rng.randint(1, 13))
        scale = [0.1, 1.0, 10.0, 100.0][n % 4]
        offset = [0.0, -50.0, 1000.0, -1e5][(n // 4) % 4]
        vis = rng.randn(size) * scale + offset
        kind = n % 5
        if kind == 0:
            lm = [None] * size
        elif kind == 4:  # mixed None / numbers -> falls back to visual scores only
            lm = [None if i % 2 else float(v) for i, v in enumerate(rng.randn(size) * scale)]
        else:
            lm = [float(v) for v in rng.randn(size) * scale]
        lm_weight = [1.0, 0.0, 0.5, 2.3, -1.0, 17][n % 6]
        trans = [''.join(alphabet[j] for j in rng.randint(0, len(alphabet), size=int(rng.randint(0, 4)))) for _ in range(size)]
        if n % 7 == 0 and size > 2:  # exact ties of the scores and duplicated transcripts
            vis[1] = vis[0]
            trans[2] = trans[0]
            if lm[0] is not None and lm[1] is not None:
                lm[1] = lm[0]
        add('rand%d' % n, lm_weight, list(zip(trans, [float(v) for v in vis], lm)))

    # one-hot posteriors
    add('onehot1', 1.0, [('a', 0.0, None), ('b', -800.0, None), ('c', -1000.0, None)])
    add('onehot2', 1.0, [('a', -3.5, None)])
    add('onehot3', 2.0, [('a', -3.5, -1.0), ('b', -3.5, -900.0)])
    add('onehot4', 1.0, [('b', -1e4, 0), ('a', 12.25, 0)])
    # adding a constant to all scores
    base = [('x', -1.25, -0.5), ('y', -2.5, -0.25), ('', -0.75, -3.0), ('x', -4.0, -1.0)]
    for c in [0.0, 1.0, -77.0, 1e3, -1e6]:
        add('shift%g' % c, 0.7, [(t, v + c, l) for t, v, l in base])
    # uniform
    for k in [2, 3, 7, 64]:
        add('uniform%d' % k, 1.0, [('t%d' % i, -5.0, 0) for i in range(k)])
    # integer scores
    add('ints', 1.0, [('a', -1, None), ('b', -2, None), ('c', -2, None)])
    add('ints_lm', 2, [('a', -1, 0), ('b', -2, 1), ('c', -2, -3)])
    # numpy scalar scores (as produced by the decoders)
    pom = np.logaddexp(rng.randn(6) * 3 - 10, rng.randn(6) * 3 - 10)
    add('npfloat64', 1.0, [('h%d' % i, pom[i], 0) for i in range(6)])
    add('npfloat64_lm', 0.4, [('h%d' % i, pom[i], np.float64(-i * 0.5)) for i in range(6)])
    # float32 scores (small magnitudes; float32 tolerance)
    for n in range(20):
        v32 = (rng.randn(5) * 1.5).astype(np.float32)
        add('float32_%d' % n, 1.0, [('h%d' % i, v32[i], None) for i in range(5)], tol=1e-6)
    # -inf among finite scores; degenerate bags (outside the quantifier; kept on the generic path)
    add('neginf_some', 1.0, [('a', -1.0, None), ('b', -math.inf, None), ('c', -2.0, None)])
    add('neginf_all', 1.0, [('a', -math.inf, None), ('b', -math.inf, None)])
    add('posinf', 1.0, [('a', math.inf, None), ('b', 1.0, None)])
    add('nan', 1.0, [('a', math.nan, None), ('b', 1.0, None)])
    add('inf_weight', math.inf, [('a', -1.0, 0.0), ('b', -2.0, -1.0)])
    add('empty', 1.0, [])
    return cases


def run_case(lm_weight, hyps):
    boh = BagOfHypotheses(lm_weight)
    for t, v, l in hyps:
        boh.add(t, v, l)
    snapshot = [tuple(h) for h in boh]
    out = {}
    post = call(boh.posteriors)
    if isinstance(post, str):
        out['posteriors'] = post
    else:
        out['posteriors'] = [enc(p) for p in post]
        out['posteriors_is_list'] = isinstance(post, list)
        out['sum'] = enc(sum(math.exp(p) for p in post)) if post else 0.0
    conf = call(boh.confidence)
    out['confidence'] = conf if isinstance(conf, str) else enc(conf)
    out['confidence_is_float'] = isinstance(conf, float)
    tc = {}
    for t in sorted(set(h[0] for h in hyps)) + ['<<missing>>']:
        r = call(lambda: boh.transcript_confidence(t))
        tc[t] = r if isinstance(r, str) else enc(r)
    out['transcript_confidence'] = tc
    out['best_hyp'] = call(boh.best_hyp)
    # the bag itself must not be modified by the queries
    out['bag_untouched'] = (snapshot == [tuple(h) for h in boh]) or any(
        isinstance(x, float) and math.isnan(x) for h in snapshot for x in h[1:] if x is not None)
    return out


def close_log(a, b, tol):
    a, b = dec(a), dec(b)
    if isinstance(a, str) or isinstance(b, str):
        return a == b
    if math.isnan(a) or math.isnan(b):
        return math.isnan(a) and math.isnan(b)
    if math.isinf(a) or math.isinf(b):
        return a == b
    return abs(a - b) <= tol * (1.0 + abs(a))


def close_prob(a, b, tol):
    a, b = dec(a), dec(b)
    if isinstance(a, str) or isinstance(b, str):
        return a == b
    if math.isnan(a) or math.isnan(b):
        return math.isnan(a) and math.isnan(b)
    return abs(a - b) <= tol * abs(a) + 1e-290


def compare(ref, got, tol):
    if set(ref) != set(got):
        return 'keys'
    for k in ref:
        r, g = ref[k], got[k]
        if k == 'posteriors':
            if isinstance(r, str) or isinstance(g, str):
                if r != g:
                    return k
                continue
            if len(r) != len(g) or not all(close_log(x, y, tol) for x, y in zip(r, g)):
                return k
        elif k in ('sum', 'confidence'):
            if not close_prob(r, g, tol):
                return k
        elif k == 'transcript_confidence':
            if set(r) != set(g) or not all(close_prob(r[t], g[t], tol) for t in r):
                return k
        elif r != g:
            return k
    return None


def main():
    results = {}
    tols = {}
    for name, tol, lm_weight, hyps in build_cases():
        results[name] = run_case(lm_weight, hyps)
        tols[name] = tol
    if not os.path.exists(REF):
        with open(REF, 'w') as f:
            json.dump(results, f, indent=0, sort_keys=True)
        print('reference.json written (%d cases)' % len(results))
        return 0
    with open(REF) as f:
        ref = json.load(f)
    if set(ref) != set(results):
        print('DIFFERENT: set of cases')
        return 1
    maxdiff = 0.0
    for name in sorted(ref):
        bad = compare(ref[name], results[name], tols[name])
        if bad:
            print('DIFFERENT: case %s field %s: reference %r, now %r' % (name, bad, ref[name][bad], results[name][bad]))
            return 1
        r, g = dec(ref[name]['confidence']), dec(results[name]['confidence'])
        if isinstance(r, float) and isinstance(g, float) and math.isfinite(r) and math.isfinite(g) and r:
            maxdiff = max(maxdiff, abs(r - g) / abs(r))
    print('MATCH (%d cases, max relative difference of confidence %.3g)' % (len(ref), maxdiff))
    return 0


if __name__ == '__main__':
    sys.exit(main())
