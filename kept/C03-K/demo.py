"""Differential demo for change K (hash-indexed prefix joining).

Runs (a) adjust_for_prefix_joining directly on random beams (incl. beams with
duplicated prefixes, which must keep raising AssertionError, and beams holding only
the empty prefix) and (b) the full CTCPrefixLogRawNumpyDecoder with and without a
history-dependent toy LM, and prints a sha256 digest of all bit-exact results.
"""
import hashlib
import struct
import sys

import numpy as np

from pero_ocr.decoding.decoders import CTCPrefixLogRawNumpyDecoder, BLANK_SYMBOL
from pero_ocr.decoding.decoders import adjust_for_prefix_joining

MASK = (1 << 61) - 1


class HashLM:
    """Toy LM, its state is a hash of the whole prefix (and of the start state)."""
    def __init__(self, nb_chars, seed):
        self.nb_chars = nb_chars
        self.seed = seed

    def initial_h(self, batch_size):
        return np.full((batch_size,), 1234567 + self.seed, dtype=np.int64)

    def advance_h0(self, x, h0):
        return np.asarray([(int(h) * 1000003 + int(c) * 7919 + 17 + self.seed) & MASK for c, h in zip(x, h0)], dtype=np.int64)

    def _scores(self, h, n):
        rng = np.random.RandomState(int(h) % (2**32 - 1))
        logits = rng.randn(n) * 2.0
        return logits - np.logaddexp.reduce(logits)

    def log_probs(self, h):
        return np.stack([self._scores(x, self.nb_chars + 1)[:self.nb_chars] for x in h])

    def eos_scores(self, h):
        return np.asarray([self._scores(x, self.nb_chars + 1)[-1] for x in h])


def feed(digest, *values):
    for v in values:
        if isinstance(v, str):
            digest.update(v.encode('utf-8') + b'\x00')
        elif isinstance(v, (float, np.floating)):
            digest.update(struct.pack('<d', float(v)))
        elif isinstance(v, (int, np.integer)):
            digest.update(struct.pack('<q', int(v)))
        elif isinstance(v, np.ndarray):
            digest.update(str(v.dtype).encode() + str(v.shape).encode() + np.ascontiguousarray(v).tobytes())
        else:
            raise TypeError(type(v))


def random_logits(rng, T, nb_chars):
    kind = rng.randint(4)
    if kind == 0:    # flat
        x = rng.randn(T, nb_chars + 1)
    elif kind == 1:  # peaky, many chars under the -10 relevance threshold
        x = rng.randn(T, nb_chars + 1) * 12
    elif kind == 2:  # blank dominated frames, all chars irrelevant in some of them
        x = rng.randn(T, nb_chars + 1)
        x[:, -1] += rng.choice([0.0, 30.0], size=T)
    else:            # repeated frames -> exact ties
        x = np.repeat(rng.randint(-3, 3, size=(1, nb_chars + 1)).astype(float), T, axis=0)
    return x - np.logaddexp.reduce(x, axis=1, keepdims=True)


def direct_cases(digest, rng):
    nb = 0
    for case in range(300):
        nb_chars = rng.randint(1, 5)
        beam = rng.randint(1, 9)
        prefixes = set()
        prefixes.add(())
        while len(prefixes) < beam:
            base = list(prefixes)[rng.randint(len(prefixes))]
            if rng.rand() < 0.7:
                prefixes.add(base + (rng.randint(nb_chars),))
            else:
                prefixes.add(tuple(rng.randint(nb_chars, size=rng.randint(1, 4))))
        prefixes = [list(np.asarray(p, dtype=np.int64)) if rng.rand() < 0.5 else list(p) for p in prefixes]
        order = rng.permutation(len(prefixes))
        prefixes = [prefixes[i] for i in order]
        if case % 10 == 0:
            prefixes = [p for p in prefixes if len(p) > 0] or [[]]
        if case % 7 == 3:  # duplicated entries -> the uniqueness assert has to keep firing identically
            prefixes.append(list(prefixes[rng.randint(len(prefixes))]))
        if case % 50 == 49:
            prefixes = [[]]

        n_cols = nb_chars + 2
        P = rng.randn(len(prefixes), n_cols) * 3
        P[rng.rand(*P.shape) < 0.2] = -np.inf
        last_chars = np.asarray([(p[-1] if len(p) else 0) for p in prefixes], dtype=np.int64)
        if rng.rand() < 0.3:  # some last chars were not selected in this frame -> 'impossible' column
            last_chars[rng.rand(len(last_chars)) < 0.5] = n_cols - 2
        P_in = P.copy()
        prefixes_copy = [list(p) for p in prefixes]
        try:
            ret = adjust_for_prefix_joining(P, prefixes, last_chars)
            assert ret is None
            feed(digest, 'ok')
        except AssertionError:
            feed(digest, 'assertion')
        feed(digest, P, P_in)
        assert [list(p) for p in prefixes] == prefixes_copy  # the beam itself is left alone
        nb += 1
    return nb


def decoder_cases(digest, rng):
    nb = 0
    for case in range(450):
        nb_chars = rng.randint(1, 6)
        letters = [chr(ord('a') + i) for i in range(nb_chars)] + [BLANK_SYMBOL]
        T = rng.randint(1, 9)
        logits = random_logits(rng, T, nb_chars)
        if case % 9 == 0:
            logits = logits.astype(np.float32)
        k = int(rng.choice([1, 1, 2, 3, 4, 6, 10]))
        use_lm = case % 3 != 0
        scale = float(rng.choice([0.0, 0.3, 1.0, 3.0]))
        bonus = float(rng.choice([0.0, 0.0, 0.7]))
        eos = bool(use_lm and rng.rand() < 0.5)
        return_h = bool(use_lm and rng.rand() < 0.6)
        lm = HashLM(nb_chars, case) if use_lm else None
        init_h = np.asarray([987654321 + case], dtype=np.int64) if (use_lm and rng.rand() < 0.5) else None

        decoder = CTCPrefixLogRawNumpyDecoder(letters, k, lm=lm, lm_scale=scale, insertion_bonus=bonus)
        res = decoder(logits, model_eos=eos, max_unnormalization=1e-3, return_h=return_h, init_h=init_h)
        if return_h:
            boh, h = res
            feed(digest, np.asarray(h))
        else:
            boh = res

        feed(digest, len(boh), float(boh.lm_weight), boh.best_hyp(), float(boh.confidence()))
        for hyp in boh:
            feed(digest, hyp.transcript, float(hyp.vis_sc), float(hyp.lm_sc))
        for p in boh.posteriors():
            feed(digest, float(p))
        nb += 1
    return nb


def main():
    digest = hashlib.sha256()
    rng = np.random.RandomState(20240)
    n1 = direct_cases(digest, rng)
    n2 = decoder_cases(digest, rng)
    print(f'cases: {n1} direct + {n2} decoder')
    print('digest:', digest.hexdigest())
    return 0


if __name__ == '__main__':
    sys.exit(main())
