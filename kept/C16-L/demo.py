"""Differential test for change L (memoised posteriors in BagOfHypotheses)."""
import copy
import hashlib
import pickle
import sys
import warnings

import numpy as np

from pero_ocr.decoding.bag_of_hypotheses import BagOfHypotheses, Hypothese
from pero_ocr.decoding.decoders import build_boh

warnings.simplefilter('ignore')

h = hashlib.sha256()
nb_records = 0


def fmt(x):
    if isinstance(x, (list, tuple)):
        return '[' + ','.join(fmt(e) for e in x) + ']'
    if isinstance(x, np.ndarray):
        return 'arr' + fmt(x.tolist())
    if isinstance(x, (float, np.floating)):
        return float(x).hex()
    return repr(x)


def record(tag, fn):
    global nb_records
    nb_records += 1
    try:
        out = fmt(fn())
    except Exception as e:  # only the fact of failing is compared, not the message
        out = 'EXC:' + type(e).__name__
    h.update(f'{tag}={out};'.encode())


def observe(tag, bag, transcripts):
    """Queries everything twice and in varying order, so that a stale or aliased cache would show."""
    record(tag + '/post', bag.posteriors)
    record(tag + '/conf', bag.confidence)
    for t in transcripts:
        record(tag + '/tc-' + t, lambda: bag.transcript_confidence(t))
    record(tag + '/best', bag.best_hyp)
    record(tag + '/post2', bag.posteriors)
    record(tag + '/sum', lambda: float(np.exp(bag.posteriors()).sum()))
    record(tag + '/total', bag.total_scores)
    record(tag + '/len', lambda: len(bag))

    # the returned list belongs to the caller
    try:
        p = bag.posteriors()
        q = bag.posteriors()
        record(tag + '/alias', lambda: p is q)
        if p:
            p[0] = 12345.0
            p.append(-1.0)
        record(tag + '/post3', bag.posteriors)
        record(tag + '/conf2', bag.confidence)
    except Exception as e:
        record(tag + '/alias-exc', lambda: type(e).__name__)


rng = np.random.default_rng(4321)
alphabet = ['a', 'b', 'ab', 'ba', 'abc', '', 'x y', 'zz']
weights = [1.0, 0.0, 0.5, 2.0, -1.0, 1, 0.1]

for case in range(200):
    lm_mode = case % 4  # 0: all LM scores, 1: none, 2: mixed None / numbers, 3: zeros as in build_boh
    bag = BagOfHypotheses(lm_weight=weights[case % len(weights)])
    tag = f'c{case}'
    if case % 10 == 0:
        observe(tag + '/empty', bag, ['a'])

    def new_hyp():
        t = alphabet[int(rng.integers(len(alphabet)))]
        vis = float(rng.normal(-20, 10))
        if case % 9 == 0:
            vis = float(np.round(vis))  # ties
        if case % 13 == 0:
            vis = np.float32(vis)
        if lm_mode == 0:
            lm = float(rng.normal(-10, 5))
        elif lm_mode == 1:
            lm = None
        elif lm_mode == 2:
            lm = None if rng.random() < 0.3 else float(rng.normal(-10, 5))
        else:
            lm = 0
        return t, vis, lm

    for step in range(int(rng.integers(1, 6))):
        bag.add(*new_hyp())
    observe(tag + '/s0', bag, alphabet[:4])

    # history: grow, re-query
    for step in range(int(rng.integers(0, 4))):
        bag.add(*new_hyp())
    observe(tag + '/s1', bag, alphabet[:4])

    # history: reorder
    bag.sort()
    observe(tag + '/s2', bag, alphabet[:4])
    bag.sort()
    observe(tag + '/s2b', bag, alphabet[:4])

    # history: change the LM weight (also to an equal value of another type)
    for w in (0.3, 0.3, 3, 3.0, 0.0, -0.0, 1.0, True):
        bag.lm_weight = w
        observe(tag + f'/w{w!r}', bag, alphabet[:2])
    bag.lm_weight = weights[(case + 1) % len(weights)]

    # history: direct manipulation of the underlying list
    if case % 3 == 0 and len(bag) > 1:
        bag._hyps.reverse()
        observe(tag + '/rev', bag, alphabet[:2])
        bag._hyps.pop()
        observe(tag + '/pop', bag, alphabet[:2])
        first = bag._hyps[0]
        bag._hyps[0] = Hypothese(first.transcript, first.vis_sc - 1.0, first.lm_sc)
        observe(tag + '/repl', bag, alphabet[:2])
        bag._hyps[0] = Hypothese(first.transcript, first.vis_sc, first.lm_sc)  # equal, yet a new object
        observe(tag + '/repl2', bag, alphabet[:2])
        bag._hyps = list(bag._hyps)
        observe(tag + '/relist', bag, alphabet[:2])

    # copies share / do not share state properly
    if case % 4 == 0:
        shallow = copy.copy(bag)
        deep = copy.deepcopy(bag)
        pickled = pickle.loads(pickle.dumps(bag))
        deep.add('deep', -3.0, -1.0 if lm_mode == 0 else None)
        deep.lm_weight = 0.25
        observe(tag + '/deep', deep, ['deep', 'a'])
        observe(tag + '/orig', bag, alphabet[:2])
        observe(tag + '/shallow', shallow, alphabet[:2])
        observe(tag + '/pickled', pickled, alphabet[:2])

    # one-hot bag and constant shift of all scores
    if case % 5 == 0:
        one = BagOfHypotheses(lm_weight=bag.lm_weight)
        one.add('only', -7.25, None if lm_mode == 1 else -2.0)
        observe(tag + '/onehot', one, ['only', 'a'])
        one.add('far', -700.0, None if lm_mode == 1 else -200.0)
        observe(tag + '/onehot2', one, ['only', 'far'])

        shifted = BagOfHypotheses(lm_weight=bag.lm_weight)
        for hyp in bag:
            shifted.add(hyp.transcript, hyp.vis_sc + 4.0, hyp.lm_sc)
        observe(tag + '/shifted', shifted, alphabet[:2])

# mutable (array) scores changed in place must never be served from a cache
for case in range(20):
    bag = BagOfHypotheses(lm_weight=0.5)
    a = np.array(-1.0 - case)
    b = np.array([-2.0])
    bag.add('a', a, -1.0)
    bag.add('b', b, -2.0)
    observe(f'm{case}/0', bag, ['a', 'b'])
    a += 3.0
    observe(f'm{case}/1', bag, ['a', 'b'])
    b[0] = 5.0
    observe(f'm{case}/2', bag, ['a', 'b'])

# the way the decoders build bags
for case in range(60):
    n = int(rng.integers(1, 7))
    prefixes = [alphabet[int(rng.integers(len(alphabet)))] for _ in range(n)]
    probs = rng.normal(-15, 6, size=n)
    lm_probs = rng.normal(-8, 3, size=n) if case % 2 == 0 else None
    bag = build_boh(prefixes, probs, lm_probs, lm_weight=weights[case % len(weights)])
    observe(f'b{case}', bag, alphabet[:3])

print(f'records: {nb_records}')
print(f'digest: {h.hexdigest()}')
sys.exit(0)
