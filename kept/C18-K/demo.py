"""Differential demo for change K (component grouping in LayoutEngine.parse).

Runs LayoutEngine.parse / LayoutEngine.detect on a few hundred synthetic
detection maps and prints a digest of every returned array (bit exact:
dtype + shape + raw bytes).  Must print the same digest on the clean tree
and on the patched tree.
"""
import contextlib
import hashlib
import io
import random
import sys

import numpy as np

import pero_ocr
from pero_ocr.layout_engines import cnn_layout_engine as cle
from pero_ocr.layout_engines import layout_helpers as helpers

DIGEST = hashlib.sha256()
N_CASES = 0
N_LINES = 0
N_EXC = 0


def feed(obj):
    if isinstance(obj, (list, tuple)):
        DIGEST.update(b'[%d' % len(obj))
        for o in obj:
            feed(o)
        DIGEST.update(b']')
    elif isinstance(obj, np.ndarray):
        DIGEST.update(str(obj.dtype).encode() + str(obj.shape).encode())
        DIGEST.update(np.ascontiguousarray(obj).tobytes())
    elif isinstance(obj, (np.generic,)):
        DIGEST.update(str(obj.dtype).encode() + obj.tobytes())
    else:
        DIGEST.update(repr(obj).encode())


def make_engine(smooth=True, line_end_weight=1.0, vrange=5, thr=0.2):
    e = cle.LayoutEngine.__new__(cle.LayoutEngine)
    e.line_end_weight = line_end_weight
    e.vertical_line_connection_range = vrange
    e.smooth_line_predictions = smooth
    e.line_detection_threshold = thr
    e.adaptive_downsample = True
    e.paragraph_line_threshold = 0.3
    return e


def ridge_map(rng, h, w, n, dtype, endpoints, sloped, sep=15, noise=0.0, seps=False):
    """Synthetic network output with n ridges separated by >= sep map pixels."""
    m = np.zeros((h, w, 5), dtype=np.float64)
    yy = np.arange(h)[:, None]
    y = int(rng.integers(8, 14))
    for _ in range(n):
        length = int(rng.integers(6, w - 8))
        x0 = int(rng.integers(3, w - length - 3))
        x1 = x0 + length
        slope = float(rng.uniform(-0.08, 0.08)) if sloped else 0.0
        xs = np.arange(x0, x1)
        ys = y + slope * (xs - x0)
        if ys.min() < 6 or ys.max() > h - 7:
            break
        asc = float(rng.uniform(-1, 9))
        desc = float(rng.uniform(-1, 5))
        prof = np.exp(-0.5 * ((yy - ys[None, :]) / 1.2) ** 2)
        m[:, xs, 2] = np.maximum(m[:, xs, 2], prof)
        band = np.abs(yy - ys[None, :]) <= 3
        m[:, xs, 0] = np.where(band, asc + 0.05 * rng.standard_normal((h, len(xs))), m[:, xs, 0])
        m[:, xs, 1] = np.where(band, desc + 0.05 * rng.standard_normal((h, len(xs))), m[:, xs, 1])
        if endpoints:
            for xe, ye in ((x0, ys[0]), (x1 - 1, ys[-1])):
                ye = int(round(ye))
                m[max(0, ye - 2):ye + 3, max(0, xe - 1):xe + 2, 3] = 0.9
        if seps and rng.random() < 0.5:
            m[min(h - 1, int(ys.max()) + 7), :, 4] = rng.uniform(-0.5, 1.0)
        y = int(np.ceil(ys.max())) + sep + int(rng.integers(0, 6))
    if noise:
        m[:, :, 2] += noise * rng.random((h, w))
        m[:, :, 4] += noise * rng.standard_normal((h, w))
    return m.astype(dtype)


def noise_map(rng, h, w, dtype, density):
    """Random blobs: many components of all sizes, incl. <= 5 px and multi-row ones."""
    m = np.zeros((h, w, 5), dtype=np.float64)
    m[:, :, 2] = (rng.random((h, w)) < density) * rng.uniform(0.3, 1.0, (h, w))
    for _ in range(int(rng.integers(0, 6))):
        y = int(rng.integers(0, h))
        x0 = int(rng.integers(0, w - 2))
        x1 = int(rng.integers(x0 + 1, w))
        m[y, x0:x1, 2] = rng.uniform(0.3, 1.0)
    m[:, :, :2] = rng.uniform(-2, 8, (h, w, 2))
    m[:, :, 3] = (rng.random((h, w)) < 0.02) * 0.9
    m[:, :, 4] = rng.standard_normal((h, w)) * 0.3
    return m.astype(dtype)


def run_parse(engine, m, ds, seed):
    global N_CASES, N_LINES, N_EXC
    N_CASES += 1
    np.random.seed(seed)
    random.seed(seed)
    m_in = m.copy()
    try:
        with contextlib.redirect_stdout(io.StringIO()):
            b, h, t = engine.parse(m_in, ds)
    except Exception as ex:  # recorded, must be the same on both trees
        N_EXC += 1
        feed(('EXC', type(ex).__name__))
        return
    N_LINES += len(b)
    feed((b, h, t))
    feed(m_in)                      # in-place effects on the argument
    feed(np.random.rand())          # RNG consumption
    feed([type(x).__name__ for x in h])
    feed([[type(v).__name__ for v in x] for x in h])


class FakeParseNet(object):
    def __init__(self, seed, ds, dtype, n, endpoints, sloped):
        self.args = (seed, ds, dtype, n, endpoints, sloped)

    def get_maps_with_optimal_resolution(self, image):
        seed, ds, dtype, n, endpoints, sloped = self.args
        rng = np.random.default_rng(seed)
        h, w = image.shape[0] // ds, image.shape[1] // ds
        return ridge_map(rng, h, w, n, dtype, endpoints, sloped, seps=True), ds


def run_detect(engine, shape, rot, seed):
    global N_CASES, N_LINES, N_EXC
    N_CASES += 1
    np.random.seed(seed)
    random.seed(seed)
    image = np.zeros(shape + (3,), dtype=np.uint8)
    try:
        with contextlib.redirect_stdout(io.StringIO()):
            res = engine.detect(image, rot=rot)
    except Exception as ex:
        N_EXC += 1
        feed(('EXC', type(ex).__name__))
        return
    N_LINES += len(res[1])
    feed(list(res))


def main():
    assert pero_ocr.__file__
    rng = np.random.default_rng(1234)
    seed = 0
    # 1) ridge maps straight through parse()
    for ds in range(1, 9):
        for dtype in (np.float32, np.float64):
            for endpoints in (False, True):
                for sloped in (False, True):
                    for n in (1, 2, 4, 7):
                        seed += 1
                        smooth = bool(seed % 3)
                        eng = make_engine(smooth=smooth, line_end_weight=(1.0 if seed % 2 else 0.5))
                        w = int(rng.integers(24, 160))
                        m = ridge_map(rng, 40 + 22 * n, w, n, dtype, endpoints, sloped,
                                      noise=(0.0 if seed % 4 else 0.05))
                        run_parse(eng, m, ds, seed)
    # 2) corner cases: empty map, single pixel, exactly 5 / 6 px ridges, full-width ridge,
    #    vertical bar (one column), two rows thick, numpy-int down-sampling factor
    eng = make_engine(smooth=False)
    for dtype in (np.float32, np.float64):
        m = np.zeros((30, 40, 5), dtype)
        run_parse(eng, m, 4, 1)
        for length in (1, 5, 6, 7, 19, 20, 21, 40):
            m = np.zeros((30, 40, 5), dtype)
            m[12, 0:length, 2] = 1.0
            m[10:15, :, 0] = 3.5
            m[10:15, :, 1] = 1.25
            run_parse(eng, m, 3, 2)
            run_parse(make_engine(smooth=True), m, np.int64(3), 2)
        m = np.zeros((30, 40, 5), dtype)
        m[3:25, 7, 2] = np.linspace(0.5, 1.0, 22)
        run_parse(make_engine(smooth=False, vrange=9), m, 2, 3)
        m = np.zeros((30, 120, 5), dtype)
        m[12, 5:110, 2] = 1.0
        m[13, 50:112, 2] = 1.0          # equal maxima on two rows, joined by dilation
        m[20, 5:30, 2] = 0.8
        m[20, 60:90, 2] = 0.8           # two components on the same row
        run_parse(eng, m, 4, 4)
    # 3) random blob maps: many components, label order matters
    for k in range(120):
        seed += 1
        dtype = np.float32 if k % 2 else np.float64
        h, w = int(rng.integers(6, 70)), int(rng.integers(8, 90))
        m = noise_map(rng, h, w, dtype, density=float(rng.choice([0.02, 0.1, 0.3, 0.6])))
        eng = make_engine(smooth=bool(k % 3 == 0), vrange=int(rng.integers(1, 8)),
                          thr=float(rng.choice([0.1, 0.2, 0.5])))
        run_parse(eng, m, int(rng.integers(1, 9)), seed)
    # 4) whole detect() incl. rotation on non-square pages
    for ds in (1, 2, 3, 4, 8):
        for rot in (0, 1, 2, 3):
            for n in (1, 3, 5):
                for sloped in (False, True):
                    seed += 1
                    eng = make_engine(smooth=True)
                    dtype = np.float32 if seed % 2 else np.float64
                    eng.parsenet = FakeParseNet(seed, ds, dtype, n, bool(seed % 3), sloped)
                    hh, ww = (50 + 24 * n) * ds, int(rng.integers(70, 150)) * ds
                    # detect() rotates the image first; make the *rotated* page landscape-ish
                    shape = (hh, ww) if rot % 2 == 0 else (ww, hh)
                    run_detect(eng, shape, rot, seed)
    print('cases=%d lines=%d exceptions=%d' % (N_CASES, N_LINES, N_EXC))
    print('DIGEST', DIGEST.hexdigest())
    return 0


if __name__ == '__main__':
    sys.exit(main())
