"""Differential demo for change L (EngineLineCropper.fast_remap restructured: single bounds
reduction, get_source_window / window_fits helpers, one shared cv2.remap call).

Prints one sha256 digest over
  * direct calls of fast_remap with synthetic coordinate maps (windows touching / crossing the
    page border by 0, 1 px or a fraction, NaN / inf / empty maps, 1/3/4-channel and float images),
  * direct calls of reverse_line_mapping (cursor-at-0 case, scanning case, int dtypes,
    empty inputs, zero span),
  * get_crop_inputs / crop for several hundred random baselines (poly 0/1/2, line heights
    16..64, scale 0.8..1.5, inside / partly outside the page, shifted together with the page),
  * degenerate baselines (vertical, single pixel, zero heights) incl. LineCropper.crop_lines.
The digest must be identical on the clean tree and with the patch applied.
"""
import contextlib
import hashlib
import io
import sys
import warnings

import numpy as np

from pero_ocr.core.crop_engine import EngineLineCropper

warnings.simplefilter('ignore')
H = hashlib.sha256()
STATS = {}


def feed(tag, obj):
    H.update(tag.encode())
    if isinstance(obj, np.ndarray):
        a = np.ascontiguousarray(obj)
        H.update(str(a.dtype).encode())
        H.update(str(a.shape).encode())
        H.update(a.tobytes())
    elif isinstance(obj, (tuple, list)):
        H.update(('seq%d' % len(obj)).encode())
        for i, o in enumerate(obj):
            feed('%s[%d]' % (tag, i), o)
    elif isinstance(obj, np.generic):
        H.update(str(obj.dtype).encode())
        H.update(repr(obj.item()).encode())
    else:
        H.update(repr(obj).encode())


def guarded(tag, fn, *args, **kwargs):
    out = io.StringIO()
    try:
        with contextlib.redirect_stdout(out):
            res = fn(*args, **kwargs)
    except Exception as e:  # exception type is part of the digest
        feed(tag + ':exc', type(e).__name__)
        key = tag.rstrip('0123456789-').split('-')[0] + ':' + type(e).__name__
        STATS[key] = STATS.get(key, 0) + 1
        return None
    feed(tag, res)
    feed(tag + ':stdout', out.getvalue().count('\n'))
    return res


def random_baseline(rng, page_w, page_h, outside):
    n = int(rng.integers(2, 7))
    slope = np.tan(np.deg2rad(rng.uniform(-58, 58)))
    xs = np.cumsum(rng.uniform(15, 60, size=n))
    xs -= xs[0]
    curv = rng.uniform(-1, 1) * 2e-4
    ys = slope * xs + curv * (xs - xs.mean()) ** 2 + rng.uniform(-1.0, 1.0, size=n)
    pts = np.stack([xs, ys], axis=1)
    ext = pts.max(axis=0) - pts.min(axis=0)
    if outside:
        off = np.array([rng.uniform(-ext[0] * 0.6, page_w - ext[0] * 0.4),
                        rng.uniform(-ext[1] * 0.6 - 10, page_h - ext[1] * 0.4 + 10)])
    else:
        m = 45
        off = np.array([rng.uniform(m, max(m + 1, page_w - ext[0] - m)),
                        rng.uniform(m, max(m + 1, page_h - ext[1] - m))])
    pts = pts - pts.min(axis=0) + off
    if rng.random() < 0.5:
        pts = np.round(pts)
    return pts


def main():
    rng = np.random.default_rng(20240610)
    engine = EngineLineCropper()

    # ---- 1. direct calls of reverse_line_mapping -------------------------------------
    for it in range(40):
        n = int(rng.integers(2, 80))
        fm = np.concatenate([np.zeros(1), np.cumsum(rng.uniform(0.5, 2.5, size=n - 1))])
        sv = rng.uniform(-50, 50) + np.arange(n, dtype=float)
        k = int(rng.integers(0, 120))
        s = np.linspace(0, fm[-1], k)
        guarded('rlm-a%d' % it, engine.reverse_line_mapping, fm, s, sv)
        # samples not on a linspace, still >= fm[0]
        s2 = np.sort(rng.uniform(0, fm[-1] * 1.2, size=k))
        guarded('rlm-b%d' % it, engine.reverse_line_mapping, fm, s2, sv)
        # scanning case: decreasing forward mapping, cursor really advances (stays in bounds)
        fmr = fm[::-1].copy()
        guarded('rlm-c%d' % it, engine.reverse_line_mapping, fmr, s, sv)
        # first forward position strictly above some samples, later ones below
        fms = fm.copy()
        fms[0] = fm[-1] * 0.5
        fms[1:] = 0.0
        guarded('rlm-d%d' % it, engine.reverse_line_mapping, fms, s, sv)
    # dtype / empty / zero-span corner cases
    guarded('rlm-int', engine.reverse_line_mapping,
            np.array([0, 2, 5, 9]), np.array([0, 3, 9]), np.array([10, 11, 12, 13]))
    guarded('rlm-f32', engine.reverse_line_mapping,
            np.array([0, 2, 5, 9], dtype=np.float32), np.array([0, 3.5, 9], dtype=np.float32),
            np.array([10, 11, 12, 13], dtype=np.float32))
    guarded('rlm-mixed', engine.reverse_line_mapping,
            np.array([0., 2, 5, 9]), np.array([0., 3.5, 9]), np.array([10, 11, 12, 13]))
    guarded('rlm-empty-s', engine.reverse_line_mapping, np.zeros(1), np.zeros(0), np.zeros(0))
    guarded('rlm-empty-s2', engine.reverse_line_mapping, np.array([0., 1, 2]), np.zeros(0), np.array([4., 5, 6]))
    guarded('rlm-zero-span', engine.reverse_line_mapping, np.zeros(1), np.zeros(2), np.ones(1))
    guarded('rlm-zero-span2', engine.reverse_line_mapping, np.array([0., 1, 0]), np.array([0., 0.5]), np.array([1., 2, 3]))

    # ---- 1b. direct calls of fast_remap -----------------------------------------------
    ph, pw = 90, 130
    imgs = [rng.integers(0, 256, size=(ph, pw, 3), dtype=np.uint8),
            rng.integers(0, 256, size=(ph, pw, 1), dtype=np.uint8),
            rng.integers(0, 256, size=(ph, pw), dtype=np.uint8),
            rng.integers(0, 256, size=(ph, pw, 4), dtype=np.uint8),
            rng.random(size=(ph, pw, 3)).astype(np.float32)]
    for it in range(300):
        h = int(rng.integers(1, 20))
        w = int(rng.integers(1, 40))
        ang = rng.uniform(-1.0, 1.0)
        step = rng.uniform(0.5, 2.0)
        jj, ii = np.meshgrid(np.arange(w), np.arange(h))
        gx = (np.cos(ang) * jj - np.sin(ang) * ii) * step
        gy = (np.sin(ang) * jj + np.cos(ang) * ii) * step
        gx -= gx.min()
        gy -= gy.min()
        ex, ey = gx.max(), gy.max()
        mode = it % 10
        if mode == 0:      # exactly flush with the top-left corner
            ox, oy = 0.0, 0.0
        elif mode == 1:    # exactly flush with the bottom-right corner (integer extents)
            gx, gy = np.round(gx), np.round(gy)
            ox, oy = pw - 1 - gx.max(), ph - 1 - gy.max()
        elif mode == 2:    # a fraction of a pixel outside on the left / top
            ox, oy = -rng.uniform(0.01, 0.9), rng.uniform(0, max(0.0, ph - 1 - ey))
        elif mode == 3:    # a fraction of a pixel outside on the right / bottom
            ox, oy = pw - 1 - ex + rng.uniform(0.01, 0.9), ph - 1 - ey + rng.uniform(0.01, 0.9)
        elif mode == 4:    # far outside
            ox, oy = rng.uniform(-300, 300), rng.uniform(-300, 300)
        elif mode == 5:    # last fractional pixel before the border (ceil hits W-1 / H-1)
            ox, oy = pw - 1 - ex - rng.uniform(0.0, 0.5), ph - 1 - ey - rng.uniform(0.0, 0.5)
        else:              # anywhere around the page
            ox, oy = rng.uniform(-20, pw), rng.uniform(-20, ph)
        cmap = np.stack([gx + ox, gy + oy], axis=2).astype(np.float32)
        im = imgs[it % len(imgs)]
        guarded('remap%d' % it, engine.fast_remap, im, cmap)
        if it % 4 == 0:    # non-contiguous / float64-derived variants of the same map
            guarded('remap-nc%d' % it, engine.fast_remap, im, np.asfortranarray(cmap))
    base = np.stack(np.meshgrid(np.arange(10, 30, dtype=np.float32), np.arange(20, 28, dtype=np.float32)), axis=2)
    for name, (r, c, ch, val) in {'nan-x': (0, 0, 0, np.nan), 'nan-y': (3, 5, 1, np.nan),
                                  'inf-x': (1, 1, 0, np.inf), 'ninf-y': (2, 2, 1, -np.inf),
                                  'huge-x': (1, 1, 0, 1e20)}.items():
        bad = base.copy()
        bad[r, c, ch] = val
        guarded('remap-' + name, engine.fast_remap, imgs[0], bad)
    both = base.copy()
    both[0, 0, 0] = np.inf
    both[0, 0, 1] = np.nan
    guarded('remap-inf-nan', engine.fast_remap, imgs[0], both)
    both = base.copy()
    both[0, 0, 0] = np.nan
    both[0, 0, 1] = np.inf
    guarded('remap-nan-inf', engine.fast_remap, imgs[0], both)
    guarded('remap-empty-w', engine.fast_remap, imgs[0], np.zeros((8, 0, 2), dtype=np.float32))
    guarded('remap-empty-h', engine.fast_remap, imgs[0], np.zeros((0, 8, 2), dtype=np.float32))
    guarded('remap-1x1', engine.fast_remap, imgs[0], np.full((1, 1, 2), 5.5, dtype=np.float32))
    guarded('remap-negzero', engine.fast_remap, imgs[0], np.full((2, 3, 2), -0.0, dtype=np.float32))

    # ---- 2. crops of random baselines -------------------------------------------------
    page_h, page_w = 260, 420
    img = rng.integers(0, 256, size=(page_h, page_w, 3), dtype=np.uint8)
    pad = 70
    img_padded = np.zeros((page_h + 2 * pad, page_w + 2 * pad, 3), dtype=np.uint8)
    img_padded[pad:pad + page_h, pad:pad + page_w] = img
    n_ok = 0
    for it in range(360):
        poly = it % 3
        line_height = int(rng.choice([16, 24, 32, 40, 48, 64]))
        scale = float(rng.uniform(0.8, 1.5))
        eng = EngineLineCropper(line_height=line_height, poly=poly, scale=scale)
        outside = (it // 3) % 2 == 1
        bl = random_baseline(rng, page_w, page_h, outside)
        heights = [float(rng.uniform(6, 22)), float(rng.uniform(3, 10))]
        if it % 7 == 0:
            heights = np.asarray(heights)
        if it % 11 == 0:
            bl = bl.tolist()
        coords = guarded('coords%d' % it, eng.get_crop_inputs, bl, heights, line_height)
        crop = guarded('crop%d' % it, eng.crop, img, bl, heights)
        if crop is not None and crop.shape[1] != 32:
            n_ok += 1
        res = guarded('crop-fwd%d' % it, eng.crop, img, bl, heights, return_forward_mapping=True)
        # image and baseline shifted together (integer shift; padded page => fast path)
        bl_shift = np.asarray(bl, dtype=float) + pad
        guarded('crop-shift%d' % it, eng.crop, img_padded, bl_shift, heights)
        if it % 20 == 0:
            guarded('crop-map%d' % it, eng.crop, img, bl, heights, return_mapping=True)
    feed('n_ok', n_ok)
    STATS['non-blank crops (of 360)'] = n_ok

    # ---- 3. degenerate baselines ------------------------------------------------------
    degenerate = [
        ([[50, 20], [50, 120]], [10, 5]),            # vertical
        ([[50, 120], [50, 20]], [10, 5]),            # vertical, upwards
        ([[50, 20], [50, 60], [50, 120]], [10, 5]),  # vertical, 3 points
        ([[70, 70], [70, 70]], [10, 5]),             # single pixel
        ([[70, 70], [71, 70]], [10, 5]),             # one pixel long
        ([[70, 70], [72, 71]], [10, 5]),             # two pixels long
        ([[70, 70], [73, 70]], [10, 5]),
        ([[70, 70]], [10, 5]),                       # a single point
        ([[30, 40], [200, 60]], [0, 0]),             # zero heights
        ([[30, 40], [200, 60]], [0.0, 0.0]),
        ([[30, 40], [200, 60]], np.array([0.0, 0.0])),
        ([[30, 40], [120, 50], [200, 60]], [0, 0]),
        ([[30.4, 40.2], [30.9, 40.7]], [10, 5]),     # collapses to one pixel after int cast
    ]
    for poly in (0, 1, 2):
        for lh in (16, 32, 48):
            eng = EngineLineCropper(line_height=lh, poly=poly, scale=1.25)
            for j, (bl, hs) in enumerate(degenerate):
                guarded('deg%d-%d-%d' % (poly, lh, j), eng.crop, img, np.asarray(bl), hs)
                guarded('deg-in%d-%d-%d' % (poly, lh, j), eng.get_crop_inputs, np.asarray(bl), hs, lh)

    # ---- 4. LineCropper (page_parser code path) ---------------------------------------
    try:
        import configparser
        from pero_ocr.document_ocr.page_parser import LineCropper
        from pero_ocr.core.layout import TextLine, PageLayout, RegionLayout
    except Exception as e:  # pragma: no cover - heavy optional deps
        feed('page_parser-import', type(e).__name__)
    else:
        for poly in (0, 1, 2):
            cfg = configparser.ConfigParser()
            cfg['LINE_CROPPER'] = {'INTERP': str(poly), 'LINE_SCALE': '1.1', 'LINE_HEIGHT': '40'}
            lc = LineCropper(cfg['LINE_CROPPER'])
            lines = []
            for j in range(12):
                bl = random_baseline(rng, page_w, page_h, j % 2 == 1)
                lines.append(TextLine(id='l%d' % j, baseline=bl, heights=[float(rng.uniform(6, 22)), float(rng.uniform(3, 10))]))
            for j, (bl, hs) in enumerate(degenerate):
                lines.append(TextLine(id='d%d' % j, baseline=np.asarray(bl), heights=hs))
            guarded('lc-lines%d' % poly, lc.crop_lines, img, lines)
            for ln in lines:
                feed('lc-crop-' + ln.id, ln.crop)
                ln.crop = None
            layout = PageLayout(id='p', page_size=(page_h, page_w))
            region = RegionLayout('r', np.array([[0, 0], [page_w, 0], [page_w, page_h], [0, page_h]]))
            region.lines = lines
            layout.regions.append(region)
            guarded('lc-page%d' % poly, lambda: lc.process_page(img, layout) and None)
            for ln in lines:
                feed('lc-pcrop-' + ln.id, ln.crop)

    print('STATS', sorted(STATS.items()))
    print('DIGEST', H.hexdigest())
    return 0


if __name__ == '__main__':
    sys.exit(main())
