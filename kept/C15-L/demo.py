"""Differential demo for change L (levenshtein_distance: insertion propagation as a running minimum).

Prints a digest of distances, best overlaps and merged parts over a few hundred inputs."""
import hashlib
import random
import warnings

import numpy as np

from pero_ocr.sequence_alignment import levenshtein_distance
from pero_ocr.ocr_engine.line_ocr_engine import find_best_overlap, merge_transcriptions_and_logits

ALPHABET = 'abcdefghij klmno'


def rand_text(rng, n, alphabet=ALPHABET):
    return ''.join(rng.choice(alphabet) for _ in range(n))


def windows(text, width, overlap):
    parts = []
    start, end = 0, width
    while end < len(text):
        parts.append(text[start:end])
        start += width - overlap
        end += width - overlap
    parts.append(text[start:end])
    return parts


def noisy(rng, part, overlap, rate):
    chars = list(part)
    for pos in list(range(min(overlap, len(chars)))) + list(range(max(0, len(chars) - overlap), len(chars))):
        if rng.random() < rate:
            op = rng.choice('sdi')
            chars[pos] = {'s': rng.choice(ALPHABET), 'd': '', 'i': chars[pos] + rng.choice(ALPHABET)}[op]
    return ''.join(chars)


def call(digest, fn, *args, **kwargs):
    try:
        with warnings.catch_warnings():
            warnings.simplefilter('ignore')
            res = fn(*args, **kwargs)
        digest.update(repr((type(res).__name__, str(getattr(res, 'dtype', '')), res)).encode())
    except Exception as exc:  # inputs outside the supported domain: only record that it failed
        digest.update(b'error')


def main():
    rng = random.Random(15150)
    nprng = np.random.default_rng(15150)
    digest = hashlib.sha256()
    nb = 0

    # 1. levenshtein_distance directly
    cost_sets = [dict(), dict(sub_cost=2), dict(ins_cost=2, del_cost=3), dict(sub_cost=3, ins_cost=1, del_cost=1),
                 dict(ins_cost=0), dict(ins_cost=-1), dict(sub_cost=0), dict(ins_cost=True),
                 dict(ins_cost=np.int32(2)), dict(ins_cost=np.int64(3), del_cost=np.int64(2)),
                 dict(ins_cost=1.0), dict(ins_cost=0.5, del_cost=0.25, sub_cost=0.75), dict(ins_cost=0.1, del_cost=0.1, sub_cost=0.1),
                 dict(sub_cost=1.5), dict(del_cost=0.5), dict(ins_cost=np.float32(0.3))]
    for _ in range(250):
        alphabet = rng.choice(['ab', 'abc', ALPHABET])
        a = rand_text(rng, rng.randint(0, 14), alphabet)
        b = rand_text(rng, rng.randint(0, 14), alphabet)
        for costs in cost_sets:
            call(digest, levenshtein_distance, list(a), list(b), **costs)
            nb += 1
        call(digest, levenshtein_distance, a, list(b))
        call(digest, levenshtein_distance, [ord(c) for c in a], [ord(c) for c in b])
        call(digest, levenshtein_distance, tuple(a), tuple(b), sub_cost=2)
        call(digest, levenshtein_distance, [c if c != 'a' else 1 for c in a], [c if c != 'b' else 1 for c in b])
        nb += 4
    for a, b in [([], []), ([], list('abc')), (list('abc'), []), (list('a'), list('a')), (list('abc'), list('abc')),
                 (list('a' * 40), list('a' * 25)), (list('ab' * 15), list('ba' * 15)), (['ab', 'c'], ['a', 'bc']),
                 ([1, 2, 3], [1.0, 2.0, 4.0]), ([None, 1], [None, 2, 1])]:
        for costs in cost_sets:
            call(digest, levenshtein_distance, a, b, **costs)
            nb += 1

    # 2. find_best_overlap / merging, the callers named by the property
    cases = []
    for _ in range(60):
        text = rand_text(rng, rng.randint(1, 60))
        width = rng.randint(2, 20)
        cases.append(windows(text, width, rng.randint(0, width - 1)))
    for _ in range(60):
        text = rand_text(rng, rng.randint(5, 60))
        width = rng.randint(3, 20)
        overlap = rng.randint(1, width - 1)
        cases.append([noisy(rng, p, overlap, 0.3) for p in windows(text, width, overlap)])
    for _ in range(60):
        alphabet = rng.choice(['ab', 'abc', ALPHABET])
        cases.append([rand_text(rng, rng.randint(0, 8), alphabet) for _ in range(rng.randint(1, 7))])
    for _ in range(40):
        parts = windows(rand_text(rng, rng.randint(1, 40)), rng.randint(2, 10), 1)
        for _ in range(rng.randint(1, 3)):
            parts.insert(rng.randint(0, len(parts)), '')
        cases.append(parts)
    cases += [[''], ['a'], ['', ''], ['', '', 'a'], ['a', ''], ['abcdef', 'f', 'abcdef'], ['aaaa', 'aaaa', 'aaaa'],
              ['ab', 'b', 'b', 'b', 'bab'], ['abc', 'abc'], ['x' * 30, 'x' * 3, 'x' * 30]]
    for parts in cases:
        for first, second in zip(parts, parts[1:]):
            digest.update(repr(find_best_overlap(first, second)).encode())
        logits = [nprng.standard_normal((len(p) + rng.choice([0, 0, 2]), 4)).astype(np.float32) for p in parts]
        text, merged = merge_transcriptions_and_logits(parts, logits)
        digest.update(repr((text, merged.shape, str(merged.dtype))).encode())
        digest.update(np.ascontiguousarray(merged).tobytes())
        nb += 1
    print(f'{nb} cases, digest {digest.hexdigest()}')


if __name__ == '__main__':
    main()
