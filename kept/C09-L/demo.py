"""Differential demo for change L (single densification + label helper in ALTO export / get_quality).

Builds a few hundred random pages with synthetic CTC-like sparse logits and prints a digest over
the ALTO export (original layout and layout rebuilt from PAGE XML + saved logits), the
per-line confidences it assigns, the warnings it logs, get_quality() and the dense/normalised
logits of every line.
"""
import hashlib
import logging

import numpy as np
import scipy.sparse as sp
import lxml.etree as ET
from scipy.special import softmax

from pero_ocr.core.layout import PageLayout, RegionLayout, TextLine

H = hashlib.sha256()
LOG = []


class ListHandler(logging.Handler):
    def emit(self, record):
        LOG.append((record.levelname, record.getMessage()))


root_logger = logging.getLogger()
root_logger.handlers = [ListHandler()]
root_logger.setLevel(logging.WARNING)


def feed(*items):
    for it in items:
        if isinstance(it, np.ndarray):
            H.update(str(it.dtype).encode() + str(it.shape).encode() + np.ascontiguousarray(it).tobytes())
        else:
            H.update(repr(it).encode('utf-8'))
        H.update(b'|')


CHARSET = list('abcdefghijklmno pqrš')       # the space is a regular output
UNKNOWN = 'Ω'


def make_logits(rng, text_ids, n_out, dtype):
    """CTC-like path: every symbol 1-3 frames, optional blanks in between."""
    blank = n_out - 1
    path = []
    for k, s in enumerate(text_ids):
        if k > 0 and (text_ids[k - 1] == s or rng.random() < 0.5):
            path += [blank] * int(rng.integers(1, 3))
        path += [s] * int(rng.integers(1, 4))
    path = [blank] * int(rng.integers(0, 3)) + path + [blank] * int(rng.integers(0, 3))
    T = len(path)
    dense = rng.normal(size=(T, n_out)) * 1.5
    if T:
        dense[np.arange(T), path] += rng.uniform(3, 9)
    dense = dense.astype(dtype)
    if T:
        probs = softmax(dense, axis=1)
        dense[probs < rng.choice([1e-4, 1e-2, 0.2])] = 0
    return dense


def random_line(rng, idx, y):
    n_chars = int(rng.integers(3, len(CHARSET) + 1))
    chars = [CHARSET[i] for i in rng.permutation(len(CHARSET))[:n_chars]]
    n_out = n_chars + 1
    characters = chars + ['​']
    text_len = int(rng.integers(1, 12))
    text_ids = [int(v) for v in rng.integers(0, n_chars, size=text_len)]
    dtype = [np.float32, np.float64][int(rng.integers(0, 2))]
    kind = rng.random()
    if kind < 0.12:      # pure noise, possibly too short for the text -> alignment may fail
        dense = (rng.normal(size=(int(rng.integers(0, 8)), n_out)) * 3).astype(dtype)
        dense[rng.random(dense.shape) < 0.5] = 0
    else:
        dense = make_logits(rng, text_ids, n_out, dtype)
    fmt = rng.choice(['csc', 'csr'], p=[0.85, 0.15])
    logits = {'csc': sp.csc_matrix, 'csr': sp.csr_matrix}[fmt](dense)
    T = dense.shape[0]

    text = ''.join(chars[i] for i in text_ids)
    r = rng.random()
    if r < 0.10:
        pos = int(rng.integers(0, len(text)))
        text = text[:pos] + UNKNOWN + text[pos + 1:]            # char outside of the charset
    elif r < 0.15:
        text = text + characters[-1]                            # the blank symbol itself
    elif r < 0.22:
        text = ' ' + text + '  x' if ' ' in chars else text + ' ' + text
    elif r < 0.25:
        text = '   '                                            # white-space only, skipped by ALTO

    r = rng.random()
    if r < 0.45:
        coords = [None, None]
    elif r < 0.55:
        coords = [0, T]
    elif r < 0.9:
        a = int(rng.integers(0, 3))
        coords = [min(a, T), max(min(a, T), T - int(rng.integers(0, 3)))]
    else:
        coords = None                                            # missing component

    x0 = int(rng.integers(5, 40))
    x1 = x0 + int(rng.integers(60, 400))
    baseline = np.array([[x0, y], [(x0 + x1) // 2, y + int(rng.integers(-3, 4))], [x1, y]], dtype=np.float64)
    heights = [float(rng.integers(8, 25)), float(rng.integers(3, 10))]
    polygon = np.array([[x0, y - heights[0]], [x1, y - heights[0]], [x1, y + heights[1]], [x0, y + heights[1]]])
    line = TextLine(id=f'l{idx}', baseline=baseline, polygon=polygon, heights=heights, transcription=text,
                    logits=logits, characters=characters, logit_coords=coords)
    r = rng.random()
    if r < 0.06:
        line.characters = None                                   # e.g. PAGE XML without loaded logits
        if rng.random() < 0.5:
            line.logits = None
            line.logit_coords = None
    elif r < 0.10:
        line.characters = characters[:-2] + [characters[0], characters[-1]]   # duplicate in the table
    elif r < 0.13:
        line.transcription = None
    return line


def random_page(rng, case):
    page = PageLayout(id=f'page {case}.jpg', page_size=(1200, 900))
    idx = 0
    for r in range(int(rng.integers(0, 4))):
        region = RegionLayout(f'r{r}', np.array([[0, 0], [800, 0], [800, 1000], [0, 1000]], dtype=np.float64))
        for _ in range(int(rng.integers(0, 5))):
            region.lines.append(random_line(rng, idx, 40 + 45 * idx))
            idx += 1
        page.regions.append(region)
    return page


def run(name, fn):
    del LOG[:]
    try:
        out = fn()
    except Exception as e:
        out = ('EXC', type(e).__name__, str(e))
    feed(name, out, list(LOG))
    return out


def fixed_processing_element():
    return ET.Element("OCRProcessing", ID="fixed")


def feed_lines(page):
    for line in page.lines_iterator():
        feed(line.id, line.transcription, line.characters, line.logit_coords)
        conf = line.transcription_confidence
        feed(None if conf is None else float(conf))
        if line.logits is not None:
            feed(line.logits.toarray(), line.get_dense_logits(), line.get_full_logprobs())


def main():
    rng = np.random.default_rng(909)
    n_alto = n_exc = 0
    for case in range(300):
        page = random_page(rng, case)
        feed('case', case)
        pagexml = page.to_pagexml_string()
        try:
            blob = page.save_logits_bytes(missing_line_logits_ok=True)
        except Exception as e:
            blob = None
            feed('save-exc', str(e))

        min_conf = float(rng.choice([0, 0, 0.3]))
        alto = run('alto', lambda: page.to_altoxml_string(ocr_processing_element=fixed_processing_element(),
                                                          page_uuid='uuid', min_line_confidence=min_conf))
        n_alto += isinstance(alto, str)
        n_exc += not isinstance(alto, str)
        feed_lines(page)
        run('quality', lambda: page.get_quality())
        run('quality-bbox', lambda: page.get_quality(x=1, y=1, width=300, height=500, power=4))
        feed_lines(page)

        if blob is not None:
            rebuilt = PageLayout()
            rebuilt.from_pagexml_string(pagexml)
            rebuilt.load_logits(blob)
            alto2 = run('alto-rebuilt',
                        lambda: rebuilt.to_altoxml_string(ocr_processing_element=fixed_processing_element(),
                                                          page_uuid='uuid', min_line_confidence=min_conf))
            feed('same-as-original', alto2 == alto)
            feed_lines(rebuilt)
            run('quality-rebuilt', lambda: rebuilt.get_quality())
    print(f'pages exported: {n_alto}, export raised: {n_exc}')
    print('DIGEST', H.hexdigest())


if __name__ == '__main__':
    main()
