"""Differential demo for change L (shared traceback helper, append+reverse instead of insert(0), in pero_ocr.sequence_alignment).

Runs all five Levenshtein routines and ErrorsSummary on a few thousand small inputs (strings, ints, mixed
symbols, empty / equal / substring / leading-insertion cases, costs 1..4) and prints a digest of every
result (value AND type, via repr).  The digest must be identical on the clean and on the patched tree.
"""
import hashlib
import itertools
import random

import numpy as np

from pero_ocr import sequence_alignment as sa
from pero_ocr.error_summary import ErrorsSummary


def ref_distance(a, b, sub, ins, dele):
    prev = [j * ins for j in range(len(b) + 1)]
    for x in a:
        cur = [prev[0] + dele]
        for j, y in enumerate(b):
            cur.append(min(prev[j + 1] + dele, prev[j] + (sub if x != y else 0), cur[j] + ins))
        prev = cur
    return prev[-1]


def call(fn, *args, **kwargs):
    try:
        return repr(fn(*args, **kwargs))
    except Exception as e:  # outside-the-quantifier inputs (e.g. str target) must fail the same way
        return 'EXC:' + type(e).__name__


def make_pairs(rng):
    alphabets = [
        list('ab'),
        list('abcdefghijklmnopqrstuvwxyz'),
        [0, 1, 2],
        list(range(1000)),
        [1, 'a', 2, 'b', 'ab', 10, '1'],
    ]
    pairs = []
    # exhaustive tiny cases
    for n, m in itertools.product(range(4), range(4)):
        for a in itertools.product('ab', repeat=n):
            for b in itertools.product('ab', repeat=m):
                pairs.append((list(a), list(b)))
    for alpha in alphabets:
        for _ in range(60):
            a = [rng.choice(alpha) for _ in range(rng.randint(0, 9))]
            b = [rng.choice(alpha) for _ in range(rng.randint(0, 9))]
            pairs.append((a, b))
            pairs.append((a, list(a)))                      # equal
            if a:
                i = rng.randint(0, len(a) - 1)
                j = rng.randint(i, len(a))
                pairs.append((a, a[i:j]))                   # substring
                pairs.append((a[i:j], a))
                pairs.append((a, [rng.choice(alpha)] + a))  # insertion before the first match
                pairs.append(([rng.choice(alpha)] + a, a))
                pairs.append((a[1:], a))
            pairs.append((a, []))
            pairs.append(([], b))
    pairs.append(([], []))
    # str sources are iterated symbol by symbol; str targets are rejected (kept as is)
    pairs.append(('kitten', list('sitting')))
    pairs.append(('', list('ab')))
    pairs.append(('abc', 'abd'))
    pairs.append((list('abc'), ''))
    # longer ones
    for _ in range(10):
        a = [rng.choice('abc') for _ in range(rng.randint(30, 60))]
        b = [rng.choice('abc') for _ in range(rng.randint(30, 60))]
        pairs.append((a, b))
    return pairs


def main():
    rng = random.Random(1234)
    pairs = make_pairs(rng)
    h = hashlib.sha256()
    n_results = 0
    n_exact = 0
    cost_sets = [(1, 1, 1), (1, 2, 3), (4, 1, 1), (2, 4, 1), (3, 3, 4), (4, 4, 4), (2, 1, 4)]
    for idx, (a, b) in enumerate(pairs):
        costs = [(1, 1, 1), cost_sets[idx % len(cost_sets)], tuple(rng.randint(1, 4) for _ in range(3))]
        for sub, ins, dele in costs:
            kw = dict(sub_cost=sub, ins_cost=ins, del_cost=dele)
            out = [
                call(sa.levenshtein_distance, a, b, **kw),
                call(sa.levenshtein_alignment, a, b, **kw),
                call(sa.levenshtein_alignment, a, b, empty_symbol='<eps>', **kw),
                call(sa.levenshtein_alignment_path, a, b, **kw),
                call(sa.levenshtein_distance_substring, a, b, **kw),
                call(sa.levenshtein_alignment_substring, a, b, **kw),
            ]
            try:
                d = sa.levenshtein_distance(a, b, **kw)
                n_exact += int(d == ref_distance(a, b, sub, ins, dele))
            except Exception:
                pass
            for o in out:
                h.update(o.encode('utf8'))
                h.update(b'\n')
                n_results += 1
        # error summaries (unit costs)
        try:
            alig = sa.levenshtein_alignment(a, b)
            h.update(repr(sa.edit_stats_for_alignment(alig)).encode('utf8'))
        except Exception as e:
            h.update(('EXC:' + type(e).__name__).encode('utf8'))
        n_results += 1

    summaries = []
    for a, b in pairs:
        try:
            s = ErrorsSummary.from_lists(a, b)
        except Exception as e:
            h.update(('EXC:' + type(e).__name__).encode('utf8'))
            continue
        summaries.append(s)
        rec = (repr(s.nb_errors), repr(s.nb_subs), repr(s.nb_inss), repr(s.nb_dels), s.ref_len, str(s),
               sorted((repr(k), sorted((repr(kk), v) for kk, v in c.items())) for k, c in s.confusions.items()),
               vars(s.ending_errors))
        h.update(repr(rec).encode('utf8'))
        n_results += 1
    for lo in range(0, len(summaries), 37):
        agg = ErrorsSummary.aggregate(summaries[lo:lo + 37])
        rec = (repr(agg.nb_errors), repr(agg.nb_subs), repr(agg.nb_inss), repr(agg.nb_dels), agg.ref_len,
               agg.nb_lines_summarized, str(agg), vars(agg.ending_errors))
        h.update(repr(rec).encode('utf8'))
        n_results += 1

    print('pairs', len(pairs), 'results', n_results, 'distance==reference', n_exact)
    print('digest', h.hexdigest())


if __name__ == '__main__':
    main()
