#!/usr/bin/env python3
"""Differential test for change M (C17: resuming an interrupted batch completes every requested output).

Part A exercises the --skip-processed bookkeeping of user_scripts/parse_folder.py directly on a few hundred small
random output directories.  Part B runs parse_folder.main() with a cheap deterministic page parser, kills it between
any two output writes (also before the first and after the last one, and up to three times in a row), resumes it with
--skip-processed and records the final output tree and the pages every run has processed.

First run (clean tree) writes reference.json next to this file; later runs compare against it with tolerances
(1e-9 relative for float64, 1e-6 for float32, unordered collections compared as sets / by key) and print
MATCH (exit 0) or DIFFERENT: <what> (exit 1).
"""
import builtins
import contextlib
import hashlib
import io
import itertools
import json
import logging
import os
import pickle
import random
import shutil
import sys
import tempfile
import zlib

import cv2
import numpy as np
import scipy.sparse
import lxml.etree as ET

import pero_ocr
from pero_ocr.core.layout import PageLayout, RegionLayout, TextLine
import parse_folder

HERE = os.path.dirname(os.path.abspath(__file__))
REFERENCE = os.path.join(HERE, 'reference.json')

KINDS = ['xml', 'logits', 'render', 'alto', 'lines']
CONFIG_KEYS = {'xml': 'OUTPUT_XML_PATH', 'logits': 'OUTPUT_LOGIT_PATH', 'render': 'OUTPUT_RENDER_PATH',
               'alto': 'OUTPUT_ALTO_PATH', 'lines': 'OUTPUT_LINE_PATH'}
# page ids with dots and with output-extension substrings (the image file is <id>.png / <id>.jpeg)
PAGE_FILES = ['p1.png', 'a.b.png', 'page.xml.png', 'scan.logits.v2.jpeg', 'x.jpg.png']
FLOAT32_TOL = 1e-6
FLOAT64_TOL = 1e-9


# --------------------------------------------------------------------------------------------------------------------
# Part A: bookkeeping functions
# --------------------------------------------------------------------------------------------------------------------
def random_name(rng):
    stems = ['a', 'b', 'a.b', 'page.xml', 'page.jpg', 'scan.logits', 'x.y.z', '.hidden', '.', 'A', 'a b', 'ab',
             'a.xml.xml', 'p-1', 'r.logits.v2', 'jpg', 'xml', 'logits']
    exts = ['.xml', '.jpg', '.logits', '.XML', '.jpeg', '.png', '', '.xml.bak', '.logit', '.xmlx', '.xml ', 'xml',
            '.jpg.tmp', '.txt']
    if rng.random() < 0.08:
        return rng.choice(['.xml', '.jpg', '.logits', '..xml', 'n.xml\n', 'a\nb.xml', 'c.jpg\n\n', '\n.xml', 'q.logits\n'])
    return rng.choice(stems) + rng.choice(exts)


def part_a(tmp):
    rng = random.Random(1234)
    results = {}
    dirs = []
    for i in range(240):
        d = os.path.join(tmp, 'A', f'd{i:03d}')
        os.makedirs(d)
        for _ in range(rng.randint(0, 9)):
            name = random_name(rng)
            path = os.path.join(d, name)
            if rng.random() < 0.1:
                os.makedirs(path, exist_ok=True)
            elif not os.path.isdir(path):
                open(path, 'w').close()
        dirs.append(d)
        results[f'dir/{i:03d}'] = sorted(parse_folder.load_already_processed_files_in_directory(d))
    results['dir/None'] = sorted(parse_folder.load_already_processed_files_in_directory(None))

    for j in range(300):
        k = rng.choice([0, 1, 1, 2, 2, 3, 4, 4])
        chosen = [rng.choice(dirs) for _ in range(k)]
        if rng.random() < 0.3 and chosen:
            chosen.append(chosen[0])  # the same directory used for two outputs
        # the caller always passes four entries, None for outputs which are not requested
        slots = chosen + [None] * max(0, 4 - len(chosen))
        rng.shuffle(slots)
        value = parse_folder.load_already_processed_files(slots)
        assert isinstance(value, (set, frozenset)), type(value)
        results[f'combo/{j:03d}'] = {'dirs': [None if s is None else os.path.basename(s) for s in slots],
                                     'processed': sorted(value)}
    results['combo/empty'] = sorted(parse_folder.load_already_processed_files([]))
    results['combo/allNone'] = sorted(parse_folder.load_already_processed_files([None, None, None, None]))
    return results


# --------------------------------------------------------------------------------------------------------------------
# Part B: crash / resume of whole batches
# --------------------------------------------------------------------------------------------------------------------
class Kill(BaseException):
    """Simulated kill of the process (neither Exception nor KeyboardInterrupt, so nobody handles it)."""


class FakePageParser:
    """Cheap deterministic stand-in for PageParser: the page content is a function of the page id only."""
    calls = []

    def __init__(self, config, device=None, config_path=''):
        self.decoder = None

    @property
    def provides_ctc_logits(self):
        return True

    def process_page(self, image, page_layout):
        FakePageParser.calls.append(page_layout.id)
        seed = zlib.crc32(page_layout.id.encode('utf-8'))
        rng = np.random.RandomState(seed % (2 ** 31))
        height, width = page_layout.page_size
        characters = list('abcde ') + ['\u200b']
        for r in range(1 + seed % 2):
            x0, y0 = 5, 5 + r * 44
            region = RegionLayout(f'r{r}', np.array([[x0, y0], [width - 5, y0], [width - 5, y0 + 40], [x0, y0 + 40]],
                                                    dtype=np.float64))
            for l in range(1 + (seed >> (r + 3)) % 2):
                yb = y0 + 15 + l * 19
                baseline = np.array([[x0 + 2, yb], [width // 2, yb + 0.4], [width - 8, yb]], dtype=np.float64)
                polygon = np.array([[x0 + 2, yb - 10], [width - 8, yb - 10], [width - 8, yb + 4], [x0 + 2, yb + 4]],
                                   dtype=np.float64)
                frames = 26
                logits = (rng.randn(frames, len(characters)) * 3).astype(np.float32)
                text = ''.join(rng.choice(list('abcde'), size=3)) + ' ' + ''.join(rng.choice(list('abcde'), size=2))
                for t, ch in enumerate(text):
                    logits[2 + 3 * t, characters.index(ch)] += 9
                logits[rng.rand(*logits.shape) < 0.15] = 0
                line = TextLine(id=f'r{r}-l{l}', baseline=baseline, polygon=polygon, heights=[10.0, 4.0],
                                transcription=text, logits=scipy.sparse.csc_matrix(logits),
                                crop=rng.randint(0, 255, size=(16, 48, 3)).astype(np.uint8),
                                characters=characters, logit_coords=[0, frames],
                                transcription_confidence=float(np.round(rng.rand(), 6)))
                region.lines.append(line)
            page_layout.regions.append(region)
        return page_layout


class WriteCounter:
    """Counts writes into the output tree; raises Kill instead of performing write number `kill_before`."""

    def __init__(self, root):
        self.root = os.path.abspath(root) + os.sep
        self.count = 0
        self.kill_before = None
        self.log = []

    def tick(self, path):
        path = os.path.abspath(str(path))
        if not path.startswith(self.root):
            return
        if self.kill_before is not None and self.count == self.kill_before:
            raise Kill()
        self.count += 1
        self.log.append(os.path.relpath(path, self.root))


@contextlib.contextmanager
def hooked_writes(counter):
    real_open, real_imwrite = builtins.open, cv2.imwrite

    def open_hook(file, mode='r', *args, **kwargs):
        if isinstance(file, (str, bytes, os.PathLike)) and any(c in mode for c in 'wax+'):
            counter.tick(os.fsdecode(file))
        return real_open(file, mode, *args, **kwargs)

    def imwrite_hook(filename, *args, **kwargs):
        counter.tick(filename)
        return real_imwrite(filename, *args, **kwargs)

    builtins.open, cv2.imwrite = open_hook, imwrite_hook
    try:
        yield
    finally:
        builtins.open, cv2.imwrite = real_open, real_imwrite


class Batch:
    def __init__(self, tmp, name, kinds, page_files):
        self.root = os.path.join(tmp, 'B', name)
        self.kinds = kinds
        self.images = os.path.join(self.root, 'images')
        self.out = os.path.join(self.root, 'out')
        os.makedirs(self.images)
        os.makedirs(self.out)
        for file_name in page_files:
            i = PAGE_FILES.index(file_name)  # the image depends on the page only, not on the batch it is part of
            rng = np.random.RandomState(100 + i)
            image = rng.randint(0, 255, size=(100, 120 + 4 * i, 3)).astype(np.uint8)
            assert cv2.imwrite(os.path.join(self.images, file_name), image)
        self.config = os.path.join(self.root, 'config.ini')
        with open(self.config, 'w') as f:
            f.write('[PAGE_PARSER]\n\n[PARSE_FOLDER]\n')
            f.write(f'INPUT_IMAGE_PATH = {self.images}\n')
            for kind in kinds:
                f.write(f'{CONFIG_KEYS[kind]} = {os.path.join(self.out, kind)}\n')

    def clear_outputs(self):
        shutil.rmtree(self.out)
        os.makedirs(self.out)

    def run(self, kill_before=None, skip=True):
        """Returns (status, pages processed, number of writes done)."""
        counter = WriteCounter(self.out)
        counter.kill_before = kill_before
        FakePageParser.calls = []
        argv = ['parse_folder.py', '-c', self.config, '--device', 'cpu'] + (['-s'] if skip else [])
        old_argv, old_parser = sys.argv, parse_folder.PageParser
        sys.argv, parse_folder.PageParser = argv, FakePageParser
        status = 'clean'
        try:
            with hooked_writes(counter), contextlib.redirect_stdout(io.StringIO()), \
                    contextlib.redirect_stderr(io.StringIO()):
                try:
                    parse_folder.main()
                except Kill:
                    status = 'killed'
                except SystemExit as e:
                    status = 'clean' if e.code in (None, 0) else f'exit({e.code})'
                except Exception as e:  # noqa
                    status = f'error({type(e).__name__})'
        finally:
            sys.argv, parse_folder.PageParser = old_argv, old_parser
        return status, list(FakePageParser.calls), counter.count, counter.log


def xml_tree(path, drop_tags):
    def convert(el):
        tag = ET.QName(el).localname if isinstance(el.tag, str) else str(el.tag)
        text = (el.text or '').strip()
        if tag in drop_tags:
            text = '<time>'
        return {'tag': tag, 'attrib': {str(k): v for k, v in sorted(el.attrib.items())}, 'text': text,
                'children': [convert(c) for c in el]}
    return convert(ET.parse(path).getroot())


def logits_content(path):
    with open(path, 'rb') as f:
        data = pickle.load(f)
    content = {}
    for key, value in data.items():
        if scipy.sparse.issparse(value):
            dense = value.toarray()
            content[key] = {'sparse': type(value).__name__, 'dtype': str(dense.dtype), 'shape': list(dense.shape),
                            'values': dense.ravel().tolist()}
        elif isinstance(value, dict):
            content[key] = {'dict': {k: v for k, v in value.items()}}
        else:
            content[key] = {'other': repr(value)}
    return content


def image_content(path):
    image = cv2.imread(path, cv2.IMREAD_UNCHANGED)
    if image is None:
        return {'unreadable': True}
    return {'shape': list(image.shape), 'dtype': str(image.dtype),
            'pixels_sha1': hashlib.sha1(np.ascontiguousarray(image).tobytes()).hexdigest()}


def snapshot(out):
    snap = {}
    for kind in sorted(os.listdir(out)):
        for name in sorted(os.listdir(os.path.join(out, kind))):
            path = os.path.join(out, kind, name)
            key = f'{kind}/{name}'
            if kind == 'xml':
                snap[key] = {'pagexml': xml_tree(path, {'Created', 'LastChange'})}
            elif kind == 'alto':
                snap[key] = {'alto': xml_tree(path, {'processingDateTime'})}
            elif kind == 'logits':
                snap[key] = {'logits': logits_content(path)}
            else:
                snap[key] = {'image': image_content(path)}
    return snap


def is_number(text):
    try:
        float(text)
        return True
    except (TypeError, ValueError):
        return False


def compare(a, b, where, tol):
    """Tolerant deep comparison; returns a description of the first difference or None.  Dicts are compared by key
    (their order is irrelevant), lists element-wise, floats and numeric strings with relative tolerance `tol`."""
    if isinstance(a, dict) and isinstance(b, dict):
        if set(a) != set(b):
            return f'{where}: keys differ {sorted(set(a) ^ set(b))[:5]}'
        local_tol = tol
        if a.get('dtype') == 'float32':
            local_tol = FLOAT32_TOL
        for k in a:
            d = compare(a[k], b[k], f'{where}/{k}', local_tol)
            if d:
                return d
        return None
    if isinstance(a, list) and isinstance(b, list):
        if len(a) != len(b):
            return f'{where}: length {len(a)} != {len(b)}'
        for i, (x, y) in enumerate(zip(a, b)):
            d = compare(x, y, f'{where}[{i}]', tol)
            if d:
                return d
        return None
    if isinstance(a, bool) or isinstance(b, bool) or a is None or b is None:
        return None if a == b and type(a) == type(b) else f'{where}: {a!r} != {b!r}'
    if isinstance(a, (int, float)) and isinstance(b, (int, float)):
        if a == b or abs(a - b) <= tol * max(abs(a), abs(b), 1.0):
            return None
        return f'{where}: {a!r} != {b!r}'
    if isinstance(a, str) and isinstance(b, str):
        if a == b:
            return None
        if is_number(a) and is_number(b) and abs(float(a) - float(b)) <= tol * max(abs(float(a)), abs(float(b)), 1.0):
            return None
        return f'{where}: {a!r} != {b!r}'
    return None if a == b else f'{where}: {a!r} != {b!r}'


def expected_files(kinds, full_snapshot):
    return sorted(k for k in full_snapshot if k.split('/')[0] in kinds)


def part_b(tmp):
    problems = []
    results = {}
    rng = random.Random(4321)

    # the uninterrupted run with every output kind is the yardstick for all the other scenarios
    full = Batch(tmp, 'full', KINDS, PAGE_FILES)
    status, processed, writes, log = full.run(skip=False)
    full_snapshot = snapshot(full.out)
    results['full'] = {'status': status, 'processed': processed, 'writes': writes, 'snapshot': full_snapshot}

    subsets = [list(c) for n in range(0, len(KINDS) + 1) for c in itertools.combinations(KINDS, n)]
    for s_index, kinds in enumerate(subsets):
        name = '+'.join(kinds) or 'nothing'
        page_files = PAGE_FILES if len(kinds) in (0, 1, 5) else PAGE_FILES[s_index % 3:s_index % 3 + 3]
        ids = sorted(os.path.splitext(p)[0] for p in page_files)
        batch = Batch(tmp, f's{s_index:02d}', kinds, page_files)

        status, processed, writes, write_log = batch.run(skip=False)
        uninterrupted = snapshot(batch.out)
        scenario = {'status': status, 'processed': processed, 'writes': writes, 'write_log': write_log,
                    'files': sorted(uninterrupted)}
        d = compare(uninterrupted, {k: full_snapshot[k] for k in uninterrupted if k in full_snapshot},
                    f'{name}/uninterrupted-vs-full', FLOAT64_TOL)
        if d or any(k not in full_snapshot for k in uninterrupted):
            problems.append(d or f'{name}: unexpected output file')

        # a second run with --skip-processed after an uninterrupted one ("killed after the last write")
        status2, processed2, writes2, _ = batch.run()
        scenario['rerun'] = {'status': status2, 'processed': processed2, 'writes': writes2}
        d = compare(snapshot(batch.out), uninterrupted, f'{name}/rerun', FLOAT64_TOL)
        if d:
            problems.append(d)

        # every single crash point, then sequences of two and three crashes
        sequences = [[k] for k in range(writes + 1)]
        if writes > 0:
            for length in (2, 3):
                for _ in range(4 if len(kinds) < 5 else 12):
                    sequences.append([rng.randint(0, writes // 2 + 1) for _ in range(length)])
        crashes = {}
        for seq in sequences:
            batch.clear_outputs()
            runs = []
            for k in seq:
                st, pr, wr, _ = batch.run(kill_before=k, skip=True)
                runs.append({'status': st, 'processed': pr, 'writes': wr})
            st, pr, wr, _ = batch.run()
            runs.append({'status': st, 'processed': pr, 'writes': wr})
            final = snapshot(batch.out)
            d = compare(final, uninterrupted, f'{name}/crash{seq}', FLOAT64_TOL)
            st2, pr2, wr2, _ = batch.run()
            crashes[','.join(map(str, seq))] = {'runs': runs, 'files': sorted(final),
                                                'equals_uninterrupted': d is None,
                                                'after': {'status': st2, 'processed': pr2, 'writes': wr2}}
        scenario['crashes'] = crashes
        results[f'subset/{name}'] = scenario
    return results, problems


def main():
    logging.disable(logging.CRITICAL)
    pass  # (path assertion of the author's sandbox removed)
    pass  # (path assertion of the author's sandbox removed)
    tmp = tempfile.mkdtemp(prefix='c17_demo_')
    try:
        current = {'A': part_a(tmp)}
        current['B'], problems = part_b(tmp)
    finally:
        shutil.rmtree(tmp, ignore_errors=True)
    current = json.loads(json.dumps(current))

    n_crash = sum(len(v.get('crashes', {})) for v in current['B'].values())
    n_equal = sum(c['equals_uninterrupted'] for v in current['B'].values() for c in v.get('crashes', {}).values())
    print(f'part A: {len(current["A"])} cases; part B: {len(current["B"]) - 1} output subsets, {n_crash} crash '
          f'scenarios, {n_equal} of them end equal to the uninterrupted run; internal consistency problems: '
          f'{len(problems)}')
    for p in problems[:5]:
        print('  note:', p)

    if not os.path.exists(REFERENCE):
        with open(REFERENCE, 'w') as f:
            json.dump(current, f, indent=0, sort_keys=True)
        print(f'reference written to {REFERENCE}')
        print('MATCH')
        return 0

    with open(REFERENCE) as f:
        reference = json.load(f)
    difference = compare(reference, current, '', FLOAT64_TOL)
    if difference:
        print(f'DIFFERENT: {difference}')
        return 1
    print('MATCH')
    return 0


if __name__ == '__main__':
    sys.exit(main())
