#!/usr/bin/env python
"""Differential demo for change K (greedy CTC decoding without the prepended blank frame).

Exercises pero_ocr.ocr_engine.pytorch_ocr_engine.greedy_decode_ctc directly on a few hundred
score tensors (ties, non-contiguous layouts, float32/float64, 1..n classes, 1..n frames, empty
batch, all-blank, all-same-class, huge magnitudes) and through PytorchEngineLineOCR.process_lines
with exported (torch.jit) stub networks.  Prints one sha256 digest of everything observed.
"""
import hashlib
import io
import json
import os
import sys
import tempfile
import contextlib

import numpy as np
import torch
from scipy import sparse

from pero_ocr.ocr_engine.pytorch_ocr_engine import greedy_decode_ctc, PytorchEngineLineOCR

H = hashlib.sha256()


def feed(*items):
    for it in items:
        if isinstance(it, np.ndarray):
            H.update(str((it.dtype, it.shape)).encode())
            H.update(np.ascontiguousarray(it).tobytes())
        elif sparse.issparse(it):
            it = it.tocsc()
            feed('csc', np.asarray(it.shape), it.data, it.indices, it.indptr)
        elif isinstance(it, (list, tuple)):
            H.update(('[%d' % len(it)).encode())
            feed(*it)
            H.update(b']')
        else:
            H.update(repr(it).encode('utf8'))
        H.update(b'|')


CHARS = [chr(ord('a') + i) for i in range(26)] + ['ch', 'é', ' '] + [u'​']


def direct_cases():
    rng = np.random.RandomState(1234)
    n_cases = 0
    for rep in range(320):
        n = int(rng.choice([0, 1, 1, 2, 3, 5, 8]))
        c = int(rng.choice([1, 2, 3, 5, 30]))
        t = int(rng.choice([1, 2, 3, 7, 24, 61]))
        kind = rep % 8
        if kind == 0:      # continuous scores
            a = rng.randn(n, c, t) * 5
        elif kind == 1:    # heavy ties (small integer scores)
            a = rng.randint(0, 2, size=(n, c, t)).astype(float)
        elif kind == 2:    # everything equal -> argmax tie over all classes
            a = np.zeros((n, c, t))
        elif kind == 3:    # blank always wins
            a = rng.randn(n, c, t)
            a[:, -1, :] = 50
        elif kind == 4:    # same class along the whole line
            a = rng.randn(n, c, t) * 0.01
            a[:, 0, :] = 9
        elif kind == 5:    # magnitudes beyond the +-1000 sentinels of the old code
            a = rng.randn(n, c, t) * 1e4
        elif kind == 6:    # runs of repeated classes separated / not separated by blanks
            a = np.repeat(rng.randint(0, 3, size=(n, c, (t + 2) // 3)), 3, axis=2)[:, :, :t].astype(float)
        else:              # ties between blank and a character
            a = rng.randint(0, 2, size=(n, c, t)).astype(float)
            a[:, -1, :] = 1
        chars = CHARS[:c - 1] + [u'​']
        for dtype in (torch.float32, torch.float64):
            x = torch.from_numpy(a).to(dtype)
            before = x.clone()
            out = greedy_decode_ctc(x, chars)
            assert torch.equal(x, before), 'input scores were modified'
            feed(out)
            # non-contiguous layout (N,T,C storage viewed as N,C,T), as a network may return it
            y = torch.from_numpy(np.ascontiguousarray(a.transpose(0, 2, 1))).to(dtype).permute(0, 2, 1)
            out2 = greedy_decode_ctc(y, chars)
            assert out2 == out
            feed(out2)
            n_cases += 2
    # 2-D (unbatched) input: record the kind of failure / result
    for shape in [(5, 7), (1, 1), (3, 2)]:
        try:
            r = greedy_decode_ctc(torch.zeros(shape), CHARS)
        except Exception as e:  # noqa
            r = type(e).__name__
        feed(r)
    return n_cases


class QuantConv(torch.nn.Module):
    """Frame t of the output depends only on pixel columns 4t..4t+3 (bounded neighbourhood)."""

    def __init__(self, height, n_out, quant, seed):
        super().__init__()
        g = torch.Generator().manual_seed(seed)
        self.conv = torch.nn.Conv2d(3, n_out, kernel_size=(height, 4), stride=(1, 4), bias=True)
        with torch.no_grad():
            self.conv.weight.copy_(torch.randn(self.conv.weight.shape, generator=g) * 1.5)
            self.conv.bias.copy_(torch.randn(self.conv.bias.shape, generator=g) * 4)
            self.conv.bias[-1] += 6.0   # blank wins on the empty padding
        self.quant = quant

    def forward(self, x):
        y = self.conv(x).squeeze(2)     # N,C,T
        if self.quant > 0:
            y = torch.round(y * self.quant) / self.quant
        return y


def make_engine(tmp, name, height, n_chars, quant, seed, batch_size):
    chars = CHARS[:n_chars]
    model = torch.jit.script(QuantConv(height, n_chars + 1, quant, seed).eval())
    ckpt = os.path.join(tmp, name + '.pt')
    torch.jit.save(model, ckpt + '.cpu')
    cfg = dict(line_px_height=height, line_vertical_scale=1, checkpoint=name + '.pt', characters=chars,
               net_name='stub')
    jpath = os.path.join(tmp, name + '.json')
    with open(jpath, 'w', encoding='utf8') as f:
        json.dump(cfg, f)
    return PytorchEngineLineOCR(jpath, torch.device('cpu'), batch_size=batch_size)


def make_lines(rng, height, widths):
    lines = []
    for w in widths:
        img = np.zeros((height, w, 3), dtype=np.uint8)
        # blocky "glyphs": constant over runs of columns so that repeated classes occur
        x = 0
        while x < w:
            run = int(rng.choice([2, 4, 8, 12, 16]))
            img[:, x:x + run, :] = rng.randint(0, 256, size=(height, 1, 3))
            if rng.rand() < 0.3:
                img[:, x:x + run, :] = 0
            x += run
        lines.append(img)
    return lines


def engine_cases(tmp):
    rng = np.random.RandomState(99)
    height = 8
    n_cases = 0
    for bs in (1, 2, 3, 8, 16):
        for quant in (0, 2):
            eng = make_engine(tmp, 'stub_%d_%d' % (bs, quant), height, 12, quant, 7 + quant, bs)
            limit = eng.max_input_horizontal_pixels
            for rep in range(6):
                n = [0, 1, 2, 5, 9, 17][rep]
                widths = [int(rng.choice([1, 2, 3, 4, 5, 31, 32, 33, 64, 100, 250, limit - 65, limit - 64,
                                          limit - 63, limit, limit + 40])) for _ in range(n)]
                if rep == 4:
                    widths = [40] * n
                lines = make_lines(rng, height, widths)
                for kwargs in (dict(), dict(sparse_logits=False), dict(tight_crop_logits=True),
                               dict(no_logits=True)):
                    buf = io.StringIO()
                    with contextlib.redirect_stdout(buf):
                        tr, lg, co = eng.process_lines(lines, **kwargs)
                    feed(tr, lg, co, buf.getvalue())
                    n_cases += 1
    return n_cases


def main():
    torch.manual_seed(0)
    torch.set_num_threads(1)
    n1 = direct_cases()
    with tempfile.TemporaryDirectory() as tmp:
        n2 = engine_cases(tmp)
    print('direct decode cases: %d, engine process_lines calls: %d' % (n1, n2))
    print('DIGEST', H.hexdigest())
    return 0


if __name__ == '__main__':
    sys.exit(main())
