#!/usr/bin/env python
"""Differential test for C15 (stitching parts of an over-long line).

Run without arguments.  The first run (on the clean tree) writes reference.json next to
this file; later runs compare against it: texts / detected overlaps / shapes / dtypes
exactly, logits values with a tolerance (1e-6 relative+absolute for float32 data, 1e-9
for float64 data).  Prints MATCH (exit 0) or DIFFERENT: <what> (exit 1).
"""
import json
import os
import random
import sys

import numpy as np

from pero_ocr.ocr_engine.line_ocr_engine import merge_transcriptions_and_logits, find_best_overlap

HERE = os.path.dirname(os.path.abspath(__file__))
REFERENCE = os.path.join(HERE, 'reference.json')

ALPHABET = 'abcdefghij klmno'
SMALL_ALPHABET = 'ab '
ODD_ALPHABET = 'a \t\n\x00\xa0 b́'


def rand_text(rng, n, alphabet=ALPHABET):
    return ''.join(rng.choice(alphabet) for _ in range(n))


def noisy(rng, text, rate, alphabet=ALPHABET):
    out = []
    for ch in text:
        r = rng.random()
        if r < rate / 3:
            continue
        if r < 2 * rate / 3:
            out.append(rng.choice(alphabet))
            continue
        out.append(ch)
        if r < rate:
            out.append(rng.choice(alphabet))
    return ''.join(out)


def windows(rng, text, n_parts, alphabet, noise):
    """n_parts overlapping windows of text (overlap about a quarter of the window)."""
    if n_parts == 1:
        return [text]
    width = max(1, int(len(text) / (1 + 0.75 * (n_parts - 1))) + 1)
    step = max(1, width - max(1, width // 4))
    parts = []
    for k in range(n_parts):
        start = k * step
        end = len(text) if k == n_parts - 1 else start + width
        part = text[start:end]
        if noise:
            ov = max(1, width // 4)
            part = noisy(rng, part[:ov], noise, alphabet) + part[ov:len(part) - ov] + noisy(rng, part[len(part) - ov:], noise, alphabet) \
                if len(part) > 2 * ov else noisy(rng, part, noise, alphabet)
        parts.append(part)
    return parts


def make_cases():
    rng = random.Random(20240515)
    nprng = np.random.RandomState(515)
    cases = []

    def add(kind, parts, dtype=np.float32, extra=None, n_cols=None):
        n_cols = n_cols or rng.choice([1, 3, 6])
        logits = []
        for p in parts:
            rows = len(p) + (rng.choice([0, 0, 1, 5]) if extra is None else extra)
            logits.append((nprng.randn(rows, n_cols) * 7).astype(dtype))
        cases.append((kind, list(parts), logits))

    # hand-made corner cases
    for parts in [[''], ['a'], ['abc'], ['', ''], ['', 'abc'], ['abc', ''], ['abc', '', 'cde'], ['', '', 'x', ''],
                  ['aaaa', 'aaaa'], ['aaaa', 'aa', 'aaaaaa'], ['abcabc', 'bc', 'cabcab'], ['abcdef', 'ghijkl'],
                  ['abcdef', 'efghij', 'ijklmn'], ['abcdef', 'f'], ['a', 'abcdef'], ['abcdef', 'abcdef'],
                  ['abcdefgh', 'h', 'h', 'hi'], ['abcabcabc', 'abcabc', 'abc', 'abcabcabcabc'],
                  ['ab cd', ' cd e', 'd e f'], ['a\tb', '\tb\n', 'b\n\x00', '\x00\x00'], ['xyz', 'zyx', 'xyz'],
                  ['abcdefgh', 'efgxij'], ['abcdefgh', 'gh', 'h', '', 'habc'], ['ab', 'ba', 'ab', 'ba', 'ab']]:
        for extra in (0, 3):
            add('hand', parts, extra=extra, n_cols=4)
    add('hand64', ['abcdef', 'efghij', 'ijklmn'], dtype=np.float64, n_cols=4)
    add('hand64', ['abc', '', 'abc'], dtype=np.float64, n_cols=2)

    # true overlapping windows of one text
    for _ in range(110):
        alphabet = rng.choice([ALPHABET, ALPHABET, SMALL_ALPHABET, ODD_ALPHABET])
        text = rand_text(rng, rng.randint(1, 60), alphabet)
        add('windows', windows(rng, text, rng.randint(1, 6), alphabet, 0.0))
    # windows with recognition noise in the overlaps
    for _ in range(110):
        alphabet = rng.choice([ALPHABET, ALPHABET, SMALL_ALPHABET, ODD_ALPHABET])
        text = rand_text(rng, rng.randint(4, 60), alphabet)
        add('noisy', windows(rng, text, rng.randint(2, 6), alphabet, rng.choice([0.2, 0.5, 0.9])))
    # unrelated strings
    for _ in range(70):
        alphabet = rng.choice([ALPHABET, SMALL_ALPHABET, ODD_ALPHABET])
        add('unrelated', [rand_text(rng, rng.randint(1, 14), alphabet) for _ in range(rng.randint(1, 6))])
    # empty parts anywhere
    for _ in range(70):
        alphabet = rng.choice([ALPHABET, SMALL_ALPHABET])
        text = rand_text(rng, rng.randint(1, 40), alphabet)
        parts = windows(rng, text, rng.randint(1, 5), alphabet, rng.choice([0.0, 0.3]))
        for _ in range(rng.randint(1, 3)):
            parts.insert(rng.randint(0, len(parts)), '')
        add('empties', parts)
    # float64 logits
    for _ in range(30):
        text = rand_text(rng, rng.randint(1, 40))
        add('windows64', windows(rng, text, rng.randint(1, 5), ALPHABET, rng.choice([0.0, 0.3])), dtype=np.float64)
    return cases


def make_overlap_pairs():
    rng = random.Random(77)
    pairs = [('', ''), ('', 'a'), ('a', ''), ('a', 'a'), ('a', 'b'), ('aaaa', 'aaaa'), ('abab', 'abab'), ('abcd', 'cdab'),
             ('abcabc', 'bcabca'), ('xxab', 'abxx'), ('abcde', 'cdXe'), ('ab', 'ba'), ('aab', 'abb'), (' \t', '\t '),
             ('\x00a', 'a\x00'), ('abcdefghij', 'ghijklmnop'), ('abcdefghij', 'ghiXklmnop'), ('aaaaab', 'baaaaa')]
    for _ in range(300):
        alphabet = rng.choice([ALPHABET, SMALL_ALPHABET, SMALL_ALPHABET, ODD_ALPHABET])
        a = rand_text(rng, rng.randint(0, 25), alphabet)
        if rng.random() < 0.6 and a:
            k = rng.randint(1, len(a))
            b = noisy(rng, a[-k:], rng.choice([0.0, 0.2, 0.6]), alphabet) + rand_text(rng, rng.randint(0, 12), alphabet)
        else:
            b = rand_text(rng, rng.randint(0, 25), alphabet)
        pairs.append((a, b))
    return pairs


def run():
    results = {'merge': [], 'overlap': []}
    for kind, parts, logits in make_cases():
        parts_before = list(parts)
        logits_before = [l.copy() for l in logits]
        text, merged = merge_transcriptions_and_logits(parts, logits)
        untouched = parts == parts_before and all(np.array_equal(a, b) for a, b in zip(logits, logits_before))
        merged = np.asarray(merged)
        results['merge'].append({
            'kind': kind, 'parts': parts, 'text': text, 'shape': list(merged.shape), 'dtype': str(merged.dtype),
            'inputs_untouched': bool(untouched), 'logits': merged.astype(np.float64).tolist()})
    for a, b in make_overlap_pairs():
        results['overlap'].append({'a': a, 'b': b, 'overlap': int(find_best_overlap(a, b))})
    return results


def compare(ref, new):
    for key in ('merge', 'overlap'):
        if len(ref[key]) != len(new[key]):
            return '%s: number of cases %d != %d' % (key, len(ref[key]), len(new[key]))
    for i, (r, n) in enumerate(zip(ref['overlap'], new['overlap'])):
        if r != n:
            return 'find_best_overlap case %d (%r, %r): %r != %r' % (i, r['a'], r['b'], r['overlap'], n['overlap'])
    for i, (r, n) in enumerate(zip(ref['merge'], new['merge'])):
        where = 'merge case %d (%s, parts %r)' % (i, r['kind'], r['parts'])
        for field in ('parts', 'text', 'shape', 'dtype', 'inputs_untouched'):
            if r[field] != n[field]:
                return '%s: %s %r != %r' % (where, field, r[field], n[field])
        tol = 1e-6 if r['dtype'] == 'float32' else 1e-9
        a = np.asarray(r['logits'], dtype=np.float64).reshape(r['shape'])
        b = np.asarray(n['logits'], dtype=np.float64).reshape(n['shape'])
        if not np.allclose(a, b, rtol=tol, atol=tol * 1e-3, equal_nan=True):
            return '%s: logits differ by up to %g' % (where, float(np.max(np.abs(a - b))))
    return None


def main():
    new = run()
    if not os.path.exists(REFERENCE):
        with open(REFERENCE, 'w', encoding='utf8') as f:
            json.dump(new, f)
        print('reference written to %s (%d merge cases, %d overlap cases)' % (REFERENCE, len(new['merge']), len(new['overlap'])))
        return 0
    with open(REFERENCE, 'r', encoding='utf8') as f:
        ref = json.load(f)
    new = json.loads(json.dumps(new))
    problem = compare(ref, new)
    if problem is None:
        print('MATCH')
        return 0
    print('DIFFERENT: ' + problem)
    return 1


if __name__ == '__main__':
    sys.exit(main())
