#!/usr/bin/env python
"""Differential test for property C18 (layout decoding of detection maps).

Run without arguments.  The first run (on the clean tree) writes
`reference.json` next to this file; later runs recompute everything and compare
against that file with explicit tolerances:

  (|ref| below is the largest coordinate magnitude of the compared line /
   outline / polygon / height pair, i.e. the tolerance is relative to the
   scale of the object, never smaller than for a one pixel object)
  * float64 results (baselines, rotated baselines)      : 1e-9 * max(1, |ref|)
  * float32 results (heights, text line outlines - also where a 180 degree
    rotation returns them in a float64 container; the heights may come back
    as float32 or as plain float scalars, only their values are compared) and
    region polygons (derived from the float32 outlines)  : 1e-6 * max(1, |ref|)
  * region polygons whose vertex list differs (start vertex / orientation /
    redundant vertices are not fixed by the statement) are compared as point
    sets: area of the symmetric difference <= 1e-6 * area.
  * the list of regions is compared as a set (its order follows a randomly
    tie-broken left-to-right sort inside the library).

Prints `MATCH` (exit 0) or `DIFFERENT: <what>` (exit 1).
"""
import contextlib
import io
import json
import os
import random
import sys
import warnings

import numpy as np

warnings.filterwarnings('ignore')

from pero_ocr.layout_engines import cnn_layout_engine as cle  # noqa: E402
from pero_ocr.layout_engines import layout_helpers as helpers  # noqa: E402

HERE = os.path.dirname(os.path.abspath(__file__))
REFERENCE = os.path.join(HERE, 'reference.json')

TOL32 = 1e-6
TOL64 = 1e-9


# --------------------------------------------------------------------------- #
# engine with the heavy network part replaced
# --------------------------------------------------------------------------- #
class _FakeParseNet(object):
    def __init__(self, *args, **kwargs):
        self.maps = None
        self.ds = None

    def get_maps_with_optimal_resolution(self, image):
        return self.maps.copy(), self.ds


def make_engine(**kwargs):
    original = cle.TorchParseNet
    cle.TorchParseNet = _FakeParseNet
    try:
        with contextlib.redirect_stdout(io.StringIO()):
            return cle.LayoutEngine('no-model', 'cpu', **kwargs)
    finally:
        cle.TorchParseNet = original


# --------------------------------------------------------------------------- #
# synthetic maps
# --------------------------------------------------------------------------- #
def make_maps(rng, case_id):
    height = int(rng.integers(60, 150))
    width = int(rng.integers(70, 220))
    if height == width:
        width += 7
    dtype = np.float64 if case_id % 7 == 3 else np.float32
    maps = np.zeros((height, width, 5), dtype=np.float64)

    max_lines = max(1, (height - 24) // 16)
    n_lines = int(rng.integers(1, min(6, max_lines) + 1))
    # vertical positions at least 15 px apart
    ys = [12 + int(rng.integers(0, 4))]
    for _ in range(n_lines - 1):
        ys.append(ys[-1] + 15 + int(rng.integers(0, 6)))
    ys = [y for y in ys if y < height - 12]

    endpoints = case_id % 2 == 0
    noisy_heights = case_id % 3 == 0
    thick = case_id % 5 == 1
    for y0 in ys:
        length_kind = rng.integers(0, 4)
        if length_kind == 0:
            length = int(rng.integers(6, 12))      # shortest admissible ridges
        elif length_kind == 1:
            length = int(rng.integers(12, 40))
        else:
            length = int(rng.integers(40, width - 12))
        length = min(length, width - 12)
        x0 = int(rng.integers(4, width - length - 4))
        if rng.integers(0, 5) == 0:
            x0 = 2                                  # decoded baseline starts at x == 0
        x1 = x0 + length
        slope = float(rng.choice([0.0, 0.0, 0.03, -0.03, 0.08, -0.08]))
        if abs(slope) * length > 5:
            slope = np.sign(slope) * 5.0 / length
        asc = float(rng.integers(2, 12)) if not noisy_heights else float(rng.uniform(0.2, 12))
        desc = float(rng.integers(1, 6)) if not noisy_heights else float(rng.uniform(0.2, 6))
        strength = 1.0 if case_id % 4 else float(rng.uniform(0.7, 1.0))
        for x in range(x0, x1):
            y = int(round(y0 + slope * (x - x0)))
            maps[y, x, 2] = strength
            if thick:
                maps[y - 1, x, 2] = max(maps[y - 1, x, 2], 0.5 * strength)
                maps[y + 1, x, 2] = max(maps[y + 1, x, 2], 0.5 * strength)
            for dy in range(-3, 4):
                if noisy_heights:
                    maps[y + dy, x, 0] = asc + rng.uniform(-0.2, 0.2)
                    maps[y + dy, x, 1] = desc + rng.uniform(-0.2, 0.2)
                else:
                    maps[y + dy, x, 0] = asc
                    maps[y + dy, x, 1] = desc
        if endpoints:
            for xe in (x0 - 1, x1):
                maps[y0 - 2:y0 + 3, max(xe - 1, 0):xe + 2, 3] = 1.0
    sep_kind = case_id % 6
    if sep_kind == 1:
        maps[:, :, 4] = rng.uniform(-0.1, 0.1, size=(height, width))
    elif sep_kind == 2 and len(ys) > 1:
        y_sep = (ys[0] + ys[1]) // 2
        maps[y_sep - 1:y_sep + 2, :, 4] = 1.0
    ds = int(rng.integers(1, 9))
    return maps.astype(dtype), ds


# --------------------------------------------------------------------------- #
# serialisation helpers
# --------------------------------------------------------------------------- #
def pack(value):
    arr = np.asarray(value)
    if arr.dtype == object:
        raise TypeError('ragged value')
    kind = 'float32' if arr.dtype == np.float32 else ('float64' if arr.dtype.kind == 'f' else str(arr.dtype))
    return {'dtype': kind, 'shape': list(arr.shape), 'data': [float(v) for v in arr.ravel().tolist()]}


def pack_list(values):
    return [pack(v) for v in values]


def pack_heights(h_list):
    out = []
    for pair in h_list:
        dtypes = {np.asarray(v).dtype for v in pair}
        dtype = np.float32 if dtypes == {np.dtype(np.float32)} else np.float64
        out.append(pack(np.asarray([float(v) for v in pair], dtype=dtype)))
    return out


def run(func):
    np.random.seed(1234)
    random.seed(1234)
    try:
        with contextlib.redirect_stdout(io.StringIO()):
            return func()
    except Exception as exc:  # recorded, compared by type
        return {'error': type(exc).__name__}


# --------------------------------------------------------------------------- #
# the experiments
# --------------------------------------------------------------------------- #
def experiment_textline(rng, index):
    n = int(rng.integers(2, 12))
    kind = index % 6
    if kind == 0:      # integer pixel grid scaled by the down-sampling factor, like parse()
        ds = int(rng.integers(1, 9))
        xs = np.sort(rng.choice(np.arange(0, 600), size=n, replace=False))
        y0 = int(rng.integers(0, 400))
        ys = y0 + np.cumsum(rng.integers(-1, 2, size=n))
        baseline = ds * np.stack([xs, ys], axis=1).astype(float)
    elif kind == 1:    # exactly horizontal
        baseline = np.stack([np.arange(n) * 37.0 + float(rng.integers(0, 3)),
                             np.full(n, float(rng.integers(0, 900)))], axis=1)
    elif kind == 2:    # arbitrary floats
        baseline = rng.uniform(-50, 4000, size=(n, 2))
        baseline = baseline[np.argsort(baseline[:, 0])]
    elif kind == 3:    # vertical / right-to-left / repeated points
        baseline = rng.integers(0, 4, size=(n, 2)).astype(float) * 25.0
    elif kind == 4:    # integer dtype input
        baseline = np.stack([np.sort(rng.integers(0, 2000, size=n)), rng.integers(0, 2000, size=n)], axis=1)
    else:              # two-point baselines
        baseline = rng.uniform(0, 3000, size=(2, 2))
    if index % 4 == 0:
        heights = [float(rng.integers(0, 50)), float(rng.integers(0, 30))]
    elif index % 4 == 1:
        heights = [np.float32(rng.uniform(0, 60)), np.float32(rng.uniform(0, 30))]
    else:
        heights = [float(rng.uniform(0, 60)), float(rng.uniform(0, 30))]
    baseline_before = baseline.copy()
    result = run(lambda: {'t': pack(helpers.baseline_to_textline(baseline, heights))})
    result['input_untouched'] = bool(np.array_equal(baseline, baseline_before)
                                     and baseline.dtype == baseline_before.dtype)
    return result


def experiment_parse(rng, index):
    maps, ds = make_maps(rng, index)
    engine = make_engine(smooth_line_predictions=(index % 8 != 5),
                         line_end_weight=1.0 if index % 9 else 0.5)

    def call():
        b_list, h_list, t_list = engine.parse(maps.copy(), ds)
        return {'n': len(b_list), 'b': pack_list(b_list), 'h': pack_heights(h_list), 't': pack_list(t_list)}
    return run(call)


def experiment_detect(rng, index):
    maps, ds = make_maps(rng, 1000 + index)
    rot = index % 4
    engine = make_engine()
    engine.parsenet.maps = maps
    engine.parsenet.ds = ds
    rotated_shape = (maps.shape[0] * ds, maps.shape[1] * ds, 3)
    # the page that, rotated `rot` times counter-clockwise, has the shape of the maps
    image = np.rot90(np.zeros(rotated_shape, dtype=np.uint8), k=-rot)

    def call():
        p_list, b_list, h_list, t_list = engine.detect(image, rot=rot)
        return {'n': len(b_list), 'rot': rot, 'b': pack_list(b_list), 'h': pack_heights(h_list),
                't': pack_list(t_list), 'p': pack_list(p_list)}
    return run(call)


def experiment_rotate(rng, index):
    engine = make_engine()
    rot = index % 4
    shape = (int(rng.integers(50, 900)), int(rng.integers(50, 900)), 3)
    n_lines = int(rng.integers(0, 4))
    b_list = [rng.integers(0, 800, size=(int(rng.integers(2, 8)), 2)).astype(float) for _ in range(n_lines)]
    t_list = [rng.uniform(0, 800, size=(int(rng.integers(4, 12)), 2)).astype(np.float32) for _ in range(n_lines)]
    p_list = [rng.uniform(0, 800, size=(int(rng.integers(4, 9)), 2)) for _ in range(max(n_lines - 1, 0))]

    def call():
        p_out, b_out, t_out = engine.rotate_layout(p_list, b_list, t_list, rot, shape)
        return {'b': pack_list(b_out), 't': pack_list(t_out), 'p': pack_list(p_out)}
    return run(call)


def compute():
    results = {}
    rng = np.random.default_rng(20240518)
    for i in range(360):
        results['textline_%03d' % i] = experiment_textline(rng, i)
    rng = np.random.default_rng(777)
    for i in range(160):
        results['parse_%03d' % i] = experiment_parse(rng, i)
    rng = np.random.default_rng(4242)
    for i in range(200):
        results['detect_%03d' % i] = experiment_detect(rng, i)
    rng = np.random.default_rng(99)
    for i in range(40):
        results['rotate_%03d' % i] = experiment_rotate(rng, i)
    return results


# --------------------------------------------------------------------------- #
# tolerant comparison
# --------------------------------------------------------------------------- #
def compare_packed(ref, new, force_tol=None, allow_precision_change=False):
    if ref['shape'] != new['shape']:
        return 'shape %s vs %s' % (ref['shape'], new['shape'])
    dtypes = {ref['dtype'], new['dtype']}
    if len(dtypes) > 1 and not (allow_precision_change and dtypes == {'float32', 'float64'}):
        return 'dtype %s vs %s' % (ref['dtype'], new['dtype'])
    tol = force_tol if force_tol is not None else (TOL32 if 'float32' in dtypes else TOL64)
    a = np.asarray(ref['data'], dtype=np.float64)
    b = np.asarray(new['data'], dtype=np.float64)
    if a.size == 0:
        return None
    if np.isnan(a).any() or np.isnan(b).any():
        if not np.array_equal(np.isnan(a), np.isnan(b)):
            return 'NaN pattern differs'
        a, b = np.nan_to_num(a), np.nan_to_num(b)
    # tolerance relative to the magnitude of the object's coordinates (at least one pixel): outline
    # coordinates are differences of baseline coordinates and heights, so a coordinate close to zero
    # still carries the float32 round-off of its (much larger) operands
    excess = np.abs(a - b) - tol * max(1.0, float(np.abs(a).max()))
    if (excess > 0).any():
        k = int(np.argmax(excess))
        return 'value %r vs %r (tol %g)' % (a[k], b[k], tol)
    return None


def polygons_equivalent(ref, new):
    """Same region as a point set (vertex list representation left open)."""
    import shapely.geometry as sg
    pa = sg.Polygon(np.asarray(ref['data']).reshape(ref['shape']))
    pb = sg.Polygon(np.asarray(new['data']).reshape(new['shape']))
    if not pa.is_valid:
        pa = pa.buffer(0)
    if not pb.is_valid:
        pb = pb.buffer(0)
    return pa.symmetric_difference(pb).area <= TOL32 * max(1.0, pa.area)


def compare_regions(ref_list, new_list):
    if len(ref_list) != len(new_list):
        return 'number of regions %d vs %d' % (len(ref_list), len(new_list))
    remaining = list(range(len(new_list)))
    for i, ref in enumerate(ref_list):
        found = None
        for j in remaining:
            if compare_packed(ref, new_list[j], force_tol=TOL32) is None or polygons_equivalent(ref, new_list[j]):
                found = j
                break
        if found is None:
            return 'region %d has no counterpart' % i
        remaining.remove(found)
    return None


def compare(reference, results):
    if sorted(reference) != sorted(results):
        return 'set of experiments differs'
    for name in sorted(reference):
        ref, new = reference[name], results[name]
        if sorted(ref) != sorted(new):
            return '%s: keys %s vs %s' % (name, sorted(ref), sorted(new))
        for key in sorted(ref):
            if key in ('error', 'n', 'rot', 'input_untouched'):
                if ref[key] != new[key]:
                    return '%s/%s: %r vs %r' % (name, key, ref[key], new[key])
            elif key == 'p':
                problem = compare_regions(ref[key], new[key])
                if problem:
                    return '%s/p: %s' % (name, problem)
            elif isinstance(ref[key], list):
                if len(ref[key]) != len(new[key]):
                    return '%s/%s: %d vs %d items' % (name, key, len(ref[key]), len(new[key]))
                for idx, (r, n) in enumerate(zip(ref[key], new[key])):
                    # heights are returned as a list of two scalars per line; whether these scalars are
                    # np.float32 or python floats is not fixed by the statement, only their values are
                    # outlines are float32 data even where the rotation by 180 degrees hands them back in a
                    # float64 container (integer page size minus float32 outline)
                    problem = compare_packed(r, n, allow_precision_change=(key == 'h'),
                                             force_tol=TOL32 if key == 't' else None)
                    if problem:
                        return '%s/%s[%d]: %s' % (name, key, idx, problem)
            else:
                problem = compare_packed(ref[key], new[key])
                if problem:
                    return '%s/%s: %s' % (name, key, problem)
    return None


def main():
    results = compute()
    n_err = sum(1 for v in results.values() if 'error' in v)
    n_lines = sum(v.get('n', 0) for v in results.values())
    print('experiments: %d, raised: %d, decoded lines: %d' % (len(results), n_err, n_lines))
    if not os.path.exists(REFERENCE):
        with open(REFERENCE, 'w') as f:
            json.dump(results, f)
        print('reference written to %s' % REFERENCE)
        print('MATCH')
        return 0
    with open(REFERENCE) as f:
        reference = json.load(f)
    problem = compare(reference, results)
    if problem is None:
        exact = json.dumps(reference, sort_keys=True) == json.dumps(results, sort_keys=True)
        print('bit-identical to reference: %s' % exact)
        print('MATCH')
        return 0
    print('DIFFERENT: %s' % problem)
    return 1


if __name__ == '__main__':
    sys.exit(main())
