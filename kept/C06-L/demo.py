"""Differential demo for change L (ArabicHelper._reverse rewritten over index runs).

Prints a digest over the results of all public order conversions of ArabicHelper on
exhaustive short strings, random mixed strings and the strings of the unit tests, and
over ALTO exports (+ re-imports) of pages with Arabic / mixed / Latin lines.
"""
import hashlib
import itertools
import logging
import random

import numpy as np
import scipy.sparse

logging.disable(logging.CRITICAL)

from pero_ocr.core import layout
from pero_ocr.core.arabic_helper import ArabicHelper, ArabicHelperTest

H = hashlib.sha256()


def feed(*items):
    for it in items:
        H.update(repr(it).encode('utf-8'))
        H.update(b'|')


helper = ArabicHelper()
CONVERSIONS = ['string_to_label_form', 'label_form_to_string', 'visual_form_to_string',
               'string_to_visual_form', 'label_form_to_visual_form', 'visual_form_to_label_form']

n_strings = 0
n_not_involutive = 0
n_not_permutation = 0


def check(text, h=helper):
    global n_strings, n_not_involutive, n_not_permutation
    n_strings += 1
    for name in CONVERSIONS:
        feed(name, getattr(h, name)(text))
    once = h.label_form_to_string(text)
    twice = h.label_form_to_string(once)
    feed(once, twice, h._reverse(text))
    # these two counters are informative only (they are part of the digest, too)
    n_not_involutive += twice != text
    n_not_permutation += sorted(once) != sorted(text)


# ---------------------------------------------------------------- 1. exhaustive short strings
SMALL = ['ا', 'ب', 'a', '1', ' ', '.', '،', '%']
for n in range(0, 6):
    for combo in itertools.product(SMALL, repeat=n):
        check(''.join(combo))

# ---------------------------------------------------------------- 2. strings of the unit tests
for i in range(1, 14):
    for kind in ('string', 'labels', 'visual'):
        check(getattr(ArabicHelperTest, '{}_{}'.format(kind, i)))

# ---------------------------------------------------------------- 3. random mixed strings
pyrng = random.Random(2024)
ARABIC_LETTERS = list('ابتثجحخدذرزسشصضطظعغفقكلمنهويءآأؤإئةىپچژگ')
PRESENTATION = list('ﻥﺩﺎﻌﻤﻟﺍﺕﻳﺮﺼﺑﻲﻓﻡﺪﺨﺘﺳﻻﷲﻷ')
LATIN = list('abcXYZqé')
DIGITS = list('0123456789')
ARABIC_DELIMS = ['،', 'ً', 'ّ', '»']
DELIMS = [' ', ',', '-', '.', '"', ':']
OTHER = ['(', ')', '/', '%', '@', '«', '؟', '!', '‍', '\t', ' ', ' ', '　', 'ـ']


def random_token():
    r = pyrng.random()
    n = pyrng.randint(1, 6)
    if r < 0.35:
        return ''.join(pyrng.choice(ARABIC_LETTERS) for _ in range(n))
    if r < 0.45:
        return ''.join(pyrng.choice(PRESENTATION) for _ in range(n))
    if r < 0.65:
        return ''.join(pyrng.choice(LATIN) for _ in range(n))
    if r < 0.80:
        return ''.join(pyrng.choice(DIGITS + ['.', ',', '/']) for _ in range(n))
    if r < 0.90:
        return ''.join(pyrng.choice(ARABIC_DELIMS + DELIMS) for _ in range(pyrng.randint(1, 3)))
    return ''.join(pyrng.choice(OTHER) for _ in range(pyrng.randint(1, 2)))


def random_text():
    parts = []
    for _ in range(pyrng.randint(1, 8)):
        parts.append(random_token())
        if pyrng.random() < 0.8:
            parts.append(pyrng.choice([' ', ' ', ' ', '  ', ', ', '، ', ' - ', '']))
    t = ''.join(parts)
    r = pyrng.random()
    if r < 0.2:
        t = pyrng.choice(DELIMS + ARABIC_DELIMS + OTHER) * pyrng.randint(1, 3) + t
    elif r < 0.4:
        t = t + pyrng.choice(DELIMS + ARABIC_DELIMS + OTHER) * pyrng.randint(1, 3)
    elif r < 0.5:
        t = ' ' + t + '. '
    return t


random_texts = [random_text() for _ in range(3000)]
for t in random_texts:
    check(t)

# a helper whose public delimiter lists were edited after construction
edited = ArabicHelper()
edited.delimiters.append('/')
edited.arabic_delimiters.append('؟')
edited.forward_mapping['%'] = ['%', '', '', '']
for t in random_texts[:500]:
    check(t, edited)

# is_arabic_line / ligatures_mapping are untouched, but cheap to include
for t in random_texts[:500]:
    feed(helper.is_arabic_line(t), helper.ligatures_mapping(t))

# ---------------------------------------------------------------- 4. ALTO export of Arabic / mixed lines
rng = np.random.RandomState(7)
CHARSET = list('abcXYZ0123456789.,-:"') + [' '] + ARABIC_LETTERS + ARABIC_DELIMS
BLANKS = [' ', ' ', '  ', ' ', '\t', ' ', '　']


def page_transcription(i):
    words = []
    for _ in range(pyrng.randint(1, 6)):
        r = pyrng.random()
        n = pyrng.randint(1, 5)
        if i % 4 != 3 and r < 0.6:
            w = ''.join(pyrng.choice(ARABIC_LETTERS) for _ in range(n))
            if pyrng.random() < 0.3:
                w = pyrng.choice(['(', '«', '"', '']) + w + pyrng.choice(['،', '.', ')', ':', '؟'])
        elif r < 0.8:
            w = ''.join(pyrng.choice('abcXYZq') for _ in range(n)) + pyrng.choice(['', '.', ',', '!'])
        else:
            w = ''.join(pyrng.choice('0123456789./%-') for _ in range(n))
        words.append(w)
    t = words[0]
    for w in words[1:]:
        t += pyrng.choice(BLANKS) + w
    if i % 5 == 1:
        t = ' ' + t
    if i % 5 == 2:
        t = t + pyrng.choice(BLANKS)
    return t


def make_logits(transcription, mode):
    C = len(CHARSET) + 1
    blank = C - 1
    if mode == 'absent':
        return None, None
    labels = [CHARSET.index(c) if c in CHARSET else 0 for c in transcription]
    frames = []
    for lab in labels:
        frames += [lab] * pyrng.randint(1, 2) + [blank] * pyrng.randint(1, 2)
    if mode == 'short':
        frames = frames[:max(1, len(labels) // 2)]
    T = len(frames)
    x = rng.randn(T, C) * (0.3 if mode == 'diffuse' else 1.0)
    x[np.arange(T), frames] += (0.5 if mode == 'diffuse' else 12.0)
    coords = [None, None] if mode == 'unknown_window' else [0, T]
    return scipy.sparse.csc_matrix(x.astype(np.float32)), coords


MODES = ['peaky', 'absent', 'diffuse', 'short', 'unknown_window']
n_lines = 0
for p in range(60):
    page = layout.PageLayout(id='arabic_{}'.format(p), page_size=(1000, 800))
    for r in range(2):
        x0, y0 = 30, 40 + 450 * r
        region = layout.RegionLayout('r{}'.format(r), np.array([[x0, y0], [x0 + 700, y0], [x0 + 700, y0 + 400], [x0, y0 + 400]]))
        for l in range(pyrng.randint(1, 4)):
            i = p * 8 + r * 4 + l
            t = page_transcription(i)
            mode = MODES[i % len(MODES)]
            logits, coords = make_logits(t, mode)
            yb = y0 + 50 + 80 * l
            baseline = np.array([[x0 + 10, yb], [x0 + 300, yb + 2], [x0 + 600, yb]])
            heights = [25, 8]
            polygon = np.concatenate([baseline - [0, heights[0]], (baseline + [0, heights[1]])[::-1]])
            line = layout.TextLine(id='l{}'.format(i), baseline=baseline, polygon=polygon, heights=heights,
                                   transcription=t, logits=logits,
                                   characters=None if logits is None else CHARSET + ['<blank>'],
                                   logit_coords=coords)
            region.lines.append(line)
            n_lines += 1
        page.regions.append(region)
    ocr_el = layout.create_ocr_processing_element(processing_datetime='2020-01-01T00:00:00')
    alto = page.to_altoxml_string(ocr_processing_element=ocr_el)
    feed(alto)
    back = layout.PageLayout()
    back.from_altoxml_string(alto)
    feed([[ln.transcription for ln in reg.lines] for reg in back.regions])

print('strings: {} (label->string->label differs from input for {}, not a permutation for {}), ALTO lines: {}'
      .format(n_strings, n_not_involutive, n_not_permutation, n_lines))
print('DIGEST', H.hexdigest())
