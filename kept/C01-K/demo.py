"""Differential demo for change K (vectorised 'points' serialisation in PAGE XML export).

Builds a few hundred small page layouts whose polygons / baselines are given in many
representations (float64/float32/float16/longdouble/int*/uint* arrays, non-contiguous views,
arrays with extra columns, lists, tuples, object arrays, empty arrays, ...), with ties (x.5),
negative values, -0.0, huge values, exports them to both PAGE versions, re-imports, re-exports
and prints one digest over everything observed.  No arguments; exit code 0.
"""
import collections
import hashlib
import re
import sys

import numpy as np
import lxml.etree as ET

from pero_ocr.core.layout import PageLayout, RegionLayout, TextLine, PAGEVersion

TS = re.compile(r"<(Created|LastChange)>[^<]*</(Created|LastChange)>")
H = hashlib.sha256()
N_CASES = 0
STATS = collections.Counter()


def note(*items):
    for it in items:
        H.update(repr(it).encode("utf-8", "surrogatepass"))
        H.update(b"\x00")


def strip_ts(xml):
    return TS.sub("", xml)


TEXTS = [None, "", "plain", " lead and trail ", "<a & b> \"q\" 'r'", "é combining", "שלום RTL",
         "astral \U0001d11e\U0001f600", "tab\tnewline", " nbsp "]


def special_values(rng, n):
    pool = np.array([0.5, 1.5, 2.5, -0.5, -1.5, -2.5, 0.0, -0.0, 0.49999999999999994, 2 ** 52 + 0.0, 2 ** 53 + 2.0,
                     -2 ** 53 - 2.0, 1e15 + 0.5, 4503599627370497.0, 4503599627370495.5, 1e18, -1e18, 123456.5,
                     123457.5, 1e-320, -1e-320, 3.4999999, 3.5000001, 65504.0, -65503.5, 2.0 ** 62, -2.0 ** 62])
    if rng.integers(20) == 0:  # rarely: values beyond int64 (re-import yields object arrays -> not re-exportable)
        pool = np.array([1e19, -1e19, 1e22, 1e300, -1e300, 2.0 ** 63, 2.0 ** 64])
    return rng.choice(pool, size=n)


def make_points(rng, kind, n):
    """Return an (n, 2)-like point container in representation `kind`."""
    base = rng.uniform(-500, 3000, size=(n, 2))
    mode = rng.integers(0, 4)
    if mode == 0:
        base = np.round(base * 2) / 2  # many exact .5 ties
    elif mode == 1:
        base = special_values(rng, n * 2).reshape(n, 2)
    elif mode == 2:
        base = np.round(base)
    if kind == "f8":
        return base.astype(np.float64)
    if kind == "f4":
        return np.clip(base, -3e38, 3e38).astype(np.float32)
    if kind == "f2":
        return np.clip(base, -60000, 60000).astype(np.float16)
    if kind == "f16":
        return base.astype(np.longdouble)
    if kind in ("i8", "i4", "i2"):
        info = np.iinfo(kind)
        return np.clip(np.round(base), info.min, info.max).astype(kind)
    if kind in ("u8", "u2", "u1"):
        info = np.iinfo(kind)
        return np.clip(np.round(np.abs(base)), 0, float(info.max) if kind != "u8" else 2.0 ** 63).astype(kind)
    if kind == "u8big":
        a = np.full((n, 2), np.iinfo(np.uint64).max, dtype=np.uint64)
        a[:, 1] -= np.arange(n, dtype=np.uint64)
        return a
    if kind == "i8big":
        a = np.full((n, 2), np.iinfo(np.int64).min, dtype=np.int64)
        a[:, 0] += np.arange(n, dtype=np.int64)
        return a
    if kind == "fortran":
        return np.asfortranarray(base)
    if kind == "strided":
        wide = np.zeros((n * 2, 4))
        wide[::2, 1:3] = base
        return wide[::2, 1:3]
    if kind == "reversed":
        return base[::-1, ::-1]
    if kind == "cols3":
        return np.concatenate([base, rng.uniform(-9, 9, size=(n, 1))], axis=1)
    if kind == "cols3int":
        return np.concatenate([np.clip(np.round(base), -2 ** 31, 2 ** 31 - 1), np.ones((n, 1))], axis=1).astype(np.int32)
    if kind == "readonly":
        a = base.copy()
        a.setflags(write=False)
        return a
    if kind == "list":
        return base.tolist()
    if kind == "list_int":
        return [[int(round(x)), int(round(y))] for x, y in base.tolist()]
    if kind == "list_mixed":
        return [[int(round(x)), float(y)] for x, y in base.tolist()]
    if kind == "tuples":
        return tuple((float(x), float(y)) for x, y in base)
    if kind == "list_rows":
        return [row for row in base]
    if kind == "object":
        a = np.empty((n, 2), dtype=object)
        for i in range(n):
            a[i, 0] = int(round(base[i, 0])) + 10 ** 25
            a[i, 1] = float(base[i, 1])
        return a
    if kind == "bigint_list":
        return [[10 ** 30 + i, -(2 ** 70) - i] for i in range(n)]
    raise AssertionError(kind)


KINDS = ["f8", "f4", "f2", "f16", "i8", "i4", "i2", "u8", "u2", "u1", "i8big", "fortran", "strided",
         "reversed", "cols3", "cols3int", "readonly", "list", "list_int", "list_mixed", "tuples", "list_rows"]
RARE_KINDS = ["object", "bigint_list", "u8big", "u8big"]  # object/bigint: not exportable (before and after); u8big: not re-exportable


def pick_kind(rng):
    if rng.integers(80) == 0:
        return RARE_KINDS[int(rng.integers(len(RARE_KINDS)))]
    return KINDS[int(rng.integers(len(KINDS)))]


def snapshot(points):
    if isinstance(points, np.ndarray):
        return points.copy()
    return repr(points)


def same_snapshot(points, snap):
    if isinstance(points, np.ndarray):
        return points.dtype == snap.dtype and points.shape == snap.shape and \
            all(a == b or (a != a and b != b) for a, b in zip(points.ravel().tolist(), snap.ravel().tolist()))
    return repr(points) == snap


def build_page(rng, case_i):
    page = PageLayout(id="page_{}.jpg".format(case_i), page_size=(int(rng.integers(0, 5000)), int(rng.integers(0, 5000))))
    n_regions = int(rng.integers(0, 4))
    containers = []
    for r in range(n_regions):
        kind = pick_kind(rng)
        poly = make_points(rng, kind, int(rng.integers(3, 7)))
        region = RegionLayout("r{}".format(r), poly, region_type=[None, "paragraph", "heading"][int(rng.integers(3))])
        region.transcription = TEXTS[int(rng.integers(len(TEXTS)))]
        containers.append(poly)
        for l in range(int(rng.integers(0, 4))):
            bk = pick_kind(rng)
            pk = pick_kind(rng)
            baseline = make_points(rng, bk, int(rng.integers(2, 6)))
            polygon = make_points(rng, pk, int(rng.integers(3, 9)))
            containers += [baseline, polygon]
            heights = None if rng.integers(4) == 0 else [float(rng.uniform(0, 60)), float(rng.uniform(0, 30))]
            text = TEXTS[int(rng.integers(len(TEXTS)))]
            conf = None if rng.integers(3) == 0 else float(rng.uniform(0, 1))
            index = None if rng.integers(3) == 0 else int(rng.integers(0, 50))
            region.lines.append(TextLine(id="r{}-l{}".format(r, l), baseline=baseline, polygon=polygon, heights=heights,
                                         transcription=text, transcription_confidence=conf, index=index))
        page.regions.append(region)
    if n_regions and rng.integers(2):
        order = rng.permutation(n_regions)[: int(rng.integers(0, n_regions + 1))]
        page.reading_order = {"r{}".format(int(r)): i for i, r in enumerate(order)}
    return page, containers


def layout_summary(page):
    out = [page.id, tuple(page.page_size), page.reading_order]
    for region in page.regions:
        out.append((region.id, region.region_type, region.transcription,
                    str(np.asarray(region.polygon).dtype), np.asarray(region.polygon).tolist()))
        for line in region.lines:
            out.append((line.id, line.index, str(line.baseline.dtype), line.baseline.tolist(),
                        None if line.polygon is None else (str(line.polygon.dtype), line.polygon.tolist()),
                        None if line.heights is None else [round(float(h), 6) for h in line.heights],
                        line.transcription, line.transcription_confidence))
    return out


def run_page(page, containers):
    global N_CASES
    N_CASES += 1
    snaps = [snapshot(c) for c in containers]
    for version in (PAGEVersion.PAGE_2019_07_15, PAGEVersion.PAGE_2013_07_15):
        for validate_id in (False, True):
            stage = "export1"
            try:
                xml1 = strip_ts(page.to_pagexml_string(version=version, validate_id=validate_id))
                note(version.name, validate_id, xml1)
                stage = "import1"
                np.random.seed(1234)
                loaded = PageLayout()
                loaded.from_pagexml_string(xml1)
                if loaded.reading_order is not None and len(loaded.regions) > 0:
                    loaded.sort_regions_by_reading_order()
                note(layout_summary(loaded))
                stage = "export2"
                xml2 = strip_ts(loaded.to_pagexml_string(version=version))
                stage = "import2"
                np.random.seed(1234)
                loaded2 = PageLayout()
                loaded2.from_pagexml_string(xml2)
                stage = "export3"
                xml3 = strip_ts(loaded2.to_pagexml_string(version=version))
                note(xml2, xml2 == xml3)
                STATS["fixpoint" if xml2 == xml3 else "no_fixpoint"] += 1
            except Exception:
                # huge Python ints / object arrays are not exportable (before and after the change)
                note("raised at", stage)
                STATS["raised_" + stage] += 1
    # exporting must not modify (or re-type) the caller's coordinate containers
    note([same_snapshot(c, s) for c, s in zip(containers, snaps)])


def direct_region_cases(rng):
    """RegionLayout.to_page_xml on its own, incl. degenerate containers."""
    specials = [
        np.zeros((0, 2)), np.zeros((0, 2), dtype=np.int64), np.zeros((0,)), [], np.zeros((0, 3), dtype=np.float32),
        np.array([[0.5, 1.5]]), np.array([[-0.5, -1.5], [2.5, 3.5]]), np.array([[2 ** 62, -2 ** 62]]),
        np.array([[1e19, -1e19]]), np.array([[1.0, 2.0, 3.0]]), np.array([[True, False]]),
        np.array([[1 + 0j, 2 + 0j]]), np.array([[np.nan, 1.0]]), np.array([[1.0, np.inf]]),
        np.array([[1.0], [2.0]]), np.array([1.0, 2.0]), np.zeros((2, 2, 2)),
        np.ma.masked_array([[1.5, 2.5], [3.5, 4.5]]), np.array([["1", "2"]]),
    ]
    for kind in KINDS + RARE_KINDS:
        for _ in range(4):
            specials.append(make_points(rng, kind, int(rng.integers(1, 6))))
    for i, poly in enumerate(specials):
        global N_CASES
        N_CASES += 1
        root = ET.Element("Page")
        region = RegionLayout("reg{}".format(i), poly, region_type="paragraph")
        try:
            region.to_page_xml(root, validate_id=bool(i % 2))
            note("ok", ET.tostring(root).decode("utf-8"))
        except Exception:
            note("raised")


def main():
    rng = np.random.default_rng(20240601)
    for case_i in range(260):
        page, containers = build_page(rng, case_i)
        run_page(page, containers)
    direct_region_cases(rng)
    print("cases:", N_CASES, dict(sorted(STATS.items())))
    print("digest:", H.hexdigest())
    return 0


if __name__ == "__main__":
    sys.exit(main())
