"""Differential demo for change L (align_text: per-character frame selection).

Prints a digest of align_text() results (values, dtype, shape, ownership) on
several hundred small random inputs: continuous costs, heavily tied costs,
constant costs, +inf entries, float32 data, repeated labels, many frames per
character, T == number of labels, too few frames, blank among the labels,
blank at the first / last / negative index.
"""
import hashlib
import warnings

import numpy as np

from pero_ocr.core.force_alignment import align_text, force_align

warnings.simplefilter('ignore')

h = hashlib.sha256()
n_ok = 0
n_fail = 0


def record(tag, costs, labels, blank):
    global n_ok, n_fail
    costs_before = costs.copy()
    labels_before = labels.copy()
    try:
        res = align_text(costs, labels, blank)
        h.update('{}:{}:{}:{}:{}:{}\n'.format(
            tag, res.dtype, res.shape, res.tolist(), res.flags.writeable, res.base is None).encode())
        n_ok += 1
    except ValueError:
        h.update('{}:ValueError\n'.format(tag).encode())
        n_fail += 1
    # inputs must not be modified
    assert np.array_equal(costs, costs_before) and np.array_equal(labels, labels_before)


def random_costs(rng, T, C, mode):
    if mode == 0:      # continuous
        m = rng.random((T, C)) * 10
    elif mode == 1:    # few integer levels -> lots of ties
        m = rng.integers(0, 3, size=(T, C)).astype(float)
    elif mode == 2:    # all equal -> everything ties
        m = np.full((T, C), 0.75)
    elif mode == 3:    # proper neg-log-softmax, peaky
        z = rng.normal(size=(T, C)) * 4
        m = -(z - np.log(np.exp(z).sum(axis=1, keepdims=True)))
    elif mode == 4:    # ties + +inf entries
        m = rng.integers(0, 3, size=(T, C)).astype(float)
        m[rng.random((T, C)) < 0.2] = np.inf
    else:              # zeros of both signs and small integers
        m = rng.choice([0.0, -0.0, 1.0], size=(T, C))
    return m


rng = np.random.default_rng(55)

for case in range(900):
    C = int(rng.integers(2, 6))
    T = int(rng.integers(1, 25))
    blank = [0, C - 1, int(rng.integers(0, C)), -1][case % 4]
    kind = rng.random()
    if kind < 0.5:
        L = int(rng.integers(1, max(2, T // 3 + 1)))      # many frames per character
    elif kind < 0.8:
        L = int(rng.integers(1, (T + 1) // 2 + 1))
    elif kind < 0.9:
        L = T                                               # as many labels as frames
    else:
        L = int(rng.integers(1, T + 3))                     # possibly too many
    non_blank = [c for c in range(C) if c != blank % C]
    labels = [int(rng.choice(non_blank))]
    for _ in range(L - 1):
        if rng.random() < 0.4:
            labels.append(labels[-1])                       # immediate repeat
        else:
            labels.append(int(rng.choice(non_blank)))
    if rng.random() < 0.04:
        labels[int(rng.integers(0, L))] = blank             # blank among labels
    costs = random_costs(rng, T, C, case % 6)
    if case % 7 == 0:
        costs = costs.astype(np.float32)
    if case % 11 == 0:
        costs = np.asfortranarray(costs)
    record('at{}'.format(case), costs, np.array(labels), blank)

# long runs of one character, with the maximum at the start / middle / end / tied
for k, bump in enumerate([0, 7, 19, None]):
    costs = np.full((20, 3), 2.0)
    costs[:, 1] = 1.0
    if bump is not None:
        costs[bump % 20, 1] = 0.5
    record('run{}'.format(k), costs, np.array([1]), 0)
    record('run2_{}'.format(k), costs, np.array([1, 1]), 0)
    record('run3_{}'.format(k), costs, np.array([1, 2, 1]), 0)

# single frame, single label; hand-made suite-like cases
record('one', np.array([[3.0, 1.0]]), np.array([1]), 0)
record('one_f32', np.array([[3.0, 1.0]], dtype=np.float32), np.array([1]), 0)
record('short', np.zeros((3, 3)), np.array([1, 1]), 0)        # exactly enough frames
record('tooshort', np.zeros((2, 3)), np.array([1, 1]), 0)     # repeated labels need a blank

print('cases ok={} failed={}'.format(n_ok, n_fail))
print('digest', h.hexdigest())
