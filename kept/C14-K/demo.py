"""Differential demo for change K (sorted_cn_paths rewritten as prefix extension).

Prints a digest of: the networks built from many hypothesis sequences, their
pivots / best paths, and the full output of sorted_cn_paths (strings, exact
float reprs and ORDER, including ties) on built and on hand-made networks.
"""
import hashlib
import itertools
import math
import random

from pero_ocr.decoding.bag_of_hypotheses import BagOfHypotheses
from pero_ocr.decoding.confusion_networks import (
    add_hypothese, normalize_cn, produce_cn_from_boh, best_cn_path, get_pivot, sorted_cn_paths)

h = hashlib.sha256()
n_cases = 0


def feed(*objs):
    for o in objs:
        h.update(repr(o).encode('utf-8'))
        h.update(b'\x00')


def cn_repr(cn):
    # keep dict insertion order: it drives tie-breaking
    return [list(pos.items()) for pos in cn]


def check_paths(cn, normalized):
    global n_cases
    n_cases += 1
    if sum(1 for _ in itertools.islice(itertools.product(*[range(len(p)) for p in cn]), 5001)) > 5000:
        return
    paths = sorted_cn_paths(cn)
    feed('paths', paths, [type(p).__name__ for p in paths[:1]])
    n_expected = 1
    for pos in cn:
        n_expected *= len(pos)
    if cn:
        assert len(paths) == n_expected, (cn, paths)
        probs = [p for _, p in paths]
        assert all(a >= b for a, b in zip(probs, probs[1:]))
        if normalized:
            assert abs(sum(probs) - 1.0) < 1e-9
    else:
        assert paths == []


def run_sequence(hyps, with_lm):
    # direct add_hypothese, with a check after every step
    cn = []
    for transcript, score in hyps:
        cn = add_hypothese(cn, transcript, score)
        feed('cn', cn_repr(cn), get_pivot(cn), best_cn_path(cn))
        check_paths(cn, normalized=False)
    cn = normalize_cn(cn)
    feed('norm', cn_repr(cn), best_cn_path(cn))
    check_paths(cn, normalized=True)

    boh = BagOfHypotheses()
    for k, (transcript, score) in enumerate(hyps):
        if with_lm:
            boh.add(transcript, math.log(score), -0.25 * (k + 1))
        else:
            boh.add(transcript, math.log(score))
    for normalize in (True, False):
        cn = produce_cn_from_boh(boh, visual_weight=0.7, lm_weight=1.3, normalize=normalize)
        feed('boh', cn_repr(cn), best_cn_path(cn))
        check_paths(cn, normalized=normalize)


# --- single hypotheses read back as themselves
for t in ['', 'a', 'ab', 'abc', 'aaaa', 'abcab']:
    cn = normalize_cn(add_hypothese([], t, 0.37))
    paths = sorted_cn_paths(cn)
    feed('single', t, paths)
    assert paths == ([(t, 1.0)] if t else [])
    assert best_cn_path(cn) == t
    n_cases += 1

# --- hand-picked corner cases (prefixes / suffixes, empty, consecutive insertions)
corner = [
    ['abc', 'ab', 'a', ''],
    ['', 'a', 'ab', 'abc'],
    ['abc', 'bc', 'c'],
    ['b', 'aaab', 'baaa', 'baaab'],
    ['ac', 'abbbc', 'abc'],
    ['ab', 'xxxab', 'abyyy', 'axxxb'],
    ['abc', 'abc', 'abc'],
    ['abc', 'xyz', 'abz', 'xbc'],
    ['', '', 'a'],
    ['a', '', ''],
    ['ab', 'ba', 'ab', 'ba'],
]
for words in corner:
    for perm in itertools.islice(itertools.permutations(range(len(words))), 6):
        for scores in ([0.5] * len(words),                      # all ties
                       [0.1 * (k + 1) for k in range(len(words))],
                       [2.0 ** -k for k in range(len(words))]):
            hyps = [(words[k], scores[k]) for k in perm]
            run_sequence(hyps, with_lm=False)
            run_sequence(hyps, with_lm=True)

# --- random sequences over a small alphabet
rng = random.Random(1234)
for _ in range(250):
    n = rng.randint(1, 5)
    hyps = []
    for _ in range(n):
        length = rng.choice([0, 1, 2, 3, 3, 4, 5])
        transcript = ''.join(rng.choice('abc') for _ in range(length))
        score = rng.choice([0.25, 0.25, 0.5, 1.0, rng.uniform(0.01, 3.0)])
        hyps.append((transcript, score))
    run_sequence(hyps, with_lm=rng.random() < 0.5)

# --- hand-made networks: ties inside positions, None arcs in all places, int weights
hand_made = [
    [{'a': 0.5, 'b': 0.5}, {'c': 0.5, None: 0.5}],
    [{None: 0.5, 'b': 0.5}, {None: 0.5, 'c': 0.5}, {'d': 0.25, 'e': 0.25, 'f': 0.25, None: 0.25}],
    [{'a': 1.0}],
    [{None: 1.0}],
    [{None: 1.0}, {None: 1.0}],
    [{'a': 0.2, 'b': 0.3, 'c': 0.5}, {'x': 0.3, 'y': 0.3, 'z': 0.4}, {'q': 1.0}],
    [{'a': 1, 'b': 2}, {'c': 3, None: 1}],
    [{'ab': 0.6, '': 0.4}, {'c': 0.7, 'cd': 0.3}],
    [{'a': 0.1, 'b': 0.9}] * 6,
    [{'a': 1 / 3, 'b': 1 / 3, 'c': 1 / 3}] * 4,
]
for cn in hand_made:
    before = cn_repr(cn)
    paths = sorted_cn_paths(cn)
    assert cn_repr(cn) == before          # argument untouched
    feed('hand', paths)
    n_cases += 1

print('cases:', n_cases)
print('digest:', h.hexdigest())
