"""Differential test for the line confidences of pero_ocr.document_ocr.page_parser (property C16):
line_confident_enough, get_prob, PageParser.compute_line_confidence and PageDecoder.decode_line.

First run (no reference.json next to this file; must be the CLEAN tree) writes reference.json.
Later runs compare against it with explicit tolerances and print MATCH (exit 0) or DIFFERENT: <what> (exit 1).

Tolerances: confidences are compared with relative TOL = 1e-9 (float64 logits) / 1e-6 (float32 logits).
line_confident_enough only returns a bool, so (a) the confidence it thresholds is recovered by bisection over the
threshold and compared with TOL, (b) its verdicts on a grid of thresholds must be identical except for thresholds
that lie within TOL (relative) of that confidence, (c) the verdict must be monotone in the threshold.
"""
import json
import math
import os
import sys
import warnings

import numpy as np
import scipy.sparse

from pero_ocr.core.layout import TextLine
from pero_ocr.decoding.bag_of_hypotheses import BagOfHypotheses
from pero_ocr.document_ocr.page_parser import line_confident_enough, get_prob, PageParser, PageDecoder

warnings.simplefilter('ignore')
HERE = os.path.dirname(os.path.abspath(__file__))
REF = os.path.join(HERE, 'reference.json')
GRID = [-1.0, 0.0, 1e-12, 1e-6, 0.01, 0.1, 0.25, 0.5, 0.75, 0.9, 0.99, 0.999, 0.999999, 1.0, 1.5, math.inf]


def enc(x):
    x = float(x)
    if math.isnan(x):
        return 'nan'
    if math.isinf(x):
        return 'inf' if x > 0 else '-inf'
    return x


def dec(x):
    return float(x) if x in ('nan', 'inf', '-inf') else x


def call(f):
    try:
        return f()
    except Exception as e:  # only the type is recorded
        return 'EXC:' + type(e).__name__


def log_softmax64(x):
    x = np.asarray(x, dtype=np.float64)
    x = x - x.max(axis=1, keepdims=True)
    return x - np.log(np.exp(x).sum(axis=1, keepdims=True))


def logit_cases():
    rng = np.random.RandomState(1602)
    cases = []  # (name, tol, dense logits)

    def add(name, logits, tol=1e-9):
        cases.append((name, tol, logits))

    for n in range(160):
        T = int(rng.randint(1, 25))
        C = int(rng.randint(2, 12))
        scale = [0.3, 1.0, 5.0, 20.0][n % 4]
        logits = rng.randn(T, C) * scale
        kind = (n // 4) % 5
        if kind == 1:  # some frames (almost) one-hot
            for t in range(0, T, 2):
                logits[t, rng.randint(C)] += 60.0
        elif kind == 2:  # runs of the same best symbol, as a CTC network gives
            best = np.repeat(rng.randint(0, C, size=T), 3)[:T]
            logits[np.arange(T), best] += 3 * scale
        elif kind == 3:  # exact ties of the two best logits in a frame
            for t in range(T):
                i, j = rng.choice(C, 2, replace=False)
                logits[t, i] = logits[t, j] = logits[t].max() + 0.5
        elif kind == 4:  # already normalised log-probabilities
            logits = log_softmax64(logits)
        add('rand%d' % n, logits)
        if n % 8 == 0:  # the same matrix with a constant added to every logit / to the logits of every frame
            add('rand%d_plus_const' % n, logits + 37.5)
            add('rand%d_plus_frame_const' % n, logits + rng.randn(T, 1) * 10)

    # one-hot posteriors
    onehot = np.full((6, 5), -1000.0)
    onehot[np.arange(6), [0, 0, 4, 2, 2, 1]] = 0.0
    add('onehot', onehot)
    add('onehot_shifted', onehot + 123.0)
    add('single_frame', np.array([[0.1, 0.2, 0.3]]))
    add('single_symbol', np.zeros((4, 1)))
    add('uniform', np.zeros((3, 7)))
    add('underflow', np.array([[0.0, -745.0, -800.0], [-1.0, -1.0, -2000.0]]))
    add('big_values', np.array([[700.0, 710.0, 0.0], [1e4, 1e4 - 1.0, -1e4]]))
    add('int_logits', np.array([[1, 2, 3], [3, 3, 0]]))
    # float32 data: raw logits of small magnitude and normalised log-probabilities with the -80 floor
    for n in range(30):
        T = int(rng.randint(1, 20))
        C = int(rng.randint(2, 10))
        raw = rng.randn(T, C) * 1.5
        if n % 2:
            lp = log_softmax64(raw * 4)
            lp[lp < -6.0] = -80.0
            add('float32_norm%d' % n, lp.astype(np.float32), tol=1e-6)
        else:
            add('float32_raw%d' % n, raw.astype(np.float32), tol=1e-6)
    return cases


def bisect_confidence(logits):
    """sup of thresholds for which the line is confident enough (= the confidence that is thresholded)"""
    if not line_confident_enough(logits, -1.0):
        return 'never'
    lo, hi = -1.0, 2.0
    if line_confident_enough(logits, hi):
        return 'always'
    for _ in range(70):
        mid = 0.5 * (lo + hi)
        if line_confident_enough(logits, mid):
            lo = mid
        else:
            hi = mid
    return hi


class StubDecoder:
    def __call__(self, logits):
        boh = BagOfHypotheses()
        boh.add('DECODED', 0.0)
        return boh


def make_line(logits, sparse):
    if sparse:
        logits = np.array(logits, copy=True)
        logits[logits < -12.0] = 0  # below the floor -> implicit zero of the sparse matrix -> -80 when densified
        stored = scipy.sparse.csc_matrix(logits)
    else:
        stored = _Dense(logits)
    return TextLine(id='l', transcription='KEPT', logits=stored)


class _Dense:
    """dense logits with the .toarray() interface get_dense_logits() relies on"""
    def __init__(self, a):
        self.a = np.array(a, copy=True)
        self.shape = self.a.shape

    def toarray(self):
        return np.array(self.a, copy=True)


def run():
    out = {}
    tols = {}
    for name, tol, logits in logit_cases():
        res = {}
        before = np.array(logits, copy=True)
        res['conf'] = call(lambda: bisect_confidence(logits))
        res['grid'] = call(lambda: [bool(line_confident_enough(logits, t)) for t in GRID])
        if isinstance(res['grid'], list):
            res['monotone'] = all(a >= b for a, b in zip(res['grid'], res['grid'][1:]))
        res['returns_bool'] = call(lambda: isinstance(line_confident_enough(logits, 0.5), (bool, np.bool_)))
        res['input_untouched'] = bool(np.array_equal(before, logits))
        if np.asarray(logits).dtype.kind == 'f':
            for sparse in (False, True):
                line = make_line(logits, sparse)
                key = 'sparse' if sparse else 'dense'
                c = call(lambda: PageParser.compute_line_confidence(line))
                res['line_conf_' + key] = c if isinstance(c, str) else enc(c)
                # decode_line: confident lines keep their transcription, the others are decoded
                dec_res = []
                for thr in (None, 0.0, 0.3, 0.6, 0.9, math.inf):
                    pd = PageDecoder(StubDecoder(), line_confidence_threshold=thr)
                    dec_res.append(call(lambda: pd.decode_line(line)))
                res['decode_' + key] = dec_res
        out[name] = res
        tols[name] = tol

    # get_prob directly (pure selection of elements: compared with the float64 tolerance as well)
    rng = np.random.RandomState(1603)
    for n in range(150):
        T = int(rng.randint(0, 30))
        ids = np.repeat(rng.randint(0, 4, size=T + 1), rng.randint(1, 4, size=T + 1))[:T]
        probs = rng.rand(T)
        if n % 5 == 0:
            probs = np.round(probs, 1)  # ties
        if n % 7 == 0 and T:
            probs[rng.randint(T)] = 1.0
        if n % 11 == 0:
            probs = np.minimum(1.0, probs + 0.9)  # nearly everything is 1
        if n % 13 == 0 and T:
            ids[:int(rng.randint(1, T + 1))] = -1  # -1 is the initial id of the scan
        if n % 3 == 0:
            probs = probs.astype(np.float32)
        r = call(lambda: get_prob(ids, probs))
        out['get_prob%d' % n] = {'value': r if isinstance(r, str) else enc(r)}
        tols['get_prob%d' % n] = 1e-9
    extra = {
        'empty': ([], []),
        'lists': ([0, 0, 1, 1, 2], [0.5, 0.75, 0.25, 0.5, 1.0]),
        'single': ([3], [0.125]),
        'above_one': ([0, 1, 1], [1.5, 2.0, 3.0]),
        'unequal_lengths': ([0, 0, 1, 1, 2], [0.5, 0.75, 0.25]),
        'nan_first': ([0, 0, 1], [math.nan, 0.5, 0.75]),
        'nan_last': ([0, 0, 1], [0.5, math.nan, 0.75]),
        'nan_own': ([0, 1, 2], [0.5, math.nan, 0.75]),
    }
    for k, (ids, probs) in extra.items():
        r = call(lambda: get_prob(np.array(ids, dtype=int), np.array(probs, dtype=float)))
        out['get_prob_' + k] = {'value': r if isinstance(r, str) else enc(r)}
        tols['get_prob_' + k] = 1e-9
    r = call(lambda: get_prob(*extra['lists']))
    out['get_prob_python_lists'] = {'value': r if isinstance(r, str) else enc(r)}
    tols['get_prob_python_lists'] = 1e-9
    return out, tols


def close(a, b, tol):
    a, b = dec(a), dec(b)
    if isinstance(a, str) or isinstance(b, str):
        return a == b
    if math.isnan(a) or math.isnan(b):
        return math.isnan(a) and math.isnan(b)
    if math.isinf(a) or math.isinf(b):
        return a == b
    return abs(a - b) <= tol * abs(a) + 1e-290


def compare(ref, got, tol):
    if set(ref) != set(got):
        return 'keys'
    for k in sorted(ref):
        r, g = ref[k], got[k]
        if k in ('conf', 'value') or k.startswith('line_conf_'):
            if not close(r, g, tol):
                return k
        elif k == 'grid':
            if isinstance(r, str) or isinstance(g, str):
                if r != g:
                    return k
                continue
            conf = dec(ref['conf'])
            for thr, x, y in zip(GRID, r, g):
                near = isinstance(conf, float) and math.isfinite(thr) and abs(thr - conf) <= tol * abs(conf)
                if x != y and not near:
                    return k
        elif k.startswith('decode_'):
            # thresholds 0.3/0.6/0.9 are never within TOL of a confidence of the generated lines (checked below)
            if r != g:
                return k
        elif r != g:
            return k
    return None


def main():
    results, tols = run()
    for name, res in results.items():
        if res.get('monotone') is False:
            print('DIFFERENT: %s: line_confident_enough is not monotone in the threshold' % name)
            return 1
        c = dec(res.get('conf', 'never'))
        if isinstance(c, float) and any(abs(c - t) <= 1e-5 * t for t in (0.3, 0.6, 0.9)):
            print('DIFFERENT: test-case %s is degenerate (confidence too close to a decode threshold)' % name)
            return 1
    if not os.path.exists(REF):
        with open(REF, 'w') as f:
            json.dump(results, f, indent=0, sort_keys=True)
        print('reference.json written (%d cases)' % len(results))
        return 0
    with open(REF) as f:
        ref = json.load(f)
    if set(ref) != set(results):
        print('DIFFERENT: set of cases')
        return 1
    maxdiff = 0.0
    for name in sorted(ref):
        bad = compare(ref[name], results[name], tols[name])
        if bad:
            print('DIFFERENT: case %s field %s: reference %r, now %r' % (name, bad, ref[name][bad], results[name][bad]))
            return 1
        r, g = dec(ref[name].get('conf', 'never')), dec(results[name].get('conf', 'never'))
        if isinstance(r, float) and isinstance(g, float) and r:
            maxdiff = max(maxdiff, abs(r - g) / abs(r))
    print('MATCH (%d cases, max relative difference of the thresholded confidence %.3g)' % (len(ref), maxdiff))
    return 0


if __name__ == '__main__':
    sys.exit(main())
