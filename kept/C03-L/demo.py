"""Differential demo for change L (LM scores computed for the selected columns only).

Runs the full CTCPrefixLogRawNumpyDecoder with history-dependent toy LMs (state = hash
of the whole prefix; float64 and float32 outputs; LMs whose output is wider than the
decoder alphabet, so that the general column mapping is exercised too), over LM scales,
insertion bonuses, beam widths, EOS modelling and supplied initial states, and prints a
sha256 digest of all bit-exact results. Where the new helper exists, it is additionally
cross-checked bitwise against compute_Plm(...)[:, columns] (not part of the digest).
"""
import hashlib
import struct
import sys

import numpy as np

from pero_ocr.decoding.decoders import CTCPrefixLogRawNumpyDecoder, BLANK_SYMBOL

MASK = (1 << 61) - 1


class HashLM:
    """Toy LM, its state is a hash of the whole prefix (and of the start state)."""
    def __init__(self, nb_chars, seed, extra_outputs=0, dtype=np.float64):
        self.nb_chars = nb_chars + extra_outputs
        self.seed = seed
        self.dtype = dtype

    def initial_h(self, batch_size):
        return np.full((batch_size,), 1234567 + self.seed, dtype=np.int64)

    def advance_h0(self, x, h0):
        return np.asarray([(int(h) * 1000003 + int(c) * 7919 + 17 + self.seed) & MASK for c, h in zip(x, h0)], dtype=np.int64)

    def _scores(self, h, n):
        rng = np.random.RandomState(int(h) % (2**32 - 1))
        logits = rng.randn(n) * 2.0
        return logits - np.logaddexp.reduce(logits)

    def log_probs(self, h):
        return np.stack([self._scores(x, self.nb_chars + 1)[:self.nb_chars] for x in h]).astype(self.dtype)

    def eos_scores(self, h):
        return np.asarray([self._scores(x, self.nb_chars + 1)[-1] for x in h]).astype(self.dtype)


def feed(digest, *values):
    for v in values:
        if isinstance(v, str):
            digest.update(v.encode('utf-8') + b'\x00')
        elif isinstance(v, (float, np.floating)):
            digest.update(struct.pack('<d', float(v)))
        elif isinstance(v, (int, np.integer)):
            digest.update(struct.pack('<q', int(v)))
        elif isinstance(v, np.ndarray):
            digest.update(str(v.dtype).encode() + str(v.shape).encode() + np.ascontiguousarray(v).tobytes())
        else:
            raise TypeError(type(v))


def random_logits(rng, T, nb_chars):
    kind = rng.randint(4)
    if kind == 0:    # flat
        x = rng.randn(T, nb_chars + 1)
    elif kind == 1:  # peaky, many chars under the -10 relevance threshold
        x = rng.randn(T, nb_chars + 1) * 12
    elif kind == 2:  # blank dominated frames, all chars irrelevant in some of them
        x = rng.randn(T, nb_chars + 1)
        x[:, -1] += rng.choice([0.0, 30.0], size=T)
    else:            # repeated frames -> exact ties
        x = np.repeat(rng.randint(-3, 3, size=(1, nb_chars + 1)).astype(float), T, axis=0)
    return x - np.logaddexp.reduce(x, axis=1, keepdims=True)


def helper_crosscheck(rng):
    decoder = CTCPrefixLogRawNumpyDecoder(['a', BLANK_SYMBOL], 1, insertion_bonus=0.3)
    if not hasattr(decoder, 'compute_reduced_Plm'):
        return 0
    nb = 0
    for case in range(300):
        n, W = rng.randint(1, 6), rng.randint(1, 7)
        Plm = rng.randn(n) * 5
        preds = (rng.randn(n, W) * 3).astype(rng.choice([np.float32, np.float64]))
        if case % 5 == 0:
            preds[rng.rand(n, W) < 0.3] = -np.inf
        decoder._insertion_bonus = float(rng.choice([0.0, 0.3, 2.5]))
        columns = rng.randint(-(W + 1), W + 1, size=rng.randint(0, 9))
        if case % 3 == 0:
            columns = np.concatenate([np.nonzero(rng.rand(W) < 0.5)[0], [-2, W]])
        ref = decoder.compute_Plm(Plm, preds)[:, columns]
        got = decoder.compute_reduced_Plm(Plm, preds, columns)
        assert ref.dtype == got.dtype and ref.shape == got.shape, (ref.dtype, got.dtype, ref.shape, got.shape)
        assert ref.tobytes() == np.ascontiguousarray(got).tobytes() or np.array_equal(ref, got, equal_nan=True)
        assert np.array_equal(np.ascontiguousarray(ref).view(np.uint8), np.ascontiguousarray(got).view(np.uint8))
        nb += 1
    return nb


def decoder_cases(digest, rng):
    nb = 0
    for case in range(600):
        nb_chars = rng.randint(1, 6)
        letters = [chr(ord('a') + i) for i in range(nb_chars)] + [BLANK_SYMBOL]
        T = rng.randint(1, 9)
        logits = random_logits(rng, T, nb_chars)
        if case % 9 == 0:
            logits = logits.astype(np.float32)
        k = int(rng.choice([1, 1, 2, 3, 4, 6, 10]))
        use_lm = case % 6 != 0
        scale = float(rng.choice([0.0, 0.3, 1.0, 3.0]))
        bonus = float(rng.choice([0.0, 0.0, 0.7]))
        eos = bool(use_lm and rng.rand() < 0.5)
        return_h = bool(use_lm and rng.rand() < 0.6)
        lm = HashLM(nb_chars, case, extra_outputs=[0, 0, 0, 1, 2][case % 5], dtype=[np.float64, np.float32][case % 4 == 1]) if use_lm else None
        init_h = np.asarray([987654321 + case], dtype=np.int64) if (use_lm and rng.rand() < 0.5) else None

        decoder = CTCPrefixLogRawNumpyDecoder(letters, k, lm=lm, lm_scale=scale, insertion_bonus=bonus)
        res = decoder(logits, model_eos=eos, max_unnormalization=1e-3, return_h=return_h, init_h=init_h)
        if return_h:
            boh, h = res
            feed(digest, np.asarray(h))
        else:
            boh = res

        feed(digest, len(boh), float(boh.lm_weight), boh.best_hyp(), float(boh.confidence()))
        for hyp in boh:
            feed(digest, hyp.transcript, float(hyp.vis_sc), float(hyp.lm_sc))
        for p in boh.posteriors():
            feed(digest, float(p))
        nb += 1
    return nb


def main():
    digest = hashlib.sha256()
    rng = np.random.RandomState(31337)
    n1 = helper_crosscheck(np.random.RandomState(7))
    n2 = decoder_cases(digest, rng)
    print(f'cases: {n2} decoder runs ({n1} helper cross-checks, not in digest)', file=sys.stderr)
    print('digest:', digest.hexdigest())
    return 0


if __name__ == '__main__':
    sys.exit(main())
