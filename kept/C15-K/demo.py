"""Differential demo for change K (merge_transcriptions_and_logits gathers logits pieces, joins once).

Prints a digest of all merged transcriptions / logits over a few hundred part lists."""
import hashlib
import random

import numpy as np

from pero_ocr.ocr_engine.line_ocr_engine import merge_transcriptions_and_logits

ALPHABET = 'abcdefghij klmno'


def rand_text(rng, n, alphabet=ALPHABET):
    return ''.join(rng.choice(alphabet) for _ in range(n))


def windows(rng, text, width, overlap):
    parts = []
    start, end = 0, width
    while end < len(text):
        parts.append(text[start:end])
        start += width - overlap
        end += width - overlap
    parts.append(text[start:end])
    return parts


def noisy(rng, part, overlap, rate):
    chars = list(part)
    for pos in list(range(min(overlap, len(chars)))) + list(range(max(0, len(chars) - overlap), len(chars))):
        if rng.random() < rate:
            op = rng.choice('sdi')
            if op == 's':
                chars[pos] = rng.choice(ALPHABET)
            elif op == 'd':
                chars[pos] = ''
            else:
                chars[pos] = chars[pos] + rng.choice(ALPHABET)
    return ''.join(chars)


def make_cases(rng):
    cases = []
    # true overlapping windows of one text
    for _ in range(90):
        text = rand_text(rng, rng.randint(1, 60))
        width = rng.randint(2, 20)
        overlap = rng.randint(0, width - 1)
        cases.append(windows(rng, text, width, overlap))
    # windows with recognition noise in the overlap
    for _ in range(90):
        text = rand_text(rng, rng.randint(5, 60))
        width = rng.randint(3, 20)
        overlap = rng.randint(1, width - 1)
        cases.append([noisy(rng, p, overlap, 0.3) for p in windows(rng, text, width, overlap)])
    # unrelated strings (small alphabet -> accidental overlaps, incl. ones longer than the previous part)
    for _ in range(90):
        alphabet = rng.choice(['ab', 'abc', ALPHABET])
        cases.append([rand_text(rng, rng.randint(0, 8), alphabet) for _ in range(rng.randint(1, 7))])
    # empty parts anywhere
    for _ in range(60):
        parts = windows(rng, rand_text(rng, rng.randint(1, 40)), rng.randint(2, 10), 1)
        for _ in range(rng.randint(1, 3)):
            parts.insert(rng.randint(0, len(parts)), '')
        cases.append(parts)
    # hand-made corner cases
    cases += [[''], ['a'], ['', ''], ['', '', 'a'], ['a', ''], ['abcdef', 'f', 'abcdef'], ['abcdef', 'ef', 'f', 'cdef', 'abcdef'],
              ['aaaa', 'aaaa', 'aaaa'], ['ab', 'b', 'b', 'b', 'bab'], ['abc', 'abc'], ['x' * 30, 'x' * 3, 'x' * 30],
              ['abcabc', 'c', 'c', 'abcabc'], ['ab', 'ba', 'ab', 'ba', 'ab']]
    return cases


def make_logits(rng, nprng, parts, mode):
    logits = []
    for k, part in enumerate(parts):
        extra = rng.choice([0, 0, 1, 3]) if mode != 'exact' else 0
        dtype = np.float32
        if mode == 'float64':
            dtype = np.float64
        elif mode == 'mixed':
            dtype = rng.choice([np.float32, np.float64])
        logits.append(nprng.standard_normal((len(part) + extra, 5)).astype(dtype))
    return logits


def main():
    rng = random.Random(1515)
    nprng = np.random.default_rng(1515)
    digest = hashlib.sha256()
    nb = 0
    for parts in make_cases(rng):
        for mode in ('exact', 'float32', 'float64', 'mixed'):
            logits = make_logits(rng, nprng, parts, mode)
            parts_before = list(parts)
            logits_before = [l.copy() for l in logits]
            text, merged = merge_transcriptions_and_logits(parts, logits)
            assert parts == parts_before
            assert all(np.array_equal(a, b) for a, b in zip(logits, logits_before))
            shares = any(np.shares_memory(merged, l) for l in logits)
            digest.update(repr((text, merged.shape, str(merged.dtype), shares, type(merged).__name__)).encode())
            digest.update(np.ascontiguousarray(merged).tobytes())
            # writing to the result must behave the same (single part: view of the input; else a fresh array)
            if merged.size:
                merged[...] = 0
                digest.update(repr([float(l.sum()) for l in logits]).encode())
            nb += 1
    # tuples as containers, 1-D "logits", more transcriptions than logits and the other way round
    t, l = merge_transcriptions_and_logits(('abcd', 'cdef'), (np.arange(4.), np.arange(10., 16.)))
    digest.update(repr((t, l.tolist(), str(l.dtype))).encode())
    t, l = merge_transcriptions_and_logits(['abcd', 'cdef', 'efgh'], [np.ones((4, 2)), np.ones((4, 2)) * 2])
    digest.update(repr((t, l.tolist(), str(l.dtype))).encode())
    t, l = merge_transcriptions_and_logits(['abcd'], [np.ones((4, 2)), np.ones((4, 2)) * 2])
    digest.update(repr((t, l.tolist(), str(l.dtype))).encode())
    t, l = merge_transcriptions_and_logits(['abcd', 'cdef'], [np.ones((5, 2))])
    digest.update(repr((t, l.tolist(), str(l.dtype))).encode())
    print(f'{nb + 4} cases, digest {digest.hexdigest()}')


if __name__ == '__main__':
    main()
