"""Differential demo for C11: distributes random / hand-made line sets to region sets and prints a digest of
everything the property talks about (which line goes to which region, clipped baselines / outlines, heights, ids)."""
import hashlib
import io
import random
import sys
import warnings
import contextlib

import numpy as np

from pero_ocr.core.layout import PageLayout, RegionLayout
from pero_ocr.layout_engines import layout_helpers as helpers
from pero_ocr.document_ocr.page_parser import LayoutExtractor

warnings.simplefilter('ignore')
H = hashlib.sha256()
N_CASES = 0


def feed(*items):
    for it in items:
        if isinstance(it, np.ndarray):
            H.update(str(it.dtype).encode() + str(it.shape).encode() + np.ascontiguousarray(it).tobytes())
        else:
            H.update(repr(it).encode())
        H.update(b'|')


def feed_regions(regions):
    for r in regions:
        feed('R', r.id, np.asarray(r.polygon), len(r.lines))
        for l in r.lines:
            feed('L', l.id, np.asarray(l.baseline), np.asarray(l.polygon), np.asarray(l.heights, dtype=np.float64))


# ---------------------------------------------------------------- generators
def rect(x0, y0, x1, y1):
    return np.array([[x0, y0], [x1, y0], [x1, y1], [x0, y1]], dtype=np.float64)


def u_shape(x0, y0, w, h, t):
    # concave "U": a horizontal line through the upper part crosses it twice
    return np.array([[x0, y0], [x0 + t, y0], [x0 + t, y0 + h - t], [x0 + w - t, y0 + h - t], [x0 + w - t, y0],
                     [x0 + w, y0], [x0 + w, y0 + h], [x0, y0 + h]], dtype=np.float64)


def comb(x0, y0, teeth, tw, gap, h):
    pts = [[x0, y0 + h]]
    x = x0
    for _ in range(teeth):
        pts += [[x, y0], [x + tw, y0], [x + tw, y0 + h * 0.7], [x + tw + gap, y0 + h * 0.7]]
        x += tw + gap
    pts += [[x, y0], [x + tw, y0], [x + tw, y0 + h]]
    return np.array(pts, dtype=np.float64)


def self_touching(x0, y0, s):
    # two squares sharing one vertex (ring touches itself in a point)
    return np.array([[x0, y0], [x0 + s, y0], [x0 + s, y0 + s], [x0 + 2 * s, y0 + s], [x0 + 2 * s, y0 + 2 * s],
                     [x0 + s, y0 + 2 * s], [x0 + s, y0 + s], [x0, y0 + s]], dtype=np.float64)


def bow_tie(x0, y0, w, h):
    return np.array([[x0, y0], [x0 + w, y0 + h], [x0 + w, y0], [x0, y0 + h]], dtype=np.float64)


def convex(rng, cx, cy, r, n):
    ang = np.sort(rng.uniform(0, 2 * np.pi, n))
    rad = r * rng.uniform(0.7, 1.0, n)
    return np.stack([cx + rad * np.cos(ang), cy + rad * np.sin(ang)], axis=1)


def star(rng, cx, cy, r, n):
    ang = np.linspace(0, 2 * np.pi, 2 * n, endpoint=False) + rng.uniform(0, 1)
    rad = np.where(np.arange(2 * n) % 2 == 0, r, r * rng.uniform(0.3, 0.6))
    return np.stack([cx + rad * np.cos(ang), cy + rad * np.sin(ang)], axis=1)


def random_region(rng):
    k = rng.integers(0, 8)
    cx, cy = rng.uniform(50, 450, 2)
    if k == 0:
        w, h = rng.uniform(40, 300, 2)
        return rect(cx - w / 2, cy - h / 2, cx + w / 2, cy + h / 2)
    if k == 1:
        return u_shape(cx - 100, cy - 60, rng.uniform(120, 260), rng.uniform(60, 160), rng.uniform(10, 40))
    if k == 2:
        return comb(cx - 120, cy - 50, int(rng.integers(2, 5)), rng.uniform(15, 40), rng.uniform(10, 40), rng.uniform(50, 150))
    if k == 3:
        return self_touching(cx - 80, cy - 80, rng.uniform(30, 90))
    if k == 4:
        return bow_tie(cx - 80, cy - 50, rng.uniform(60, 200), rng.uniform(40, 120))
    if k == 5:
        return convex(rng, cx, cy, rng.uniform(30, 180), int(rng.integers(3, 9)))
    if k == 6:
        return star(rng, cx, cy, rng.uniform(40, 180), int(rng.integers(3, 7)))
    # integer-valued rectangle given as an int array
    x0, y0 = rng.integers(0, 300, 2)
    w, h = rng.integers(20, 250, 2)
    return rect(x0, y0, x0 + w, y0 + h).astype(np.int64)


def random_line(rng, dtype_choice=None):
    n = int(rng.integers(2, 7))
    k = rng.integers(0, 4)
    x0 = rng.uniform(-20, 450)
    length = [rng.uniform(0.5, 4), rng.uniform(5, 60), rng.uniform(60, 300), rng.uniform(300, 600)][k]
    xs = np.sort(rng.uniform(x0, x0 + length, n))
    xs[0], xs[-1] = x0, x0 + length
    y = rng.uniform(-10, 520)
    ys = y + np.cumsum(rng.normal(0, 1.5, n)) + (xs - x0) * rng.normal(0, 0.08)
    baseline = np.stack([xs, ys], axis=1)
    if rng.random() < 0.1:  # vertical-ish line
        baseline = baseline[:, ::-1].copy()
    if rng.random() < 0.1:  # right-to-left
        baseline = baseline[::-1].copy()
    d = dtype_choice if dtype_choice is not None else rng.integers(0, 4)
    if d == 1:
        baseline = np.round(baseline)
    elif d == 2:
        baseline = np.round(baseline).astype(np.int64)
        if len(np.unique(baseline, axis=0)) < 2:
            baseline = np.array([[10, 10], [40, 10]], dtype=np.int64)
    elif d == 3:
        baseline = baseline.astype(np.float32)
    heights = [float(rng.uniform(0, 25)), float(rng.uniform(0, 12))]
    textline = helpers.baseline_to_textline(baseline, heights)
    return baseline, heights, textline


def make_regions(polys, prefix='r'):
    return [RegionLayout('{}{:03d}'.format(prefix, i), p) for i, p in enumerate(polys)]


def run_assign(b, h, t, polys):
    global N_CASES
    N_CASES += 1
    regions = make_regions(polys)
    out = io.StringIO()
    try:
        with contextlib.redirect_stdout(out):
            res = helpers.assign_lines_to_regions(b, h, t, regions)
        feed('same-list', res is regions)
        feed_regions(res)
        # heights objects are passed through
        feed([any(l.heights is hh for hh in h) for r in res for l in r.lines])
    except Exception as e:  # noqa
        feed('EXC', type(e).__name__)
    # inputs must not be modified
    for x in b:
        feed(x)
    for x in t:
        feed(x)
    for p in polys:
        feed(p)


def run_mask(baseline, textline, poly):
    global N_CASES
    N_CASES += 1
    out = io.StringIO()
    try:
        with contextlib.redirect_stdout(out):
            bi, ti = helpers.mask_textline_by_region(baseline, textline, poly)
        feed('M', bi, ti)
    except Exception as e:  # noqa
        feed('EXC', type(e).__name__)


# ---------------------------------------------------------------- hand-made corner cases
def hand_made():
    R = rect(100, 100, 300, 200)
    U = u_shape(100, 100, 300, 150, 40)
    lines = []

    def add(pts, heights=(10, 4), dtype=np.float64):
        bl = np.array(pts, dtype=dtype)
        lines.append((bl, list(heights), helpers.baseline_to_textline(bl, list(heights))))

    add([[120, 150], [280, 150]])                       # wholly inside
    add([[120, 150], [200, 152], [280, 150]])           # wholly inside, 3 pts
    add([[120, 150], [121.5, 150]])                     # inside, shorter than 2 px
    add([[120, 150], [122, 150]])                       # inside, exactly 2 px
    add([[120, 150], [122.0001, 150]])                  # just above 2 px
    add([[10, 150], [90, 150]])                         # outside (left), bbox overlaps in y only
    add([[10, 20], [90, 20]])                           # outside both axes
    add([[10, 150], [100, 150]])                        # touches the region border in a point
    add([[50, 100], [350, 100]])                        # runs along the top border
    add([[100, 120], [100, 180]])                       # runs along the left border
    add([[50, 150], [350, 150]])                        # crosses the region, U twice
    add([[50, 120], [450, 120]])                        # crosses U twice, different piece lengths
    add([[50, 120], [130, 121], [250, 119], [450, 120]])
    add([[300, 200], [400, 300]])                       # touches a corner only
    add([[200, 50], [200, 260]])                        # vertical crossing
    add([[120, 150], [280, 150]], dtype=np.int64)       # int baseline
    add([[120, 150], [280, 150]], dtype=np.float32)     # float32 baseline
    add([[120, 150], [280, 150]], heights=(0, 0))       # degenerate heights -> clipped to 1
    add([[120, 110], [280, 110]], heights=(30, 5))      # outline sticks out of the region
    add([[100.00001, 150], [300.00001, 150]])           # float32 bbox rounding ties
    add([[300.00001, 150], [400, 150]])                 # outside by less than float32 resolution
    add([[299.99999, 150], [400, 150]])
    # line whose outline is self-intersecting (sharp bend + big heights)
    add([[120, 150], [200, 150], [125, 152], [280, 150]], heights=(20, 20))

    polysets = [
        [R], [U], [R, U], [U, R],
        [R, rect(150, 120, 250, 180)],                                  # nested
        [R, rect(250, 120, 450, 260)],                                  # overlapping
        [R, rect(300, 100, 500, 200)],                                  # sharing an edge
        [rect(0, 0, 50, 50), R, rect(310, 100, 400, 200)],              # disjoint
        [self_touching(100, 100, 60)], [bow_tie(100, 100, 200, 100)],
        [comb(60, 100, 3, 40, 60, 100)],
        [R.astype(np.int64)], [R.astype(np.float32)],
        [np.concatenate([R, R[:1]])],                                   # explicitly closed ring
        [R[::-1].copy()],                                               # clockwise
        [],
    ]
    for polys in polysets:
        b, h, t = [l[0] for l in lines], [l[1] for l in lines], [l[2] for l in lines]
        run_assign(b, h, t, polys)
        run_assign(b[::-1], h[::-1], t[::-1], polys)
        for l in lines[:6]:
            run_assign([l[0]], [l[1]], [l[2]], polys)
        for p in polys:
            for l in lines:
                run_mask(l[0], l[2], p)
    run_assign([], [], [], [R, U])
    run_assign([], [], [], [])


# ---------------------------------------------------------------- random sweep
def random_sweep():
    rng = np.random.default_rng(20240611)
    for case in range(260):
        n_regions = int(rng.integers(0, 6))
        n_lines = int(rng.integers(0, 14))
        polys = [random_region(rng) for _ in range(n_regions)]
        if n_regions and rng.random() < 0.3:   # nested copy
            p = polys[0].astype(np.float64)
            polys.append(p.mean(axis=0) + (p - p.mean(axis=0)) * 0.5)
        if n_regions and rng.random() < 0.15:  # duplicate polygon
            polys.append(polys[0].copy())
        ls = [random_line(rng) for _ in range(n_lines)]
        if n_regions and n_lines and rng.random() < 0.5:
            # a line guaranteed to lie inside a convex part of the first region
            p = polys[0].astype(np.float64)
            c = p.mean(axis=0)
            bl = np.array([c - [3, 0], c + [3, 0]])
            hh = [2.0, 1.0]
            ls.append((bl, hh, helpers.baseline_to_textline(bl, hh)))
        run_assign([l[0] for l in ls], [l[1] for l in ls], [l[2] for l in ls], polys)


# ---------------------------------------------------------------- LayoutExtractor driven by a stub detector
class StubEngine:
    def __init__(self, per_rot):
        self.per_rot = per_rot

    def detect(self, img, rot=0):
        p, b, h, t = self.per_rot[rot]
        return ([x.copy() for x in p], [x.copy() for x in b], [list(x) for x in h], [x.copy() for x in t])


def make_extractor(engine, detect_regions, detect_lines, merge_lines, multi_orientation):
    ex = LayoutExtractor.__new__(LayoutExtractor)
    ex.detect_regions = detect_regions
    ex.detect_lines = detect_lines
    ex.detect_straight_lines_in_regions = False
    ex.merge_lines = merge_lines
    ex.adjust_heights = False
    ex.multi_orientation = multi_orientation
    ex.adjust_baselines = False
    ex.engine = engine
    return ex


def extractor_sweep():
    global N_CASES
    rng = np.random.default_rng(777)
    for case in range(14):
        per_rot = {}
        for rot in (0, 1, 3):
            polys = [random_region(rng) for _ in range(int(rng.integers(0, 4)))]
            ls = [random_line(rng) for _ in range(int(rng.integers(0, 9)))]
            per_rot[rot] = (polys, [l[0] for l in ls], [l[1] for l in ls], [l[2] for l in ls])
        given = [random_region(rng) for _ in range(int(rng.integers(0, 4)))]
        for dr in (False, True):
            for dl in (False, True):
                for ml in (False, True):
                    for mo in (False, True):
                        N_CASES += 1
                        random.seed(1234 + case)
                        page = PageLayout(id='p', page_size=(600, 600))
                        page.regions = make_regions([g.copy() for g in given], prefix='g')
                        # pre-existing lines in the given regions
                        pre = [random_line(np.random.default_rng(case * 10 + i)) for i in range(2)]
                        helpers.assign_lines_to_regions([l[0] for l in pre], [l[1] for l in pre],
                                                        [l[2] for l in pre], page.regions)
                        ex = make_extractor(StubEngine(per_rot), dr, dl, ml, mo)
                        out = io.StringIO()
                        try:
                            with contextlib.redirect_stdout(out):
                                page = ex.process_page(None, page)
                            feed('cfg', dr, dl, ml, mo)
                            feed_regions(page.regions)
                            ids = [l.id for l in page.lines_iterator()]
                            feed('unique', len(ids) == len(set(ids)))
                        except Exception as e:  # noqa
                            feed('EXC', dr, dl, ml, mo, type(e).__name__)


if __name__ == '__main__':
    hand_made()
    random_sweep()
    extractor_sweep()
    print('cases', N_CASES)
    print('digest', H.hexdigest())
    sys.exit(0)
