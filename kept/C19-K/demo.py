#!/usr/bin/env python3
"""Differential demo for property C19 (engine merging keeps the most confident engine's line).

Exercises pero_ocr.core.confidence_estimation.get_line_confidence and
user_scripts/merge_ocr_results.merge_layouts on a few hundred small random inputs
(incl. corner cases) and prints a digest of all observable results.
Run with PYTHONPATH=<worktree>:<worktree>/user_scripts ; takes no arguments.
"""
import contextlib
import hashlib
import io
import sys

import numpy as np
import scipy.sparse

from pero_ocr.core.layout import PageLayout, RegionLayout, TextLine
from pero_ocr.core.force_alignment import align_text
from pero_ocr.core import confidence_estimation
import merge_ocr_results

ALPHABET = list('abcdefghijklmnopqrstuvwxyz ABCDEFGH.,-')

digest = hashlib.sha256()
n_items = [0]


def fnum(x):
    if x is None:
        return 'None'
    x = float(x)
    if x != x:
        return 'nan'
    return '%.9e' % x  # 1e-9 relative tolerance of the task; results are expected to be bit-identical anyway


def put(*parts):
    n_items[0] += 1
    digest.update(('|'.join(str(p) for p in parts) + '\n').encode('utf-8'))


def put_array(tag, arr):
    arr = np.asarray(arr)
    put(tag, arr.dtype, arr.shape, ','.join(fnum(v) for v in arr.ravel()))


def random_logits(rng, nb_frames, nb_symbols, text_labels, dtype, sharp, sparsify):
    """Dense logits (time, symbol); blank is the last symbol.  The text is (roughly) emitted in order."""
    logits = rng.normal(0, 2, size=(nb_frames, nb_symbols))
    logits[:, -1] += sharp  # blank is generally likely
    if len(text_labels) > 0 and nb_frames > 0:
        positions = np.sort(rng.choice(nb_frames, size=min(len(text_labels), nb_frames), replace=False))
        for pos, lab in zip(positions, text_labels):
            logits[pos, lab] += 2 * sharp * rng.uniform(0.2, 1.5)
            if rng.random() < 0.3:  # strong competitor
                logits[pos, rng.integers(0, nb_symbols - 1)] += 2 * sharp * rng.uniform(0.2, 1.5)
    if sparsify:
        logits[logits < np.quantile(logits, 0.6)] = 0  # zeros are replaced by -80 in get_dense_logits
    return logits.astype(dtype)


def make_line(rng, line_id, text_len=None, nb_frames=None, dtype=np.float64, charset=None, sharp=4.0,
              sparsify=True, repeated=False):
    if charset is None:
        k = int(rng.integers(2, 12))
        charset = list(rng.choice(ALPHABET, size=k, replace=False))
    if text_len is None:
        text_len = int(rng.integers(0, 9))
    if repeated and text_len > 0:
        c = charset[int(rng.integers(0, len(charset)))]
        text = c * text_len
    else:
        text = ''.join(charset[int(i)] for i in rng.integers(0, len(charset), size=text_len))
    if nb_frames is None:
        nb_frames = int(rng.integers(max(1, text_len), 4 * text_len + 8))
    char_map = dict((c, i) for i, c in enumerate(charset))
    labels = [char_map[c] for c in text]
    logits = random_logits(rng, nb_frames, len(charset) + 1, labels, dtype, sharp, sparsify)
    baseline = rng.integers(0, 500, size=(2, 2)).astype(np.float64)
    polygon = rng.integers(0, 500, size=(4, 2)).astype(np.float64)
    line = TextLine(id=line_id, baseline=baseline, polygon=polygon, heights=[10.0, 4.0],
                    transcription=text, logits=scipy.sparse.csc_matrix(logits), characters=list(charset),
                    transcription_confidence=None if rng.random() < 0.5 else float(rng.random()))
    return line


def make_layout(rng, page_id, line_ids, **kwargs):
    layout = PageLayout(id=page_id, page_size=(1000, 800))
    nb_regions = 2 if len(line_ids) > 1 else 1
    split = len(line_ids) // nb_regions
    for r, ids in enumerate([line_ids[:split], line_ids[split:]] if nb_regions == 2 else [line_ids]):
        region = RegionLayout('r%d' % r, np.asarray([[0, 0], [10, 0], [10, 10], [0, 10]], dtype=np.float64))
        for line_id in ids:
            region.lines.append(make_line(rng, line_id, **kwargs))
        layout.regions.append(region)
    return layout


def describe_layout(tag, layout, originals):
    put(tag, 'layout', layout.id, layout.page_size, len(layout.regions))
    for region in layout.regions:
        put(tag, 'region', region.id, region.polygon.tolist(), len(region.lines))
        for line in region.lines:
            # which engine's objects ended up in the merged line (identity of logits / characters)
            src_logits = [i for i, o in enumerate(originals[line.id]) if o['logits'] is line.logits]
            src_chars = [i for i, o in enumerate(originals[line.id]) if o['characters'] is line.characters]
            put(tag, 'line', line.id, repr(line.transcription), ''.join(line.characters), src_logits[:1], src_chars[:1],
                type(line.transcription_confidence).__name__, fnum(line.transcription_confidence),
                line.baseline.tolist(), line.polygon.tolist(), line.heights)
            put_array(tag + 'logits', line.logits.toarray())


def run_merge(tag, layouts):
    originals = {}
    seen = set()
    for layout in layouts:
        if id(layout) in seen:
            continue
        seen.add(id(layout))
        for line in layout.lines_iterator():
            originals.setdefault(line.id, []).append({'logits': line.logits, 'characters': line.characters})
    out = io.StringIO()
    with contextlib.redirect_stdout(out):
        ret = merge_ocr_results.merge_layouts(layouts)
    stdout = out.getvalue()
    if any(layout is layouts[0] for layout in layouts[2:]):
        # The first (= output) layout passed again after another engine: how many times the console message about
        # an un-alignable line is repeated for it is not part of the property, only record which messages appeared.
        stdout = sorted(set(stdout.splitlines()))
    put(tag, 'ret', ret, 'stdout', stdout)
    describe_layout(tag, layouts[0], originals)
    # the other engines' layouts must not be modified
    for k, layout in enumerate(layouts[1:], 1):
        if layout is layouts[0]:
            continue
        for line in layout.lines_iterator():
            put(tag, 'other', k, line.id, repr(line.transcription), fnum(line.transcription_confidence))


def direct_confidences(tag, line):
    """get_confidences as used by merging + get_line_confidence with explicitly passed alignment / log-probs."""
    out = io.StringIO()
    with contextlib.redirect_stdout(out):
        confs = merge_ocr_results.get_confidences(line)
    put_array(tag + 'get_confidences', confs)
    put(tag, out.getvalue())
    if not line.transcription:
        return
    char_map = dict([(c, i) for i, c in enumerate(line.characters)])
    labels = np.asarray([char_map[c] for c in line.transcription])
    log_probs = line.get_full_logprobs()
    log_probs_before = log_probs.copy()
    try:
        aligned = align_text(-log_probs, labels, log_probs.shape[1] - 1)
    except ValueError as e:
        put(tag, 'align ValueError')
        return
    for variant, lab, ali in (('arr', labels, aligned), ('list', [int(v) for v in labels], [int(v) for v in aligned])):
        try:
            confs = confidence_estimation.get_line_confidence(line, lab, ali, log_probs)
            put_array(tag + variant, confs)
            put(tag, 'writeable', confs.flags.writeable, 'owndata', confs.base is None)
        except Exception as e:
            put(tag, variant, type(e).__name__)
    put(tag, 'log_probs untouched', bool(np.array_equal(log_probs, log_probs_before, equal_nan=True)))


def main():
    rng = np.random.default_rng(20240619)

    # ---- A: per-line confidences on random lines (float64 / float32, sparse / dense-ish logits) ----
    for t in range(260):
        dtype = np.float32 if t % 3 == 0 else np.float64
        line = make_line(rng, 'l%d' % t, dtype=dtype, sharp=float(rng.choice([0.5, 2.0, 4.0, 8.0])),
                         sparsify=bool(t % 4), repeated=(t % 7 == 0))
        direct_confidences('A%d' % t, line)

    # ---- B: corner cases of single lines ----
    corner = [
        dict(text_len=0, nb_frames=5),                    # empty transcription
        dict(text_len=1, nb_frames=1),                    # transformer path (frames == labels), single char
        dict(text_len=5, nb_frames=5),                    # transformer path
        dict(text_len=5, nb_frames=5, dtype=np.float32),
        dict(text_len=1, nb_frames=2),                    # single char, shortest CTC
        dict(text_len=1, nb_frames=30),
        dict(text_len=4, nb_frames=3),                    # fewer frames than letters -> cannot be aligned
        dict(text_len=4, nb_frames=6, repeated=True),     # repeated letters need blanks -> cannot be aligned
        dict(text_len=4, nb_frames=9, repeated=True),
        dict(text_len=3, nb_frames=7, charset=['x']),     # single symbol charset
        dict(text_len=2, nb_frames=7, charset=['x', 'y']),
        dict(text_len=6, nb_frames=1100),                 # more than 1000 frames (sentinel == nb_frames)
        dict(text_len=6, nb_frames=1000),
        dict(text_len=6, nb_frames=999),
        dict(text_len=8, nb_frames=40, sharp=0.0),        # flat outputs, confidences clipped at 0
        dict(text_len=8, nb_frames=40, sharp=30.0),       # saturated outputs
        dict(text_len=8, nb_frames=40, sparsify=False),
        dict(text_len=3, nb_frames=12, charset=['a', 'b', 'a', 'c']),  # duplicated character in the table
    ]
    for k, kwargs in enumerate(corner):
        for rep in range(3):
            line = make_line(rng, 'c%d_%d' % (k, rep), **kwargs)
            direct_confidences('B%d_%d' % (k, rep), line)

    # empty labels with an explicitly passed (empty) alignment
    line = make_line(rng, 'e', text_len=3, nb_frames=9)
    lp = line.get_full_logprobs()
    for lab in (np.asarray([], dtype=np.int64), []):
        try:
            put_array('B_empty', confidence_estimation.get_line_confidence(line, lab, np.asarray([], dtype=np.int32), lp))
        except Exception as e:
            put('B_empty', type(e).__name__)

    # ---- C: merging of 1..5 engines, random charsets per engine ----
    for t in range(150):
        nb_engines = int(rng.integers(1, 6))
        nb_lines = int(rng.integers(1, 6))
        ids = ['line_%d' % i for i in range(nb_lines)]
        layouts = [make_layout(rng, 'page%d_e%d' % (t, e), ids,
                               dtype=np.float32 if (t + e) % 4 == 0 else np.float64,
                               sharp=float(rng.choice([0.5, 2.0, 4.0, 8.0])))
                   for e in range(nb_engines)]
        run_merge('C%d' % t, layouts)

    # ---- D: ties, self merges, orders ----
    for t in range(40):
        ids = ['line_%d' % i for i in range(3)]
        seed = int(rng.integers(0, 2 ** 31))
        a = make_layout(np.random.default_rng(seed), 'pa', ids)
        a_twin = make_layout(np.random.default_rng(seed), 'pa_twin', ids)  # equal content, different objects -> ties
        b = make_layout(rng, 'pb', ids)
        c = make_layout(rng, 'pc', ids, text_len=0)  # engine with empty transcriptions only
        variants = {
            0: [a, a],                    # merging a result with itself (same object)
            1: [a, a_twin],               # tie -> the first one wins
            2: [b, a, a_twin],
            3: [c, a],                    # empty first
            4: [a, c],
            5: [c, c],
            6: [a, b, a],                 # the first layout repeated later
            7: [c],
            8: [b, a_twin, c, a],
        }
        run_merge('D%d' % t, variants[t % 9])

    # ---- E: engines whose lines cannot be aligned (fallback 0.5) and flat engines (confidence 0) ----
    for t in range(30):
        ids = ['line_%d' % i for i in range(2)]
        bad = make_layout(rng, 'bad', ids, text_len=4, nb_frames=6, repeated=True)
        flat = make_layout(rng, 'flat', ids, text_len=5, nb_frames=25, sharp=0.0, sparsify=False)
        good = make_layout(rng, 'good', ids, sharp=8.0)
        tr = make_layout(rng, 'transformer', ids, text_len=5, nb_frames=5)
        order = [[bad, good], [good, bad], [flat, bad], [bad, flat, good], [flat], [tr, good], [good, tr, bad],
                 [flat, flat], [bad, tr], [tr]][t % 10]
        run_merge('E%d' % t, order)

    print('items', n_items[0])
    print('digest', digest.hexdigest())
    return 0


if __name__ == '__main__':
    sys.exit(main())
