#!/usr/bin/env python
"""Differential test for change M (height guessing of PAGE XML lines that carry no heights).

Run without arguments with the tree under test on PYTHONPATH.
First run (clean tree): writes reference.json next to this file and prints what it recorded.
Later runs: recompute everything and compare with reference.json
  * structure, ids, strings, integer coordinates, booleans: exactly,
  * floats (guessed heights, confidences): |a-b| <= 1e-9 * max(1, |a|, |b|),
  * the heights printed with one decimal in a re-exported document: exactly, unless the underlying float lies
    within 1e-9 (relative) of a decimal rounding boundary, where one unit of the last printed digit is accepted.
Prints MATCH (exit 0) or DIFFERENT: <what> (exit 1).
"""
import json
import math
import os
import random
import re
import sys
import warnings

import numpy as np

warnings.filterwarnings('ignore')

from pero_ocr.core.layout import PageLayout, RegionLayout, TextLine, PAGEVersion  # noqa: E402
from pero_ocr.core.layout import guess_line_heights_from_polygon, guess_height_at_point  # noqa: E402

HERE = os.path.dirname(os.path.abspath(__file__))
REFERENCE = os.path.join(HERE, 'reference.json')
REL_TOL = 1e-9

TEXTS = [None, '', 'plain text', ' leading and trailing  ', '<a href="x">&amp;</a> \' "', 'éä combining',
         'שלום مرحبا rtl', 'astral \U0001d4d0\U0001f600 plane', '\t tab',
         'žluťoučký kůň', ']]> cdata', '   ']


# ---------------------------------------------------------------------------------------------------------------------
# input generation (pure python RNG, independent of numpy's global generator which the library itself uses)
# ---------------------------------------------------------------------------------------------------------------------
def wavy_line(rng, n_points, integer, scale=1.0, shift=(0.0, 0.0), vertical=False):
    """A baseline with n_points points and a polygon around it the way the layout parsers produce them."""
    x0 = rng.uniform(-50, 300)
    y0 = rng.uniform(-50, 300)
    length = rng.uniform(40, 600)
    up = rng.uniform(5, 40)
    down = rng.uniform(2, 15)
    slope = rng.uniform(-0.3, 0.3)
    xs = [x0 + length * i / max(1, n_points - 1) for i in range(n_points)]
    ys = [y0 + slope * (x - x0) + rng.uniform(-2, 2) for x in xs]
    baseline = [[x, y] for x, y in zip(xs, ys)]
    top = [[x, y - up + rng.uniform(-1, 1)] for x, y in zip(xs, ys)]
    bottom = [[x, y + down + rng.uniform(-1, 1)] for x, y in zip(xs, ys)]
    if n_points == 1:
        top = [[x0 - 5, y0 - up], [x0 + 5, y0 - up]]
        bottom = [[x0 - 5, y0 + down], [x0 + 5, y0 + down]]
    polygon = top + bottom[::-1]
    if vertical:
        baseline = [[y, x] for x, y in baseline]
        polygon = [[y, x] for x, y in polygon]
    baseline = (np.asarray(baseline) + np.asarray(shift)) * scale
    polygon = (np.asarray(polygon) + np.asarray(shift)) * scale
    if integer:
        baseline = np.round(baseline).astype(np.int64)
        polygon = np.round(polygon).astype(np.int64)
    return baseline, polygon


def special_lines():
    """Hand made corner cases: (name, baseline, polygon)."""
    rect = np.array([[10, 10], [110, 10], [110, 40], [10, 40]])
    cases = [
        ('rect_horizontal', np.array([[10, 30], [60, 30], [110, 30]]), rect),
        ('rect_quarter', np.array([[10, 30], [110, 30]]), np.array([[10, 10], [110, 11], [110, 40], [10, 41]])),
        ('vertical_baseline_tie', np.array([[50, 10], [50, 40]]), rect),
        ('closed_baseline', np.array([[20, 30], [60, 25], [20, 30]]), rect),
        ('single_point', np.array([[50, 30]]), rect),
        ('baseline_outside', np.array([[10, 80], [110, 80]]), rect),
        ('baseline_far_outside', np.array([[10, 800], [110, 800]]), rect),
        ('concave_u', np.array([[10, 30], [60, 30], [110, 30]]),
         np.array([[0, 0], [120, 0], [120, 60], [80, 60], [80, 20], [40, 20], [40, 60], [0, 60]])),
        ('bow_tie_invalid', np.array([[10, 30], [60, 30], [110, 30]]),
         np.array([[10, 10], [110, 40], [110, 10], [10, 40]])),
        ('two_point_polygon', np.array([[10, 30], [110, 30]]), np.array([[10, 10], [110, 40]])),
        ('zero_area_polygon', np.array([[10, 30], [110, 30]]), np.array([[10, 10], [60, 10], [110, 10]])),
        ('duplicate_points', np.array([[10, 30], [10, 30], [110, 30], [110, 30]]),
         np.array([[10, 10], [10, 10], [110, 10], [110, 40], [110, 40], [10, 40]])),
        ('negative', np.array([[-110, -30], [-60, -31], [-10, -30]]),
         np.array([[-110, -50], [-10, -52], [-10, -20], [-110, -22]])),
        ('float_coords', np.array([[10.25, 30.5], [60.125, 31.75], [110.0625, 30.5]]),
         np.array([[10.25, 10.5], [110.0625, 12.25], [110.0625, 40.75], [10.25, 38.5]])),
        ('float32_coords', np.array([[10.25, 30.5], [60.125, 31.75], [110.0625, 30.5]], dtype=np.float32),
         np.array([[10.25, 10.5], [110.0625, 12.25], [110.0625, 40.75], [10.25, 38.5]], dtype=np.float32)),
    ]
    base_bl = np.array([[10, 30], [50, 31], [90, 30]], dtype=object)
    base_pl = np.array([[10, 10], [90, 12], [90, 40], [10, 38]], dtype=object)
    for exponent in (9, 15, 16, 17):
        cases.append(('scale_1e%d' % exponent, (base_bl * 10 ** exponent).astype(np.int64),
                      (base_pl * 10 ** exponent).astype(np.int64)))
    for exponent in (19, 30, 100, 150, 153, 154, 160, 200, 300, 306, 310):
        cases.append(('scale_1e%d_object' % exponent, base_bl * 10 ** exponent, base_pl * 10 ** exponent))
    return cases


def encode_float(value):
    value = float(value)
    return value


def encode_points(points):
    if points is None:
        return None
    return [[int(v) if isinstance(v, (int, np.integer)) else float(v) for v in point] for point in
            np.asarray(points).tolist()]


# ---------------------------------------------------------------------------------------------------------------------
# part A: the height guessing functions called directly
# ---------------------------------------------------------------------------------------------------------------------
def guess(baseline, polygon, seed, **kwargs):
    line = TextLine(id='l', baseline=baseline, polygon=polygon)
    baseline_before = np.array(baseline, copy=True)
    polygon_before = np.array(polygon, copy=True)
    np.random.seed(seed)
    try:
        guess_line_heights_from_polygon(line, **kwargs)
        result = {'heights': [encode_float(h) for h in line.heights]}
    except Exception as e:  # only for inputs outside the quantifier; the type is recorded nevertheless
        result = {'exception': type(e).__name__}
    result['inputs_untouched'] = bool(
        np.array_equal(baseline_before, line.baseline) and np.array_equal(polygon_before, line.polygon))
    return result


def part_direct():
    rng = random.Random(20240501)
    records = {}
    for name, baseline, polygon in special_lines():
        for use_center in (False, True):
            for interpolate in (False, True):
                n = max(len(baseline), 1) if not interpolate else 10
                key = 'special/%s/center=%d/interp=%d' % (name, use_center, interpolate)
                records[key] = guess(baseline, polygon, 7, use_center=use_center, n=n, interpolate=interpolate)
        line = TextLine(id='l', baseline=baseline, polygon=polygon)
        points = []
        for point in np.asarray(baseline).tolist():
            try:
                heights = guess_height_at_point(line, point)
                points.append(None if heights is None else [encode_float(h) for h in heights])
            except Exception as e:
                points.append('exception ' + type(e).__name__)
        records['special/%s/at_points' % name] = {'at_points': points}
    n_points_choices = [1, 2, 3, 4, 5, 7, 8, 9, 12, 16, 17, 25, 33, 64]
    for i in range(220):
        n_points = n_points_choices[i % len(n_points_choices)]
        integer = i % 3 != 0
        scale = [1.0, 1.0, 0.37, 12.5, 1e4][i % 5]
        shift = [(0.0, 0.0), (-700.0, -350.0), (1234.5, 77.25)][i % 3]
        baseline, polygon = wavy_line(rng, n_points, integer, scale, shift, vertical=(i % 11 == 0))
        records['random/%03d/n=%d' % (i, n_points)] = guess(baseline, polygon, i, use_center=False, n=len(baseline))
        if i % 4 == 0:
            records['random/%03d/default_n' % i] = guess(baseline, polygon, i)
        if i % 6 == 0:
            records['random/%03d/center' % i] = guess(baseline, polygon, i, use_center=True, n=len(baseline))
    return records


# ---------------------------------------------------------------------------------------------------------------------
# part B: PAGE XML round trips (export -> import -> export -> import -> export)
# ---------------------------------------------------------------------------------------------------------------------
def strip_timestamps(xml):
    xml = re.sub(r'<Created>[^<]*</Created>', '<Created/>', xml)
    return re.sub(r'<LastChange>[^<]*</LastChange>', '<LastChange/>', xml)


def make_page(rng, i):
    page = PageLayout(id='page_%d <&>.jpg' % i, page_size=(rng.randint(0, 4000), rng.randint(0, 4000)))
    n_regions = [0, 1, 1, 2, 3, 5][i % 6]
    for r in range(n_regions):
        corner = np.asarray([[rng.uniform(-100, 100), rng.uniform(-100, 100)]])
        region_polygon = corner + np.asarray([[0, 0], [900.5, 3.25], [905.5, 700.75], [-2.5, 690.5]])
        if r % 2:
            region_polygon = np.round(region_polygon).astype(int)
        region = RegionLayout('r%d' % r, region_polygon, region_type=[None, 'paragraph', 'heading'][(i + r) % 3])
        if (i + r) % 4 == 0:
            region.transcription = TEXTS[(i + r) % len(TEXTS)]
        n_lines = [0, 1, 2, 4][(i + r) % 4]
        for li in range(n_lines):
            n_points = [2, 3, 5, 8, 9, 13, 21, 1][(i + r + li) % 8]
            baseline, polygon = wavy_line(rng, n_points, integer=(i + li) % 2 == 0,
                                          shift=(rng.uniform(-400, 400), rng.uniform(-400, 400)),
                                          vertical=(i + li) % 13 == 0)
            line = TextLine(id='r%d-l%d' % (r, li), baseline=baseline, polygon=polygon)
            if (i + r + li) % 3 == 0:   # two thirds of the lines have no heights: they are guessed on import
                line.heights = [rng.uniform(0, 60), rng.uniform(0, 30)]
            if (i + li) % 5 != 0:
                line.index = rng.randint(0, 50)
            line.transcription = TEXTS[(i * 7 + r * 3 + li) % len(TEXTS)]
            if line.transcription is not None and (i + li) % 2 == 0:
                line.transcription_confidence = rng.random()
            region.lines.append(line)
        page.regions.append(region)
    if i % 3 == 1 and n_regions > 0:
        ids = [region.id for region in page.regions]
        rng.shuffle(ids)
        if i % 2:
            ids = ids[:max(1, len(ids) // 2)]   # partial reading order
        page.reading_order = {region_id: position + (i % 4) for position, region_id in enumerate(ids)}
    return page


def page_state(page):
    return {
        'id': page.id,
        'page_size': [int(v) for v in page.page_size],
        'reading_order': page.reading_order,
        'regions': [{
            'id': region.id,
            'type': region.region_type,
            'polygon': encode_points(region.polygon),
            'transcription': region.transcription,
            'lines': [{
                'id': line.id,
                'index': line.index,
                'baseline': encode_points(line.baseline),
                'polygon': encode_points(line.polygon),
                'heights': None if line.heights is None else [encode_float(h) for h in line.heights],
                'transcription': line.transcription,
                'confidence': None if line.transcription_confidence is None else encode_float(
                    line.transcription_confidence),
            } for line in region.lines],
        } for region in page.regions],
    }


def part_round_trip():
    rng = random.Random(77)
    records = {}
    for i in range(150):
        page = make_page(rng, i)
        for version in (PAGEVersion.PAGE_2019_07_15, PAGEVersion.PAGE_2013_07_15):
            np.random.seed(1000 + i)
            xml1 = page.to_pagexml_string(version=version)
            page1 = PageLayout()
            page1.from_pagexml_string(xml1)
            state1 = page_state(page1)
            xml2 = page1.to_pagexml_string(version=version)
            page2 = PageLayout()
            page2.from_pagexml_string(xml2)
            state2 = page_state(page2)
            xml3 = page2.to_pagexml_string(version=version)
            page3 = PageLayout()
            page3.from_pagexml_string(xml3)
            xml4 = page3.to_pagexml_string(version=version)
            records['page/%03d/%s' % (i, version.name)] = {
                'xml1': strip_timestamps(xml1),
                'reloaded': state1,
                'xml2': strip_timestamps(xml2),
                'reloaded_again': state2,
                'fixpoint': strip_timestamps(xml3) == strip_timestamps(xml4),
                'xml2_equals_xml3': strip_timestamps(xml2) == strip_timestamps(xml3),
            }
    return records


# ---------------------------------------------------------------------------------------------------------------------
# tolerant comparison
# ---------------------------------------------------------------------------------------------------------------------
class Stats:
    max_rel = 0.0
    n_floats = 0
    n_float_differences = 0
    n_boundary_cases = 0


def floats_close(a, b):
    if math.isnan(a) or math.isnan(b):
        return math.isnan(a) and math.isnan(b)
    if math.isinf(a) or math.isinf(b):
        return a == b
    Stats.n_floats += 1
    if a != b:
        Stats.n_float_differences += 1
        Stats.max_rel = max(Stats.max_rel, abs(a - b) / max(abs(a), abs(b)))
    return abs(a - b) <= REL_TOL * max(1.0, abs(a), abs(b))


HEIGHTS_RE = re.compile(r'custom="heights_v2:\[([^,\]]*),([^\]]*)\]"')


def near_rounding_boundary(value):
    scaled = abs(value) * 10
    return abs(scaled - math.floor(scaled) - 0.5) <= REL_TOL * max(1.0, scaled)


def compare_xml_with_heights(path, reference, current, source_heights):
    """Documents must be identical; printed heights may differ by 0.1 when the printed float sits on a boundary."""
    if HEIGHTS_RE.sub('custom="H"', reference) != HEIGHTS_RE.sub('custom="H"', current):
        return '%s: documents differ outside of the printed heights' % path
    ref_heights = [float(v) for pair in HEIGHTS_RE.findall(reference) for v in pair]
    cur_heights = [float(v) for pair in HEIGHTS_RE.findall(current) for v in pair]
    if len(ref_heights) != len(cur_heights):
        return '%s: different number of printed heights' % path
    for k, (a, b) in enumerate(zip(ref_heights, cur_heights)):
        if a == b or (math.isnan(a) and math.isnan(b)):
            continue
        source = source_heights[k] if source_heights is not None and k < len(source_heights) else None
        if source is not None and abs(a - b) <= 0.1 + 1e-9 and near_rounding_boundary(source):
            Stats.n_boundary_cases += 1
            continue
        return '%s: printed height %d differs: %r vs %r' % (path, k, a, b)
    return None


def compare(path, reference, current):
    if isinstance(reference, dict) and isinstance(current, dict):
        if sorted(reference) != sorted(current):
            return '%s: different keys %s vs %s' % (path, sorted(reference), sorted(current))
        if 'xml2' in reference and 'reloaded' in reference:
            source_heights = [h for region in current['reloaded']['regions'] for line in region['lines']
                              for h in (line['heights'] or [])]
            problem = compare_xml_with_heights(path + '/xml2', reference['xml2'], current['xml2'], source_heights)
            if problem:
                return problem
        for key in reference:
            if key == 'xml2' and 'reloaded' in reference:
                continue
            problem = compare('%s/%s' % (path, key), reference[key], current[key])
            if problem:
                return problem
        return None
    if isinstance(reference, list) and isinstance(current, list):
        if len(reference) != len(current):
            return '%s: different lengths %d vs %d' % (path, len(reference), len(current))
        for k, (a, b) in enumerate(zip(reference, current)):
            problem = compare('%s[%d]' % (path, k), a, b)
            if problem:
                return problem
        return None
    if isinstance(reference, bool) or isinstance(current, bool) or reference is None or current is None \
            or isinstance(reference, str) or isinstance(current, str):
        if type(reference) is not type(current) or reference != current:
            return '%s: %r vs %r' % (path, reference, current)
        return None
    if isinstance(reference, int) and isinstance(current, int):
        return None if reference == current else '%s: %r vs %r' % (path, reference, current)
    if isinstance(reference, (int, float)) and isinstance(current, (int, float)):
        if isinstance(reference, int) != isinstance(current, int):
            return '%s: integer vs float: %r vs %r' % (path, reference, current)
        return None if floats_close(float(reference), float(current)) else '%s: %r vs %r' % (path, reference, current)
    return '%s: incomparable %r vs %r' % (path, reference, current)


def main():
    results = {'direct': part_direct(), 'round_trip': part_round_trip()}
    results = json.loads(json.dumps(results))   # the same normalisation as a stored reference goes through
    n_direct = len(results['direct'])
    n_pages = len(results['round_trip'])
    if not os.path.exists(REFERENCE):
        with open(REFERENCE, 'w') as f:
            json.dump(results, f, indent=0, sort_keys=True)
        n_exceptions = sum(1 for r in results['direct'].values() if 'exception' in r)
        n_fix = sum(1 for r in results['round_trip'].values() if r['fixpoint'])
        print('REFERENCE WRITTEN: %s (%d direct height guesses, %d of them raising; %d page round trips, '
              '%d of them reaching a fixpoint)' % (REFERENCE, n_direct, n_exceptions, n_pages, n_fix))
        return 0
    with open(REFERENCE) as f:
        reference = json.load(f)
    problem = compare('', reference, results)
    if problem:
        print('DIFFERENT: ' + problem[:600])
        return 1
    print('MATCH (%d direct height guesses, %d page round trips; %d floats compared, %d not bit-identical, '
          'max relative difference %.3g, %d printed heights on a rounding boundary)'
          % (n_direct, n_pages, Stats.n_floats, Stats.n_float_differences, Stats.max_rel, Stats.n_boundary_cases))
    return 0


if __name__ == '__main__':
    sys.exit(main())
