"""Differential demo for change K (hash-indexed, vectorised prefix joining).

Runs the CTC prefix beam search on a few hundred small matrices (ties, near-deterministic rows,
rows with all non-blank symbols below the pre-selection threshold, exact zeros, repeated symbols
with / without separating blank, float32 data, several beam widths, default and non-pruning
selectors, with and without a tiny LM) and calls adjust_for_prefix_joining() directly.
Prints a sha256 digest of all (exact, bit-level) results.
"""
import hashlib
import itertools
import warnings

import numpy as np

from pero_ocr.decoding import decoders
from pero_ocr.decoding.decoders import CTCPrefixLogRawNumpyDecoder, BLANK_SYMBOL, adjust_for_prefix_joining

warnings.filterwarnings('ignore')
np.seterr(all='ignore')

H = hashlib.sha256()
NB_RECORDS = 0


def fhex(x):
    x = float(x)
    if x != x:
        return 'nan'
    return x.hex()


def record(*items):
    global NB_RECORDS
    NB_RECORDS += 1
    H.update(('|'.join(str(i) for i in items) + '\n').encode())


def select_all_possible(logits):
    return np.nonzero(logits > -np.inf)


def select_everything(logits):
    return (np.arange(logits.shape[0]),)


SELECTORS = [('default', decoders.select_relevant_logits), ('possible', select_all_possible), ('all', select_everything)]


class TinyLM:
    """Bigram LM over the non-blank symbols, hidden state = index of the last symbol (nb_symbols = start)."""
    def __init__(self, nb_symbols, rng):
        raw = rng.dirichlet(np.ones(nb_symbols + 1), size=nb_symbols + 1)
        self.table = np.log(raw[:, :nb_symbols])
        self.eos = np.log(raw[:, nb_symbols])
        self.start = nb_symbols

    def initial_h(self, n):
        return np.full((n,), self.start, dtype=np.int64)

    def log_probs(self, h):
        return self.table[h]

    def advance_h0(self, c_inds, h):
        return np.asarray(c_inds, dtype=np.int64)

    def eos_scores(self, h):
        return self.eos[h]


def normalise(probs):
    probs = np.asarray(probs, dtype=np.float64)
    return probs / probs.sum(axis=1, keepdims=True)


def matrices(rng):
    # hand-made corner cases (3 symbols + blank)
    e = 1e-7
    yield 'single-blank', np.log(normalise([[e, e, e, 1]]))
    yield 'single-a', np.log(normalise([[1, e, e, e]]))
    yield 'aa-no-blank', np.log(normalise([[0.6, 0.1, 0.1, 0.2], [0.6, 0.1, 0.1, 0.2]]))
    yield 'a-blank-a', np.log(normalise([[0.6, 0.1, 0.1, 0.2], [0.1, 0.1, 0.1, 0.7], [0.6, 0.1, 0.1, 0.2]]))
    yield 'aab-ties', np.log(normalise([[0.25] * 4] * 4))
    yield 'ties-2', np.log(normalise([[0.5, 0.5, 0, 0], [0, 0.5, 0.5, 0], [0.25, 0.25, 0.25, 0.25]]))
    yield 'below-threshold', np.log(normalise([[1e-6, 1e-6, 1e-6, 1], [0.5, 0.2, 0.2, 0.1], [1e-6, 1e-5, 1e-6, 1], [0.3, 0.3, 0.3, 0.1]]))
    yield 'all-below-threshold', np.log(normalise([[1e-6, 1e-6, 1e-6, 1]] * 3))
    yield 'one-hot', np.log(normalise([[1, 0, 0, 0], [1, 0, 0, 0], [0, 0, 0, 1], [1, 0, 0, 0], [0, 1, 0, 0]]))
    yield 'near-det', np.log(normalise([[1, e, e, e], [e, e, e, 1], [1, e, e, e], [e, 1, e, e], [e, 1, e, e]]))
    yield 'no-blank-mass', np.log(normalise([[0.5, 0.5, 0, 0], [0.5, 0.5, 0, 0], [0.5, 0.5, 0, 0]]))
    yield 'joining', np.log(normalise([[0.4, 0.3, 0.0, 0.3], [0.3, 0.4, 0.0, 0.3], [0.1, 0.5, 0.1, 0.3], [0.3, 0.3, 0.1, 0.3]]))

    for n in range(150):
        T = int(rng.integers(1, 7))
        C = int(rng.integers(2, 6))
        kind = n % 6
        if kind == 0:
            probs = rng.dirichlet(np.ones(C), size=T)
        elif kind == 1:  # peaky
            probs = rng.dirichlet(np.ones(C) * 0.1, size=T) + 1e-12
        elif kind == 2:  # quantised -> lots of ties, some exact zeros
            probs = rng.integers(0, 4, size=(T, C)).astype(np.float64)
            probs[:, -1] += (probs.sum(axis=1) == 0)
        elif kind == 3:  # some rows blank-only (below pre-selection threshold)
            probs = rng.dirichlet(np.ones(C), size=T)
            for t in range(T):
                if rng.random() < 0.4:
                    probs[t, :-1] = rng.random(C - 1) * 4e-5
                    probs[t, -1] = 1
        elif kind == 4:  # symbols straddling the exp(-10) threshold
            probs = rng.dirichlet(np.ones(C), size=T)
            for t in range(T):
                j = int(rng.integers(0, C))
                probs[t, j] = np.exp(-10) * rng.choice([0.5, 0.999, 1.0, 1.001, 2.0])
        else:  # repeated symbol runs
            probs = np.full((T, C), 0.05)
            sym = int(rng.integers(0, C - 1)) if C > 1 else 0
            for t in range(T):
                probs[t, sym if rng.random() < 0.7 else -1] += 1.0
        yield 'rand-%d-%d' % (kind, n), np.log(normalise(probs))


def decode_all(rng):
    for name, logits in matrices(rng):
        C = logits.shape[1]
        letters = [chr(ord('a') + i) for i in range(C - 1)] + [BLANK_SYMBOL]
        lm = TinyLM(C - 1, np.random.default_rng(C))
        variants = [('f64', logits)]
        if name.startswith('rand-0') or not name.startswith('rand'):
            variants.append(('f32', logits.astype(np.float32)))
        for (vname, data), k, (sname, selector) in itertools.product(variants, [1, 2, 3, 5, 64, 4096], SELECTORS):
            configs = [('nolm', dict())]
            if k in (2, 5) and sname != 'all':
                configs.append(('lm', dict(lm=lm, lm_scale=0.7, insertion_bonus=0.3)))
            for cname, kwargs in configs:
                decoder = CTCPrefixLogRawNumpyDecoder(letters, k=k, relevant_logits_selector=selector, **kwargs)
                original = data.copy()
                try:
                    boh = decoder(data, model_eos=(cname == 'lm'))
                except Exception as exc:  # recorded, so that both versions have to agree on it
                    record(name, vname, k, sname, cname, 'EXC', type(exc).__name__)
                    continue
                assert np.array_equal(original, data, equal_nan=True), 'input modified'
                hyps = list(boh)
                transcripts = [h.transcript for h in hyps]
                record(name, vname, k, sname, cname, len(hyps), len(set(transcripts)), boh.lm_weight,
                       ';'.join('%s:%s:%s' % (h.transcript, fhex(h.vis_sc), fhex(h.lm_sc)) for h in hyps))

    # unnormalised input is to be rejected
    for scale in [0.5, 0.9999, 1.0001, 2.0]:
        logits = np.log(normalise([[0.6, 0.1, 0.1, 0.2], [0.1, 0.1, 0.1, 0.7]]) * scale)
        decoder = CTCPrefixLogRawNumpyDecoder(['a', 'b', 'c', BLANK_SYMBOL], k=3)
        try:
            decoder(logits)
            record('unnormalised', scale, 'accepted')
        except ValueError as exc:
            record('unnormalised', scale, 'ValueError', str(exc))


def random_prefix_set(rng, nb_symbols, n):
    prefixes = set()
    prefixes.add(())
    while len(prefixes) < n:
        if rng.random() < 0.6 and prefixes:
            base = list(prefixes)[int(rng.integers(0, len(prefixes)))]
            cand = tuple(base) + (int(rng.integers(0, nb_symbols)),)
        else:
            cand = tuple(int(x) for x in rng.integers(0, nb_symbols, size=int(rng.integers(0, 4))))
        prefixes.add(cand)
    prefixes = sorted(prefixes)
    order = rng.permutation(len(prefixes))
    prefixes = [prefixes[i] for i in order]
    if rng.random() < 0.3:  # not always an empty prefix present
        prefixes = [p for p in prefixes if len(p) > 0] or [()]
    return prefixes


def joining_direct(rng):
    for n in range(300):
        nb_symbols = int(rng.integers(1, 5))
        prefixes = random_prefix_set(rng, nb_symbols, int(rng.integers(1, 9)))
        selected = np.nonzero(rng.random(nb_symbols) < 0.7)[0]
        nb_sel = len(selected)
        inv = {int(v): i for i, v in enumerate(selected)}
        # reduced last chars: position among the selected symbols or the "impossible" column
        last_chars = np.asarray([inv.get(p[-1], nb_sel) if len(p) else inv.get(0, nb_sel) for p in prefixes])
        P = np.log(rng.random((len(prefixes), nb_sel + 2)))
        P[:, nb_sel] = -np.inf
        P[rng.random(P.shape) < 0.2] = -np.inf
        if n % 3 == 0:  # elements as numpy integers, as they are inside of the decoder
            A_prev = [[np.int64(c) for c in p] for p in prefixes]
        else:
            A_prev = [list(p) for p in prefixes]
        A_copy = [list(p) for p in A_prev]
        lc_copy = last_chars.copy()
        res = adjust_for_prefix_joining(P, A_prev, last_chars)
        assert res is None
        assert A_prev == A_copy and np.array_equal(lc_copy, last_chars)
        record('join', n, prefixes, last_chars.tolist(), ','.join(fhex(x) for x in P.ravel()))


def main():
    rng = np.random.default_rng(20240607)
    decode_all(rng)
    joining_direct(rng)
    print('records:', NB_RECORDS)
    print('digest:', H.hexdigest())


if __name__ == '__main__':
    main()
