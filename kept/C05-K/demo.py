"""Differential demo for change K (viterbi_align / compute_update rewrite).

Prints a digest of the results of viterbi_align(), force_align() and
align_text() on a few hundred small random inputs, including ties, +inf
entries, repeated labels, too-short inputs, blank among labels, float32 data
and generic (non-CTC) transition matrices.
"""
import hashlib
import warnings

import numpy as np

from pero_ocr.core import force_alignment as fa

warnings.simplefilter('ignore')

h = hashlib.sha256()
n_ok = 0
n_fail = 0


def record(tag, fn):
    global n_ok, n_fail
    try:
        res = fn()
        res = np.asarray(res)
        h.update('{}:{}:{}\n'.format(tag, res.shape, res.tolist()).encode())
        n_ok += 1
    except ValueError:
        h.update('{}:ValueError\n'.format(tag).encode())
        n_fail += 1


def random_costs(rng, T, C, mode):
    if mode == 0:      # continuous
        m = rng.random((T, C)) * 10
    elif mode == 1:    # few integer levels -> lots of ties
        m = rng.integers(0, 3, size=(T, C)).astype(float)
    elif mode == 2:    # all equal -> everything ties
        m = np.full((T, C), 1.5)
    elif mode == 3:    # proper neg-log-softmax
        z = rng.normal(size=(T, C)) * 3
        m = -(z - np.log(np.exp(z).sum(axis=1, keepdims=True)))
    else:              # ties + +inf entries
        m = rng.integers(0, 3, size=(T, C)).astype(float)
        m[rng.random((T, C)) < 0.25] = np.inf
    return m


rng = np.random.default_rng(20240605)

# 1) full pipeline
for case in range(600):
    C = int(rng.integers(2, 6))
    T = int(rng.integers(1, 13))
    blank = int(rng.integers(0, C))
    if rng.random() < 0.7:
        L = int(rng.integers(1, (T + 1) // 2 + 1))
    else:
        L = int(rng.integers(1, T + 3))
    non_blank = [c for c in range(C) if c != blank]
    labels = [int(rng.choice(non_blank))]
    for _ in range(L - 1):
        if rng.random() < 0.4:
            labels.append(labels[-1])     # immediate repeat
        else:
            labels.append(int(rng.choice(non_blank)))
    if rng.random() < 0.05:
        labels[int(rng.integers(0, L))] = blank   # blank among labels
    costs = random_costs(rng, T, C, case % 5)
    if case % 7 == 0:
        costs = costs.astype(np.float32)
    if case % 11 == 0:
        costs = np.asfortranarray(costs)

    record('fa{}'.format(case), lambda: fa.force_align(costs, labels, blank))
    record('fp{}'.format(case), lambda: fa.force_align(costs, labels, blank, return_seq_positions=True))
    record('at{}'.format(case), lambda: fa.align_text(costs, np.array(labels), blank))
    record('fl{}'.format(case), lambda: fa.force_align(costs, np.array(labels), blank))

# 2) viterbi_align with generic transition matrices
for case in range(300):
    S = int(rng.integers(2, 7))
    T = int(rng.integers(1, 9))
    A = np.where(rng.random((S, S)) < 0.5, 0.0, np.inf)
    if case % 3 == 0:
        A = np.triu(A)
        A[np.arange(S), np.arange(S)] = 0.0
    if case % 10 == 0:
        A[:] = np.inf
    neg_logits = random_costs(rng, T, S, case % 5)
    record('va{}'.format(case), lambda: fa.viterbi_align(neg_logits, A))

# 3) the hand-made cases of the test-suite
A3 = np.asarray([[0.0, 0.0, np.inf], [np.inf, 0.0, 0.0], [np.inf, np.inf, 0.0]])
record('t1', lambda: fa.viterbi_align(np.asarray([[0.0, 10.0], [0.0, 10.0], [10.0, 0.0]]), A3))
record('t2', lambda: fa.viterbi_align(np.asarray([[0.0, np.inf, 0.0]] * 3), A3))
record('t3', lambda: fa.viterbi_align(np.asarray([[0.0, 10.0, 0.0], [0.0, 8.0, 0.0], [0.0, 10.0, 0.0]]), A3))
record('t4', lambda: fa.force_align(np.asarray([[10.0, 10.0, 0.0], [0.0, 10.0, 10.0]]), [1, 2], 0))
record('t5', lambda: fa.force_align(np.zeros((1, 2)), [1], 0))
record('t6', lambda: fa.force_align(np.zeros((40, 3)), [1, 1, 2, 2, 1] * 4, 0))
record('t7', lambda: fa.force_align(np.zeros((41, 3)), [1, 1, 2, 2, 1] * 4, 0))

print('cases ok={} failed={}'.format(n_ok, n_fail))
print('digest', h.hexdigest())
