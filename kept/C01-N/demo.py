"""Differential test for change N (serialisation of coordinates and lines in the PAGE XML export).

Run without arguments with the tree under test on PYTHONPATH.
First run (clean tree): writes reference.json next to this file and prints what it recorded.
Later runs: recompute everything and compare with reference.json
  * exported documents (timestamps removed), structure, ids, strings, integer coordinates, booleans: exactly,
  * floats (heights, confidences of re-loaded pages): |a-b| <= 1e-9 * max(1, |a|, |b|),
  * the heights printed with one decimal in a re-exported document: exactly, unless the underlying float lies
    within 1e-9 (relative) of a decimal rounding boundary, where one unit of the last printed digit is accepted
    (change N does not touch any float arithmetic, the allowance is there only for uniformity with demo M).
Prints MATCH (exit 0) or DIFFERENT: <what> (exit 1).
"""
import json
import math
import os
import random
import re
import sys
import warnings

import numpy as np

warnings.filterwarnings('ignore')

from pero_ocr.core.layout import PageLayout, RegionLayout, TextLine, PAGEVersion  # noqa: E402

HERE = os.path.dirname(os.path.abspath(__file__))
REFERENCE = os.path.join(HERE, 'reference.json')
REL_TOL = 1e-9

TEXTS = [None, '', 'plain text', ' leading and trailing  ', '<a href="x">&amp;</a> \' "', 'e\u0301a\u0308 combining',
         '\u05e9\u05dc\u05d5\u05dd \u0645\u0631\u062d\u0628\u0627 rtl', 'astral \U0001d4d0\U0001f600 plane',
         '\t tab', '\u017elu\u0165ou\u010dk\u00fd k\u016f\u0148', ']]> cdata', '   ']


# ---------------------------------------------------------------------------------------------------------------------
# input generation (pure python RNG, independent of numpy's global generator which the library itself uses)
# ---------------------------------------------------------------------------------------------------------------------
def wavy_line(rng, n_points, integer, scale=1.0, shift=(0.0, 0.0), vertical=False):
    """A baseline with n_points points and a polygon around it the way the layout parsers produce them."""
    x0 = rng.uniform(-50, 300)
    y0 = rng.uniform(-50, 300)
    length = rng.uniform(40, 600)
    up = rng.uniform(5, 40)
    down = rng.uniform(2, 15)
    slope = rng.uniform(-0.3, 0.3)
    xs = [x0 + length * i / max(1, n_points - 1) for i in range(n_points)]
    ys = [y0 + slope * (x - x0) + rng.uniform(-2, 2) for x in xs]
    baseline = [[x, y] for x, y in zip(xs, ys)]
    top = [[x, y - up + rng.uniform(-1, 1)] for x, y in zip(xs, ys)]
    bottom = [[x, y + down + rng.uniform(-1, 1)] for x, y in zip(xs, ys)]
    if n_points == 1:
        top = [[x0 - 5, y0 - up], [x0 + 5, y0 - up]]
        bottom = [[x0 - 5, y0 + down], [x0 + 5, y0 + down]]
    polygon = top + bottom[::-1]
    if vertical:
        baseline = [[y, x] for x, y in baseline]
        polygon = [[y, x] for x, y in polygon]
    baseline = (np.asarray(baseline) + np.asarray(shift)) * scale
    polygon = (np.asarray(polygon) + np.asarray(shift)) * scale
    if integer:
        baseline = np.round(baseline).astype(np.int64)
        polygon = np.round(polygon).astype(np.int64)
    return baseline, polygon


def encode_float(value):
    return float(value)


def encode_points(points):
    if points is None:
        return None
    return [[int(v) if isinstance(v, (int, np.integer)) else float(v) for v in point] for point in
            np.asarray(points).tolist()]


# ---------------------------------------------------------------------------------------------------------------------
# part A: export of coordinates held in all kinds of containers / dtypes / memory layouts
# ---------------------------------------------------------------------------------------------------------------------
HALVES = [[-2.5, -1.5], [-0.5, 0.5], [1.5, 2.5], [3.5, -0.4], [0.49999999999999994, 1.4999999999999998],
          [2.5000000000000004, -0.0], [1e15 + 0.5, -1e15 - 0.5], [4503599627370497.5, 9007199254740993.0]]


def coordinate_containers():
    """(name, points) - the same kind of thing is used as region polygon, line polygon and line baseline."""
    ints = [[10, 20], [110, 22], [112, 60], [-8, 58]]
    floats = [[10.25, 20.5], [110.5, 21.5], [112.4999, 60.5001], [-8.5, 58.75]]
    big_float = np.asarray(floats) * 1e3
    cases = [('int64', np.asarray(ints, dtype=np.int64))]
    for dtype in (np.int8, np.int16, np.int32, np.uint8, np.uint16, np.uint32, np.uint64, np.intp):
        cases.append((np.dtype(dtype).name, np.abs(np.asarray(ints)).astype(dtype)))
    cases += [
        ('int64_extreme', np.asarray([[2 ** 63 - 1, -2 ** 63], [2 ** 53 + 1, -2 ** 53 - 1], [0, 1]], dtype=np.int64)),
        ('uint64_extreme', np.asarray([[2 ** 64 - 1, 2 ** 63], [2 ** 53 + 1, 0], [5, 1]], dtype=np.uint64)),
        ('int64_big_endian', np.asarray(ints).astype('>i8')),
        ('float64', np.asarray(floats)),
        ('float64_halves', np.asarray(HALVES)),
        ('float64_big', np.asarray([[1e18, -1e18], [1.5e19, 1e30], [1e300, -1e300], [2.0 ** 63, 2.0 ** 64]])),
        ('float64_big_endian', np.asarray(floats).astype('>f8')),
        ('float32', np.asarray(floats, dtype=np.float32)),
        ('float32_halves', np.asarray(HALVES[:4], dtype=np.float32)),
        ('float32_big', np.asarray([[1e10, -3e20], [16777217, 1e38]], dtype=np.float32)),
        ('float16', np.asarray(floats, dtype=np.float16)),
        ('longdouble', np.asarray(floats, dtype=np.longdouble)),
        ('bool', np.asarray([[True, False], [False, True], [True, True]])),
        ('object_ints', np.asarray([[10 ** 30, -10 ** 25], [5, 6], [7, 10 ** 20]], dtype=object)),
        ('object_floats', np.asarray([[10.5, 11.5], [5, 6.25], [7, 8]], dtype=object)),
        ('list_of_lists_int', [list(p) for p in ints]),
        ('list_of_lists_float', [list(p) for p in floats]),
        ('list_of_lists_mixed', [[10, 20.5], [2 ** 60 + 1, 3], [1.5, 2 ** 70]]),
        ('list_of_tuples', [tuple(p) for p in floats]),
        ('tuple_of_arrays', tuple(np.asarray(p) for p in floats)),
        ('list_of_np_scalars', [[np.float32(a), np.int16(b)] for a, b in ints]),
        ('three_columns_int', np.asarray([[1, 2, 3], [4, 5, 6], [7, 8, 9]])),
        ('three_columns_float', np.asarray([[1.5, 2.5, np.nan], [4.4, 5.6, np.inf], [7, 8, 9]])),
        ('reversed_rows_view', np.asarray(floats)[::-1]),
        ('swapped_columns_view', np.asarray(floats)[:, ::-1]),
        ('strided_view', np.asarray(list(floats) * 3)[::2]),
        ('column_slice_view', np.asarray([[1.5, 2.5, 3.5, 4.5], [5.5, 6.5, 7.5, 8.5], [0, 1, 2, 3]])[:, 1:3]),
        ('fortran_order', np.asfortranarray(big_float)),
        ('transposed', np.asarray(floats + floats).reshape(2, 8).T[:, ::-1]),
        ('read_only', np.asarray(floats)),
        ('matrix_subclass', np.matrix(floats)),
        ('masked_array', np.ma.masked_array(np.asarray(floats), mask=[[0, 0], [0, 1], [0, 0], [0, 0]])),
        ('masked_array_no_mask', np.ma.masked_array(np.asarray(floats))),
        ('empty_0x2_int', np.zeros((0, 2), dtype=np.int64)),
        ('empty_0x2_float', np.zeros((0, 2))),
        ('empty_1d', np.asarray([])),
        ('empty_list', []),
        ('single_point', np.asarray([[3.5, 4.5]])),
        ('one_column', np.asarray([[1.0], [2.0]])),
        ('one_dimensional', np.asarray([1.0, 2.0, 3.0])),
        ('three_dimensional', np.zeros((2, 2, 2))),
        ('nan_inside', np.asarray([[1.0, 2.0], [np.nan, 3.0]])),
        ('inf_inside', np.asarray([[1.0, 2.0], [3.0, -np.inf]])),
        ('float32_nan', np.asarray([[1.0, np.nan]], dtype=np.float32)),
        ('complex', np.asarray([[1 + 0j, 2 + 0j]])),
        ('strings', np.asarray([['1', '2'], ['3', '4']])),
    ]
    cases[[name for name, _ in cases].index('read_only')][1].setflags(write=False)
    return cases


def snapshot(points):
    try:
        return repr(np.asarray(points).tolist()), str(getattr(points, 'dtype', None))
    except Exception:
        return None


def export_page(page, **kwargs):
    try:
        return strip_timestamps(page.to_pagexml_string(**kwargs))
    except Exception as e:  # only for inputs outside the quantifier; the type is recorded nevertheless
        return 'EXCEPTION ' + type(e).__name__


def part_direct():
    records = {}
    rect = np.asarray([[0, 0], [100, 0], [100, 50], [0, 50]])
    for name, points in coordinate_containers():
        before = snapshot(points)
        for role in ('region_polygon', 'line_polygon', 'line_baseline'):
            for version in (PAGEVersion.PAGE_2019_07_15, PAGEVersion.PAGE_2013_07_15):
                page = PageLayout(id='containers.jpg', page_size=(100, 200))
                region = RegionLayout('r', points if role == 'region_polygon' else rect, region_type='paragraph')
                line = TextLine(id='l', index=3, heights=[10.04, 3.05], transcription='text <&>',
                                transcription_confidence=0.12345,
                                polygon=points if role == 'line_polygon' else rect,
                                baseline=points if role == 'line_baseline' else np.asarray([[0, 30], [100, 30]]))
                region.lines.append(line)
                page.regions.append(region)
                xml = export_page(page, version=version, validate_id=(role == 'line_polygon'))
                record = {'xml': xml}
                if not xml.startswith('EXCEPTION'):
                    reloaded = PageLayout()
                    try:
                        np.random.seed(3)
                        reloaded.from_pagexml_string(xml)
                        record['reloaded'] = page_state(reloaded)
                        record['xml_again'] = export_page(reloaded, version=version)
                    except Exception as e:
                        record['reload_exception'] = type(e).__name__
                records['container/%s/%s/%s' % (name, role, version.name)] = record
        records['container/%s/input_untouched' % name] = {'untouched': before == snapshot(points)}

    # pieces of the line / region export which do not depend on coordinates
    variants = {
        'no_polygon': dict(polygon=None),
        'no_baseline': dict(baseline=None),
        'no_polygon_no_baseline': dict(polygon=None, baseline=None),
        'no_index': dict(index=None),
        'index_zero': dict(index=0),
        'index_negative': dict(index=-7),
        'index_numpy': dict(index=np.int64(12)),
        'index_float': dict(index=2.0),
        'index_bool': dict(index=True),
        'no_heights': dict(heights=None),
        'heights_array': dict(heights=np.asarray([12.25, 3.35], dtype=np.float32)),
        'heights_ints': dict(heights=[12, 3]),
        'heights_tuple_long': dict(heights=(1.05, 2.15, 3.0)),
        'heights_negative_zero': dict(heights=[-0.0, -0.04]),
        'heights_nan': dict(heights=[float('nan'), float('inf')]),
        'no_transcription': dict(transcription=None, transcription_confidence=0.5),
        'empty_transcription': dict(transcription=''),
        'no_confidence': dict(transcription_confidence=None),
        'confidence_int': dict(transcription_confidence=1),
        'confidence_zero': dict(transcription_confidence=0),
        'confidence_numpy': dict(transcription_confidence=np.float32(0.9995)),
        'confidence_half': dict(transcription_confidence=0.0005),
        'confidence_nan': dict(transcription_confidence=float('nan')),
        'id_none_validate': dict(id=None),
        'illegal_xml_text': dict(transcription='a\x00b'),
    }
    for t, text in enumerate(TEXTS):
        variants['text_%d' % t] = dict(transcription=text)
    for name, changes in variants.items():
        for validate_id in (False, True):
            arguments = dict(id='l', index=3, heights=[10.04, 3.05], transcription='text',
                             transcription_confidence=0.12345, polygon=rect, baseline=np.asarray([[0, 30], [100, 30]]))
            arguments.update(changes)
            page = PageLayout(id='variants.jpg', page_size=(100, 200))
            region = RegionLayout('r', rect, region_type=None if name.startswith('text') else 'paragraph')
            region.transcription = arguments['transcription'] if name.startswith('text') else None
            region.lines.append(TextLine(id='first', index=None, polygon=rect, baseline=rect[:2]))
            region.lines.append(TextLine(**arguments))
            page.regions.append(region)
            for version in (PAGEVersion.PAGE_2019_07_15, PAGEVersion.PAGE_2013_07_15):
                records['variant/%s/validate=%d/%s' % (name, validate_id, version.name)] = {
                    'xml': export_page(page, version=version, validate_id=validate_id, creator='demo <N>')}
    page = PageLayout(id='bad_version.jpg', page_size=(1, 2))
    page.regions = [RegionLayout('b', rect), RegionLayout('a', rect)]
    page.reading_order = {'a': 0, 'b': 1}
    records['bad_version'] = {'xml': export_page(page, version='2019'),
                              'region_order_afterwards': [region.id for region in page.regions]}
    return records


# ---------------------------------------------------------------------------------------------------------------------
# part B: PAGE XML round trips (export -> import -> export -> import -> export)
# ---------------------------------------------------------------------------------------------------------------------
def strip_timestamps(xml):
    xml = re.sub(r'<Created>[^<]*</Created>', '<Created/>', xml)
    return re.sub(r'<LastChange>[^<]*</LastChange>', '<LastChange/>', xml)


def make_page(rng, i):
    page = PageLayout(id='page_%d <&>.jpg' % i, page_size=(rng.randint(0, 4000), rng.randint(0, 4000)))
    n_regions = [0, 1, 1, 2, 3, 5][i % 6]
    for r in range(n_regions):
        corner = np.asarray([[rng.uniform(-100, 100), rng.uniform(-100, 100)]])
        region_polygon = corner + np.asarray([[0, 0], [900.5, 3.25], [905.5, 700.75], [-2.5, 690.5]])
        if r % 2:
            region_polygon = np.round(region_polygon).astype(int)
        region = RegionLayout('r%d' % r, region_polygon, region_type=[None, 'paragraph', 'heading'][(i + r) % 3])
        if (i + r) % 4 == 0:
            region.transcription = TEXTS[(i + r) % len(TEXTS)]
        n_lines = [0, 1, 2, 4][(i + r) % 4]
        for li in range(n_lines):
            n_points = [2, 3, 5, 8, 9, 13, 21, 1][(i + r + li) % 8]
            baseline, polygon = wavy_line(rng, n_points, integer=(i + li) % 2 == 0,
                                          shift=(rng.uniform(-400, 400), rng.uniform(-400, 400)),
                                          vertical=(i + li) % 13 == 0)
            line = TextLine(id='r%d-l%d' % (r, li), baseline=baseline, polygon=polygon)
            if (i + r + li) % 3 == 0:   # two thirds of the lines have no heights: they are guessed on import
                line.heights = [rng.uniform(0, 60), rng.uniform(0, 30)]
            if (i + li) % 5 != 0:
                line.index = rng.randint(0, 50)
            line.transcription = TEXTS[(i * 7 + r * 3 + li) % len(TEXTS)]
            if line.transcription is not None and (i + li) % 2 == 0:
                line.transcription_confidence = rng.random()
            region.lines.append(line)
        page.regions.append(region)
    if i % 3 == 1 and n_regions > 0:
        ids = [region.id for region in page.regions]
        rng.shuffle(ids)
        if i % 2:
            ids = ids[:max(1, len(ids) // 2)]   # partial reading order
        page.reading_order = {region_id: position + (i % 4) for position, region_id in enumerate(ids)}
    return page


def page_state(page):
    return {
        'id': page.id,
        'page_size': [int(v) for v in page.page_size],
        'reading_order': page.reading_order,
        'regions': [{
            'id': region.id,
            'type': region.region_type,
            'polygon': encode_points(region.polygon),
            'transcription': region.transcription,
            'lines': [{
                'id': line.id,
                'index': line.index,
                'baseline': encode_points(line.baseline),
                'polygon': encode_points(line.polygon),
                'heights': None if line.heights is None else [encode_float(h) for h in line.heights],
                'transcription': line.transcription,
                'confidence': None if line.transcription_confidence is None else encode_float(
                    line.transcription_confidence),
            } for line in region.lines],
        } for region in page.regions],
    }


def part_round_trip():
    rng = random.Random(77)
    records = {}
    for i in range(150):
        page = make_page(rng, i)
        for version in (PAGEVersion.PAGE_2019_07_15, PAGEVersion.PAGE_2013_07_15):
            np.random.seed(1000 + i)
            xml1 = page.to_pagexml_string(version=version)
            page1 = PageLayout()
            page1.from_pagexml_string(xml1)
            state1 = page_state(page1)
            xml2 = page1.to_pagexml_string(version=version)
            page2 = PageLayout()
            page2.from_pagexml_string(xml2)
            state2 = page_state(page2)
            xml3 = page2.to_pagexml_string(version=version)
            page3 = PageLayout()
            page3.from_pagexml_string(xml3)
            xml4 = page3.to_pagexml_string(version=version)
            records['page/%03d/%s' % (i, version.name)] = {
                'xml1': strip_timestamps(xml1),
                'reloaded': state1,
                'xml2': strip_timestamps(xml2),
                'reloaded_again': state2,
                'fixpoint': strip_timestamps(xml3) == strip_timestamps(xml4),
                'xml2_equals_xml3': strip_timestamps(xml2) == strip_timestamps(xml3),
            }
    return records


# ---------------------------------------------------------------------------------------------------------------------
# tolerant comparison
# ---------------------------------------------------------------------------------------------------------------------
class Stats:
    max_rel = 0.0
    n_floats = 0
    n_float_differences = 0
    n_boundary_cases = 0


def floats_close(a, b):
    if math.isnan(a) or math.isnan(b):
        return math.isnan(a) and math.isnan(b)
    if math.isinf(a) or math.isinf(b):
        return a == b
    Stats.n_floats += 1
    if a != b:
        Stats.n_float_differences += 1
        Stats.max_rel = max(Stats.max_rel, abs(a - b) / max(abs(a), abs(b)))
    return abs(a - b) <= REL_TOL * max(1.0, abs(a), abs(b))


HEIGHTS_RE = re.compile(r'custom="heights_v2:\[([^,\]]*),([^\]]*)\]"')


def near_rounding_boundary(value):
    scaled = abs(value) * 10
    return abs(scaled - math.floor(scaled) - 0.5) <= REL_TOL * max(1.0, scaled)


def compare_xml_with_heights(path, reference, current, source_heights):
    """Documents must be identical; printed heights may differ by 0.1 when the printed float sits on a boundary."""
    if HEIGHTS_RE.sub('custom="H"', reference) != HEIGHTS_RE.sub('custom="H"', current):
        return '%s: documents differ outside of the printed heights' % path
    ref_heights = [float(v) for pair in HEIGHTS_RE.findall(reference) for v in pair]
    cur_heights = [float(v) for pair in HEIGHTS_RE.findall(current) for v in pair]
    if len(ref_heights) != len(cur_heights):
        return '%s: different number of printed heights' % path
    for k, (a, b) in enumerate(zip(ref_heights, cur_heights)):
        if a == b or (math.isnan(a) and math.isnan(b)):
            continue
        source = source_heights[k] if source_heights is not None and k < len(source_heights) else None
        if source is not None and abs(a - b) <= 0.1 + 1e-9 and near_rounding_boundary(source):
            Stats.n_boundary_cases += 1
            continue
        return '%s: printed height %d differs: %r vs %r' % (path, k, a, b)
    return None


def compare(path, reference, current):
    if isinstance(reference, dict) and isinstance(current, dict):
        if sorted(reference) != sorted(current):
            return '%s: different keys %s vs %s' % (path, sorted(reference), sorted(current))
        if 'xml2' in reference and 'reloaded' in reference:
            source_heights = [h for region in current['reloaded']['regions'] for line in region['lines']
                              for h in (line['heights'] or [])]
            problem = compare_xml_with_heights(path + '/xml2', reference['xml2'], current['xml2'], source_heights)
            if problem:
                return problem
        for key in reference:
            if key == 'xml2' and 'reloaded' in reference:
                continue
            problem = compare('%s/%s' % (path, key), reference[key], current[key])
            if problem:
                return problem
        return None
    if isinstance(reference, list) and isinstance(current, list):
        if len(reference) != len(current):
            return '%s: different lengths %d vs %d' % (path, len(reference), len(current))
        for k, (a, b) in enumerate(zip(reference, current)):
            problem = compare('%s[%d]' % (path, k), a, b)
            if problem:
                return problem
        return None
    if isinstance(reference, bool) or isinstance(current, bool) or reference is None or current is None \
            or isinstance(reference, str) or isinstance(current, str):
        if type(reference) is not type(current) or reference != current:
            return '%s: %r vs %r' % (path, reference, current)
        return None
    if isinstance(reference, int) and isinstance(current, int):
        return None if reference == current else '%s: %r vs %r' % (path, reference, current)
    if isinstance(reference, (int, float)) and isinstance(current, (int, float)):
        if isinstance(reference, int) != isinstance(current, int):
            return '%s: integer vs float: %r vs %r' % (path, reference, current)
        return None if floats_close(float(reference), float(current)) else '%s: %r vs %r' % (path, reference, current)
    return '%s: incomparable %r vs %r' % (path, reference, current)


def main():
    results = {'direct': part_direct(), 'round_trip': part_round_trip()}
    results = json.loads(json.dumps(results))   # the same normalisation as a stored reference goes through
    n_direct = len(results['direct'])
    n_pages = len(results['round_trip'])
    if not os.path.exists(REFERENCE):
        with open(REFERENCE, 'w') as f:
            json.dump(results, f, indent=0, sort_keys=True)
        n_exceptions = sum(1 for r in results['direct'].values() if str(r.get('xml', '')).startswith('EXCEPTION'))
        n_fix = sum(1 for r in results['round_trip'].values() if r['fixpoint'])
        print('REFERENCE WRITTEN: %s (%d direct exports, %d of them raising; %d page round trips, '
              '%d of them reaching a fixpoint)' % (REFERENCE, n_direct, n_exceptions, n_pages, n_fix))
        return 0
    with open(REFERENCE) as f:
        reference = json.load(f)
    problem = compare('', reference, results)
    if problem:
        print('DIFFERENT: ' + problem[:600])
        return 1
    print('MATCH (%d direct exports, %d page round trips; %d floats compared, %d not bit-identical, '
          'max relative difference %.3g, %d printed heights on a rounding boundary)'
          % (n_direct, n_pages, Stats.n_floats, Stats.n_float_differences, Stats.max_rel, Stats.n_boundary_cases))
    return 0


if __name__ == '__main__':
    sys.exit(main())
