#!/usr/bin/env python
"""Differential test for change M (C06): EngineLineCropper.get_crop_inputs numerics.

First run on the clean tree writes reference.json next to this file.  Later runs compare the
current results against it with explicit tolerances and print MATCH (exit 0) or
DIFFERENT: <what> (exit 1).

What is recorded
  * "crop":  EngineLineCropper.get_crop_inputs() on ~330 baselines (horizontal, sloped, vertical, reversed,
             curved, 1-2 px long, single point; poly 0/1/2; int / float heights; scale).  float32 data,
             compared with 1e-6 relative tolerance; shapes compared exactly.
  * "alto":  PageLayout.to_altoxml_string() on ~220 generated pages (peaky / diffuse / too short / absent logits,
             unknown frame window, charset and out-of-charset text, all kinds of blanks, Latin and Arabic
             lines, several confidence thresholds).  Parsed XML: strings and integers compared exactly
             (attribute order is ignored), WC / line confidences with 1e-9 tolerance; re-imported words exactly.
"""
import io
import json
import logging
import os
import sys
import warnings

import numpy as np
from scipy import sparse
import lxml.etree as ET

warnings.filterwarnings("ignore")
logging.disable(logging.CRITICAL)

from pero_ocr.core.layout import PageLayout, RegionLayout, TextLine  # noqa: E402
from pero_ocr.core.crop_engine import EngineLineCropper  # noqa: E402
from pero_ocr.core.arabic_helper import ArabicHelper  # noqa: E402

HERE = os.path.dirname(os.path.abspath(__file__))
REFERENCE = os.path.join(HERE, "reference.json")

TOL_F32 = 1e-6
TOL_F64 = 1e-9

LATIN = list("abcdefghijklmnopqrstuvwxyzABCDEFGH0123456789.,-:") + [" "]
ARABIC = list("ابتثجحخدذرزسشصضطظعغفقكلمنهوي")
CHARSET = LATIN + ARABIC            # the CTC blank is one more column behind the charset
OUTSIDE = list("žř€ßΩ")
BLANKS = [" ", " ", " ", "  ", "   ", "\u00a0", "\t", "\u2009", "\u3000", " \u00a0", "\t ", "\u2009\u2009"]


# ----------------------------------------------------------------------------------------------------------------
# generators
# ----------------------------------------------------------------------------------------------------------------
def gen_baseline(rng, kind):
    x0 = int(rng.randint(5, 60))
    y0 = int(rng.randint(40, 400))
    length = int(rng.randint(30, 160))
    n = int(rng.randint(2, 7))
    xs = np.sort(rng.choice(np.arange(1, length), size=n - 2, replace=False)) if n > 2 else np.zeros(0, int)
    xs = np.concatenate([[0], xs, [length]]).astype(float)
    if kind == "horizontal":
        ys = np.zeros(n)
    elif kind == "sloped":
        ys = xs * rng.uniform(-0.4, 0.4)
    elif kind == "curved":
        ys = xs * rng.uniform(-0.2, 0.2) + rng.uniform(-6, 6) * np.sin(xs / length * np.pi)
    elif kind == "vertical":
        return np.stack([np.full(n, x0 + 100.0), y0 + xs], axis=1).astype(int)
    elif kind == "reversed":
        return np.stack([x0 + xs[::-1], np.full(n, float(y0))], axis=1).astype(int)
    elif kind == "pythagorean":
        k = int(rng.randint(5, 30))
        return np.array([[x0, y0], [x0 + 4 * k, y0 + 3 * k]])
    elif kind == "tiny":
        return np.array([[x0, y0], [x0 + int(rng.randint(1, 3)), y0]])
    elif kind == "point":
        return np.array([[x0, y0], [x0, y0]])
    else:
        raise ValueError(kind)
    base = np.stack([x0 + xs, y0 + ys], axis=1)
    if rng.rand() < 0.5:
        return np.round(base).astype(int)
    return base  # float baseline (get_crop_inputs truncates it to int itself)


def gen_heights(rng):
    r = rng.rand()
    if r < 0.3:
        return [12, 4]
    if r < 0.5:
        return [int(rng.randint(5, 30)), int(rng.randint(2, 12))]
    if r < 0.7:
        return np.array([rng.uniform(5, 30), rng.uniform(2, 12)])
    return [float(np.float32(rng.uniform(5, 30))), float(np.float32(rng.uniform(2, 12)))]


def polygon_around(rng, baseline, heights):
    b = np.asarray(baseline, dtype=float)
    up = b - np.array([0, float(heights[0])])
    down = b + np.array([0, float(heights[1])])
    poly = np.concatenate([up, down[::-1]], axis=0)
    if rng.rand() < 0.5:
        return np.round(poly).astype(int)
    return poly + rng.uniform(-0.5, 0.5, size=poly.shape)


def gen_words(rng, script, n_words, outside):
    words = []
    for _ in range(n_words):
        ln = int(rng.randint(1, 7))
        if script == "arabic" and rng.rand() < 0.75:
            w = "".join(rng.choice(ARABIC, size=ln))
        elif rng.rand() < 0.15:
            w = "".join(rng.choice(list("0123456789"), size=ln))
        else:
            w = "".join(rng.choice(LATIN[:-1], size=ln))
        if outside and rng.rand() < 0.5:
            pos = int(rng.randint(0, len(w) + 1))
            w = w[:pos] + str(rng.choice(OUTSIDE)) + w[pos:]
        words.append(w)
    if script == "arabic" and not any(c in ARABIC for c in words[0]):
        words[0] = "".join(rng.choice(ARABIC, size=3))
    return words


def gen_transcription(rng, script, outside):
    n_words = int(rng.choice([1, 1, 2, 3, 4, 6]))
    words = gen_words(rng, script, n_words, outside)
    text = words[0]
    for w in words[1:]:
        text += str(rng.choice(BLANKS)) + w
    r = rng.rand()
    if r < 0.15:
        text = str(rng.choice(BLANKS)) + text
    elif r < 0.3:
        text = text + str(rng.choice(BLANKS))
    elif r < 0.4:
        text = str(rng.choice(BLANKS)) + text + str(rng.choice(BLANKS))
    return text


def labels_of(text):
    lookup = {c: i for i, c in enumerate(CHARSET)}
    return [lookup.get(c, 0) for c in text]


def gen_logits(rng, text, kind):
    """Returns (sparse logits or None, characters or None, logit_coords or None)."""
    n_sym = len(CHARSET) + 1
    blank = n_sym - 1
    labels = labels_of(text)
    L = len(labels)
    if kind == "absent":
        return None, None, None
    if kind == "too_short":
        T = max(1, L - int(rng.randint(1, 4)))
    elif kind == "transformer":
        T = L
    else:
        T = 2 * L + 1 + int(rng.randint(0, 2 * L + 4))
    pad_l, pad_r = 0, 0
    if kind in ("window", "peaky") and rng.rand() < 0.5:
        pad_l, pad_r = int(rng.randint(0, 4)), int(rng.randint(0, 4))
    total = T + pad_l + pad_r
    dense = np.zeros((total, n_sym))
    if kind == "diffuse":
        dense = rng.normal(0, 1.0, size=(total, n_sym))
    elif kind == "uniform":
        dense[:] = 1.0
    else:
        # peaky: every character gets its own frame, blanks everywhere else, a little clutter around
        dense[:, blank] = rng.uniform(6, 10, size=total)
        if T >= L:
            if T >= 2 * L:
                frames = 1 + 2 * np.sort(rng.choice(np.arange((T - 1) // 2), size=L, replace=False))
            else:
                frames = np.sort(rng.choice(np.arange(T), size=L, replace=False))
            for f, lab in zip(frames, labels):
                dense[pad_l + f, blank] = rng.uniform(-3, 1)
                dense[pad_l + f, lab] = rng.uniform(6, 10)
        n_clutter = int(rng.randint(0, 3 * total + 1))
        rows = rng.randint(0, total, size=n_clutter)
        cols = rng.randint(0, n_sym, size=n_clutter)
        for r_, c_ in zip(rows, cols):
            if dense[r_, c_] == 0:
                dense[r_, c_] = rng.uniform(-6, 3)
    logits = sparse.csc_matrix(dense)
    if kind == "unknown_window":
        coords = [None, None]
    elif pad_l or pad_r:
        coords = [pad_l, pad_l + T]
    else:
        coords = [0, total] if rng.rand() < 0.5 else [None, None]
    return logits, list(CHARSET), coords


LOGIT_KINDS = ["peaky", "peaky", "peaky", "window", "diffuse", "uniform", "too_short", "absent",
               "unknown_window", "transformer"]
BASELINE_KINDS = ["horizontal", "horizontal", "sloped", "sloped", "curved", "curved", "vertical", "reversed",
                  "pythagorean", "tiny"]


def gen_page(rng, idx):
    page = PageLayout(id="page {}:{}.jpg".format(idx, rng.randint(1000)), page_size=(int(rng.randint(500, 900)),
                                                                                   int(rng.randint(400, 800))))
    if idx % 37 == 0:
        return page  # no regions at all
    for r in range(int(rng.randint(1, 4))):
        x0, y0 = rng.randint(0, 200, size=2)
        w, h = rng.randint(50, 400, size=2)
        poly = np.array([[x0, y0], [x0 + w, y0], [x0 + w, y0 + h], [x0, y0 + h]])
        if rng.rand() < 0.4:
            poly = poly + rng.uniform(-0.9, 0.9, size=poly.shape)
        region = RegionLayout("r{}".format(r), poly)
        for l in range(int(rng.randint(0, 5))):
            script = "arabic" if rng.rand() < 0.25 else "latin"
            outside = rng.rand() < 0.2
            r_ = rng.rand()
            if r_ < 0.05:
                text = None
            elif r_ < 0.08:
                text = ""
            elif r_ < 0.12:
                text = str(rng.choice(BLANKS)) * int(rng.randint(1, 3))
            else:
                text = gen_transcription(rng, script, outside)
            baseline = gen_baseline(rng, str(rng.choice(BASELINE_KINDS)))
            heights = gen_heights(rng)
            polygon = polygon_around(rng, baseline, heights)
            kind = str(rng.choice(LOGIT_KINDS))
            if text:
                logits, characters, coords = gen_logits(rng, text, kind)
            else:
                logits, characters, coords = None, None, None
            line = TextLine(id="r{}-l{}".format(r, l), baseline=baseline, polygon=polygon, heights=heights,
                            transcription=text, logits=logits, characters=characters, logit_coords=coords)
            region.lines.append(line)
        page.regions.append(region)
    return page


# ----------------------------------------------------------------------------------------------------------------
# observation
# ----------------------------------------------------------------------------------------------------------------
def num(value):
    """ALTO geometry attributes must be integers: keep them as int when they are, else keep the raw string."""
    try:
        return int(value)
    except (TypeError, ValueError):
        return "NOT-INT:" + repr(value)


def box(el):
    return {k: num(el.get(k)) for k in ("HEIGHT", "WIDTH", "VPOS", "HPOS")}


def strip_ns(tag):
    return tag.split("}")[-1]


def observe_alto(page, min_conf):
    out = {}
    try:
        xml = page.to_altoxml_string(min_line_confidence=min_conf)
    except Exception as e:  # the statement says this never happens; record it if it does
        return {"exception": type(e).__name__}
    root = ET.fromstring(xml.encode("utf-8"))
    page_el = [e for e in root.iter() if strip_ns(e.tag) == "Page"][0]
    out["page"] = {"ID": page_el.get("ID"), "HEIGHT": num(page_el.get("HEIGHT")), "WIDTH": num(page_el.get("WIDTH"))}
    for child in page_el:
        name = strip_ns(child.tag)
        if name.endswith("Margin") or name == "PrintSpace":
            out[name] = box(child)
    blocks = []
    for block in [e for e in page_el.iter() if strip_ns(e.tag) == "TextBlock"]:
        b = {"ID": block.get("ID"), "box": box(block), "lines": []}
        for line in block:
            ln = {"box": box(line), "BASELINE": num(line.get("BASELINE")), "children": []}
            for ch in line:
                name = strip_ns(ch.tag)
                if name == "String":
                    item = {"t": "String", "CONTENT": ch.get("CONTENT"), "box": box(ch)}
                    if ch.get("WC") is not None:
                        item["WC"] = float(ch.get("WC"))
                    ln["children"].append(item)
                else:
                    ln["children"].append({"t": name, "WIDTH": num(ch.get("WIDTH")), "VPOS": num(ch.get("VPOS")),
                                           "HPOS": num(ch.get("HPOS"))})
            b["lines"].append(ln)
        blocks.append(b)
    out["blocks"] = blocks
    out["line_conf"] = [[None if l.transcription_confidence is None else float(l.transcription_confidence)
                         for l in r.lines] for r in page.regions]
    re_page = PageLayout()
    re_page.from_altoxml_string(xml)
    out["reimport"] = [[l.transcription for l in r.lines] for r in re_page.regions]
    return out


def observe_crop(rng, i):
    kind = ["horizontal", "sloped", "curved", "vertical", "reversed", "pythagorean", "tiny", "point",
            "sloped", "curved", "horizontal"][i % 11]
    baseline = gen_baseline(rng, kind)
    heights = gen_heights(rng)
    poly = [2, 2, 2, 1, 0][i % 5]
    scale = [1, 1, 1, 2, 0.5][i % 5]
    target_height = [16, 16, 32, 48, 8][(i // 5) % 5]
    cropper = EngineLineCropper(poly=poly, scale=scale, line_height=target_height)
    rec = {"kind": kind, "poly": poly}
    try:
        c = cropper.get_crop_inputs(baseline, heights, target_height)
    except Exception as e:
        rec["exception"] = type(e).__name__
        return rec
    rec["dtype"] = str(c.dtype)
    rec["shape"] = list(c.shape)
    if c.size:
        cols = np.unique(np.linspace(0, c.shape[1] - 1, 12).astype(int))
        rec["cols"] = c[:, cols, :].astype(float).ravel().tolist()
        rec["stats"] = [float(c[..., 0].min()), float(c[..., 0].max()), float(c[..., 1].min()),
                        float(c[..., 1].max()), float(c[..., 0].astype(np.float64).mean()),
                        float(c[..., 1].astype(np.float64).mean())]
    return rec


def observe_arabic(rng):
    """The order conversion is not touched by the change; a small sample keeps the demo self-contained."""
    helper = ArabicHelper()
    out = []
    for _ in range(40):
        text = gen_transcription(rng, "arabic", False)
        conv = helper.label_form_to_string(text)
        out.append([text, conv, helper.label_form_to_string(conv)])
    return out


def collect():
    result = {"crop": [], "alto": [], "arabic": None}
    rng = np.random.RandomState(606)
    for i in range(330):
        result["crop"].append(observe_crop(rng, i))
    rng = np.random.RandomState(60606)
    for i in range(220):
        page = gen_page(rng, i)
        min_conf = [0, 0, 0.3, 0.5, 0.9][i % 5]
        result["alto"].append(observe_alto(page, min_conf))
    result["arabic"] = observe_arabic(np.random.RandomState(6))
    return result


# ----------------------------------------------------------------------------------------------------------------
# tolerant comparison
# ----------------------------------------------------------------------------------------------------------------
def compare(ref, cur, tol, path, problems):
    if len(problems) > 20:
        return
    if isinstance(ref, float) or isinstance(cur, float):
        if not isinstance(ref, (int, float)) or not isinstance(cur, (int, float)) or isinstance(ref, bool):
            problems.append("{}: {!r} vs {!r}".format(path, ref, cur))
        elif abs(ref - cur) > tol * max(1.0, abs(ref), abs(cur)):
            problems.append("{}: {!r} vs {!r} (tolerance {})".format(path, ref, cur, tol))
    elif isinstance(ref, dict) and isinstance(cur, dict):
        if set(ref) != set(cur):
            problems.append("{}: keys {} vs {}".format(path, sorted(ref), sorted(cur)))
            return
        for k in ref:
            compare(ref[k], cur[k], tol, path + "/" + str(k), problems)
    elif isinstance(ref, list) and isinstance(cur, list):
        if len(ref) != len(cur):
            problems.append("{}: length {} vs {}".format(path, len(ref), len(cur)))
            return
        for i, (a, b) in enumerate(zip(ref, cur)):
            compare(a, b, tol, path + "/" + str(i), problems)
    elif ref != cur or type(ref) != type(cur):
        problems.append("{}: {!r} vs {!r}".format(path, ref, cur))


def main():
    current = json.loads(json.dumps(collect()))
    n_lines = sum(len(b["lines"]) for p in current["alto"] for b in p.get("blocks", []))
    n_words = sum(1 for p in current["alto"] for b in p.get("blocks", []) for l in b["lines"] for c in l["children"]
                  if c["t"] == "String")
    print("inputs: {} crops, {} pages, {} exported lines, {} words".format(
        len(current["crop"]), len(current["alto"]), n_lines, n_words))
    if not os.path.exists(REFERENCE):
        with open(REFERENCE, "w") as f:
            json.dump(current, f)
        print("reference.json written ({} bytes) -- run again to compare".format(os.path.getsize(REFERENCE)))
        return 0
    with open(REFERENCE) as f:
        reference = json.load(f)
    problems = []
    compare(reference["crop"], current["crop"], TOL_F32, "crop", problems)
    compare(reference["alto"], current["alto"], TOL_F64, "alto", problems)
    compare(reference["arabic"], current["arabic"], TOL_F64, "arabic", problems)
    if problems:
        print("DIFFERENT: " + "; ".join(problems[:10]))
        return 1
    print("MATCH")
    return 0


if __name__ == "__main__":
    sys.exit(main())
