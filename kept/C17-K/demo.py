#!/usr/bin/env python3
"""Differential demo for change K (detection of already processed pages in user_scripts/parse_folder.py).

Runs parse_folder.main() in-process with a fake page parser (no models needed), kills it before the n-th output
write, resumes it with --skip-processed (up to three crashes), and digests: which pages every run processed, how
every run ended and the final content of all output directories.  Also digests the results of the helper
functions on a few hundred synthetic directory listings.  Prints one digest; it has to be identical on the clean
and on the patched tree.
"""
import contextlib
import hashlib
import io
import itertools
import os
import random
import re
import shutil
import sys
import tempfile

import numpy as np
import cv2
import scipy.sparse

import parse_folder
from pero_ocr.core.layout import PageLayout, RegionLayout, TextLine

DIGEST = hashlib.sha256()
N_RECORDS = 0


def record(*items):
    global N_RECORDS
    N_RECORDS += 1
    DIGEST.update(repr(items).encode('utf-8', 'surrogateescape'))
    DIGEST.update(b'\n')


# ----------------------------------------------------------------------------------------------------------------
# fake page parser
class FakeParser:
    provides_ctc_logits = True
    decoder = None

    def __init__(self, config, config_path='', device=None):
        pass

    def process_page(self, image, page_layout):
        seed = int(hashlib.md5(page_layout.id.encode()).hexdigest()[:8], 16)
        rng = np.random.RandomState(seed)
        if not page_layout.regions:
            region = RegionLayout('r1', np.array([[2, 2], [58, 2], [58, 38], [2, 38]]))
            for i in range(1 + seed % 3):
                y = 9 + 10 * i
                region.lines.append(TextLine(
                    id=f'l{i}', index=i,
                    baseline=np.array([[5, y], [30, y], [52, y]]),
                    polygon=np.array([[5, y - 5], [52, y - 5], [52, y + 2], [5, y + 2]]),
                    heights=[5.0, 2.0]))
            page_layout.regions.append(region)
        for line in page_layout.lines_iterator():
            chars = ['a', 'b', 'c', ' ']
            labels = [0, 1, 3, 2]
            dense = rng.uniform(-6, -3, (12, 5)).astype(np.float32)
            dense[:, 4] = -1
            for t, lab in enumerate(labels):
                dense[1 + 3 * t, lab] = 4
            line.transcription = 'ab c'
            line.characters = chars
            line.logits = scipy.sparse.csc_matrix(dense)
            line.logit_coords = [0, 12]
            line.crop = rng.randint(0, 255, (8, 30, 3)).astype(np.uint8)
        return page_layout


parse_folder.PageParser = FakeParser


# ----------------------------------------------------------------------------------------------------------------
# crash injection: the n-th output write (counted from 0) kills the run before anything is written
class Kill(BaseException):
    pass


class Writes:
    count = 0
    crash_at = None


def _guard(fn):
    def wrapper(*args, **kwargs):
        if Writes.crash_at is not None and Writes.count == Writes.crash_at:
            raise Kill()
        Writes.count += 1
        return fn(*args, **kwargs)
    return wrapper


cv2.imwrite = _guard(cv2.imwrite)
PageLayout.to_pagexml = _guard(PageLayout.to_pagexml)
PageLayout.save_logits = _guard(PageLayout.save_logits)
PageLayout.to_altoxml = _guard(PageLayout.to_altoxml)


def run_main(argv, crash_at=None):
    Writes.count = 0
    Writes.crash_at = crash_at
    old_argv = sys.argv
    sys.argv = ['parse_folder.py'] + argv
    out = io.StringIO()
    outcome = 'clean'
    try:
        with contextlib.redirect_stdout(out), contextlib.redirect_stderr(io.StringIO()):
            parse_folder.main()
    except Kill:
        outcome = 'killed'
    except SystemExit as e:
        outcome = f'exit({e.code})'
    except Exception as e:  # a run which finds nothing to do must not end like this
        outcome = f'exception({type(e).__name__})'
    finally:
        sys.argv = old_argv
        Writes.crash_at = None
    text = out.getvalue()
    processed = re.findall(r'^Processing (.*)$', text, flags=re.M)
    errors = len(re.findall(r'^ERROR', text, flags=re.M))
    return outcome, processed, errors, Writes.count


TIME_RE = re.compile(rb'<(Created|LastChange|processingDateTime)>[^<]*</')


def dir_state(path):
    if not os.path.isdir(path):
        return None
    state = []
    for name in sorted(os.listdir(path)):
        with open(os.path.join(path, name), 'rb') as f:
            data = f.read()
        data = TIME_RE.sub(rb'<\1>T</', data)
        state.append((name, hashlib.sha1(data).hexdigest()))
    return state


KINDS = ['xml', 'logits', 'render', 'alto', 'line']
OPTION = {'xml': '--output-xml-path', 'logits': '--output-logit-path', 'render': '--output-render-path',
          'alto': '--output-alto-path', 'line': '--output-line-path'}


def make_inputs(root, image_names):
    img_dir = os.path.join(root, 'img')
    os.makedirs(img_dir)
    for k, name in enumerate(image_names):
        img = np.full((40, 60, 3), 200, dtype=np.uint8)
        img[5:35:3, 5 + k:55] = 30 * k
        ok = cv2.imencode(os.path.splitext(name)[1], img)[1].tofile(os.path.join(img_dir, name))
    cfg = os.path.join(root, 'config.ini')
    with open(cfg, 'w') as f:
        f.write('[PAGE_PARSER]\n')
    return cfg, img_dir


def scenario(image_names, kinds, crashes, same_dir_for=()):
    """crashes: crash positions of the successive interrupted runs; a final run without a crash follows."""
    root = tempfile.mkdtemp(prefix='c17k_')
    try:
        cfg, img_dir = make_inputs(root, image_names)
        argv = ['-c', cfg, '-s', '--device', 'cpu', '-i', img_dir]
        out_dirs = {}
        for kind in kinds:
            out_dirs[kind] = os.path.join(root, 'out_' + kind)
            argv += [OPTION[kind], out_dirs[kind]]
        runs = []
        for crash_at in crashes:
            runs.append(run_main(argv, crash_at))
        runs.append(run_main(argv, None))
        runs.append(run_main(argv, None))  # nothing (?) left to do
        state = [(kind, dir_state(out_dirs[kind])) for kind in kinds]
        return runs, state
    finally:
        shutil.rmtree(root)


def reference(image_names, kinds):
    root = tempfile.mkdtemp(prefix='c17k_')
    try:
        cfg, img_dir = make_inputs(root, image_names)
        argv = ['-c', cfg, '--device', 'cpu', '-i', img_dir]
        out_dirs = {}
        for kind in kinds:
            out_dirs[kind] = os.path.join(root, 'out_' + kind)
            argv += [OPTION[kind], out_dirs[kind]]
        run = run_main(argv, None)
        return run, [(kind, dir_state(out_dirs[kind])) for kind in kinds]
    finally:
        shutil.rmtree(root)


def crash_sweeps():
    rnd = random.Random(17)
    page_sets = [
        ['a.png', 'b.c.png', 'p.xml.png', 'q.jpg.x.png'],
        ['scan.logits.png', 'scan.png', 'scan.xml.jpg', '.hidden.png'],
        ['x.jpg.jpg', 'x.jpg', 'y..png'],
    ]
    n_equal = n_total = 0
    for subset_index, mask in enumerate(range(32)):
        kinds = [k for i, k in enumerate(KINDS) if mask >> i & 1]
        pages = page_sets[subset_index % len(page_sets)]
        ref_run, ref_state = reference(pages, kinds)
        total = ref_run[3]
        record('reference', pages, kinds, ref_run, ref_state)
        # every single crash position for small masks, a sample otherwise
        positions = list(range(total + 1))
        if len(positions) > 8:
            positions = sorted(rnd.sample(positions, 8) + [0, total])
        plans = [(p,) for p in positions]
        for _ in range(3):
            plans.append((rnd.randint(0, total), rnd.randint(0, total)))
            plans.append((rnd.randint(0, total), rnd.randint(0, total), rnd.randint(0, total)))
        for plan in plans:
            runs, state = scenario(pages, kinds, plan)
            n_total += 1
            n_equal += state == ref_state
            record('crash', pages, kinds, plan, runs, state, state == ref_state)
    record('summary', n_equal, n_total)
    return n_equal, n_total


def xml_only_histories():
    """INPUT_XML_PATH without images (images_to_process is a list of None); histories made by deleting outputs."""
    rnd = random.Random(5)
    ids = ['a', 'b.c', 'p.xml', 'q.jpg']
    for kinds in (['xml'], ['xml', 'logits'], ['xml', 'logits', 'alto'], ['alto']):
        for trial in range(6):
            root = tempfile.mkdtemp(prefix='c17k_')
            try:
                cfg = os.path.join(root, 'config.ini')
                with open(cfg, 'w') as f:
                    f.write('[PAGE_PARSER]\n')
                in_xml = os.path.join(root, 'in_xml')
                os.makedirs(in_xml)
                for file_id in ids:
                    layout = PageLayout(id=file_id, page_size=(40, 60))
                    FakeParser(None).process_page(None, layout)
                    with open(os.path.join(in_xml, file_id + '.xml'), 'w', encoding='utf-8') as f:
                        f.write(layout.to_pagexml_string())
                argv = ['-c', cfg, '-s', '--device', 'cpu', '-x', in_xml]
                out_dirs = {}
                for kind in kinds:
                    out_dirs[kind] = os.path.join(root, 'out_' + kind)
                    argv += [OPTION[kind], out_dirs[kind]]
                first = run_main(argv, None)
                full = [(kind, dir_state(out_dirs[kind])) for kind in kinds]
                removed = []
                for kind in kinds:
                    for name in sorted(os.listdir(out_dirs[kind])):
                        if rnd.random() < 0.4:
                            os.remove(os.path.join(out_dirs[kind], name))
                            removed.append((kind, name))
                outcome, processed, errors, writes = run_main(argv, None)
                again = run_main(argv, None)
                state = [(kind, dir_state(out_dirs[kind])) for kind in kinds]
                record('xml_only', kinds, trial, first[0], sorted(first[1]), removed, outcome, sorted(processed),
                       errors, writes, again[0], sorted(again[1]), state == full, state)
            finally:
                shutil.rmtree(root)


def helper_functions():
    rnd = random.Random(3)
    tokens = ['a', 'b', '.', '..', 'xml', 'jpg', 'logits', '.xml', '.jpg', '.logits', '.png', 'XML', '-l0', ' ', 'é']
    names = ['a.xml', 'a.jpg', 'a.logits', '.xml', '..xml', 'a.xml.jpg', 'a.jpg.xml', 'a.xml.xml', 'xml', 'a.XML',
             'a.xmlx', 'a.xml ', 'a.logits.logits', 'p-l0.jpg', 'a.xml\n', 'a\nb.xml', 'a.xml\n\n', '\n.xml', 'a.txt']
    for _ in range(300):
        names.append(''.join(rnd.choice(tokens) for _ in range(rnd.randint(1, 5))))
    names = sorted(set(n for n in names if '/' not in n and n not in ('.', '..')))
    root = tempfile.mkdtemp(prefix='c17k_')
    try:
        dirs = []
        for d in range(6):
            path = os.path.join(root, f'd{d}')
            os.makedirs(path)
            chosen = [n for n in names if rnd.random() < (0.0 if d == 5 else 0.6)]
            for n in chosen:
                open(os.path.join(path, n), 'w').close()
            if d == 1:
                os.makedirs(os.path.join(path, 'folder.xml'))
            dirs.append(path)
            record('in_directory', d, sorted(parse_folder.load_already_processed_files_in_directory(path)))
        record('in_directory_none', sorted(parse_folder.load_already_processed_files_in_directory(None)))
        options = dirs + [None]
        for n in range(0, 5):
            for combo in itertools.product(range(len(options)), repeat=n):
                if n == 4 and rnd.random() < 0.8:
                    continue
                selection = [options[i] for i in combo]
                result = parse_folder.load_already_processed_files(selection)
                assert isinstance(result, set)
                record('intersection', combo, sorted(result))
    finally:
        shutil.rmtree(root)


def main():
    helper_functions()
    xml_only_histories()
    n_equal, n_total = crash_sweeps()
    print(f'records: {N_RECORDS}; resumed == uninterrupted in {n_equal}/{n_total} crash scenarios')
    print('DIGEST', DIGEST.hexdigest())


if __name__ == '__main__':
    main()
