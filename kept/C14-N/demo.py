#!/usr/bin/env python
"""Differential test for confusion networks (property C14).

Run without arguments, with pero_ocr importable from PYTHONPATH.
First run (on the clean tree) writes reference.json next to this file.
Later runs compare against it with explicit tolerances and print
`MATCH` (exit 0) or `DIFFERENT: <what>` (exit 1).

What is compared
  * structure of every intermediate / final network (number of positions, the
    symbols on the arcs of each position, in dict order)         -> exact
  * arc weights (float64)                                         -> 1e-9 relative
  * enumerated paths of the normalised network: the multiset of
    (string, probability) pairs                                   -> strings exact, prob 1e-9 rel
    the sequence of probabilities in output order                 -> 1e-9 rel, must be non-increasing
    (the ORDER of paths whose probabilities are tied up to round-off is left
    open by the statement, so it is compared as a multiset only)
  * sum of path probabilities / per-position weight sums          -> 1e-9
  * greedy best path                                              -> exact
"""
import copy
import itertools
import json
import math
import os
import random
import sys

from pero_ocr.decoding.bag_of_hypotheses import BagOfHypotheses
from pero_ocr.decoding import confusion_networks as cnm

HERE = os.path.dirname(os.path.abspath(__file__))
REF = os.path.join(HERE, 'reference.json')

REL = 1e-9
ABS = 1e-300   # only to make 0.0 == 0.0 / denormals comparable
MAX_PATHS = 600


# ----------------------------------------------------------------------------
# inputs
# ----------------------------------------------------------------------------
def build_cases():
    cases = []

    def add(name, hyps, vw=1.0, lw=1.0):
        cases.append({'name': name, 'hyps': [list(h) for h in hyps], 'vw': vw, 'lw': lw})

    # single hypotheses (incl. empty)
    for i, t in enumerate(['', 'a', 'ab', 'abcab', 'aaaa']):
        add('single%d' % i, [(t, -1.25, None)])
        add('single_lm%d' % i, [(t, -0.5, -2.0)], 0.7, 1.3)

    # hand-made sets, added in every order
    sets = {
        'empty_and_a': [('', -1.0), ('a', -2.0)],
        'prefixes': [('abc', -0.3), ('ab', -1.1), ('a', -2.2)],
        'suffixes': [('abc', -0.4), ('bc', -0.9), ('c', -1.7)],
        'ins_start': [('c', -0.2), ('abc', -1.5), ('aabc', -2.5)],
        'ins_middle': [('ad', -0.2), ('abcd', -1.0), ('abbccd', -3.0)],
        'ins_end': [('a', -0.1), ('abcd', -1.2), ('ab', -2.0)],
        'ins_everywhere': [('b', -0.5), ('aabccbdd', -0.7), ('abd', -1.4)],
        'equal_scores': [('abc', -1.0), ('ac', -1.0), ('abbc', -1.0)],
        'with_empty': [('', -0.5), ('ab', -0.6), ('b', -0.7), ('abab', -3.0)],
        'subst': [('abc', -0.3), ('abd', -0.8), ('xbc', -1.3), ('ayc', -2.4)],
        'repeats': [('aaa', -0.3), ('aa', -0.8), ('aaaa', -1.3), ('a', -2.4)],
    }
    for name, hyps in sorted(sets.items()):
        for k, perm in enumerate(itertools.permutations(hyps)):
            add('%s_perm%d' % (name, k), [(t, s, None) for (t, s) in perm])
        # the same bag with LM scores and non-trivial weights
        lm_hyps = [(t, s, -0.37 * (len(t) + 1)) for (t, s) in hyps]
        for k, perm in enumerate(itertools.permutations(lm_hyps)):
            if k % 5 == 0:
                add('%s_lm_perm%d' % (name, k), list(perm), 0.9, 0.6)

    # random bags
    rng = random.Random(20240614)
    for i in range(220):
        n = rng.randint(1, 5)
        use_lm = rng.random() < 0.5
        hyps = []
        for _ in range(n):
            ln = rng.choice([0, 1, 1, 2, 3, 3, 4, 5])
            t = ''.join(rng.choice('abc') for _ in range(ln))
            vis = -rng.random() * 6.0
            if rng.random() < 0.2 and hyps:
                vis = hyps[-1][1]            # exactly equal scores
            lm = (-rng.random() * 4.0) if use_lm else None
            hyps.append((t, vis, lm))
        vw = rng.choice([1.0, 0.5, 1.7])
        lw = rng.choice([1.0, 0.0, 0.33, 2.0])
        add('rand%d' % i, hyps, vw, lw)

    # mixed bag: some hypotheses with LM score, some without
    add('mixed_lm', [('abc', -0.5, -1.0), ('ab', -0.7, None), ('bc', -0.9, -0.1)], 1.0, 0.5)
    return cases


# ----------------------------------------------------------------------------
# evaluation of one case with the library under test
# ----------------------------------------------------------------------------
def dump_cn(cn):
    return [[[sym, float(w)] for sym, w in position.items()] for position in cn]


def run_case(case):
    vw, lw = case['vw'], case['lw']
    out = {}

    # step-by-step construction through add_hypothese
    cn = []
    steps = []
    for (t, vis, lm) in case['hyps']:
        log_prob = vw * vis + (lw * lm if lm is not None else 0.0)
        cn = cnm.add_hypothese(cn, t, math.exp(log_prob))
        steps.append(dump_cn(cn))
    out['steps'] = steps

    def make_boh():
        boh = BagOfHypotheses()
        for (t, vis, lm) in case['hyps']:
            boh.add(t, vis, lm)
        return boh

    raw = cnm.produce_cn_from_boh(make_boh(), vw, lw, normalize=False)
    out['raw'] = dump_cn(raw)
    norm = cnm.produce_cn_from_boh(make_boh(), vw, lw)
    out['norm'] = dump_cn(norm)
    out['norm_of_raw'] = dump_cn(cnm.normalize_cn(copy.deepcopy(raw)))
    out['position_sums'] = [float(sum(p.values())) for p in norm]
    out['pivot'] = cnm.get_pivot(norm)
    out['best'] = cnm.best_cn_path(norm)

    n_paths = 1
    for p in norm:
        n_paths *= len(p)
    out['n_paths'] = n_paths
    if n_paths <= MAX_PATHS:
        before = dump_cn(norm)
        paths = cnm.sorted_cn_paths(norm)
        out['paths_left_cn_untouched'] = (dump_cn(norm) == before)
        out['paths'] = [[s, float(p)] for (s, p) in paths]
        out['paths_sum'] = float(math.fsum(p for _, p in paths))
        out['paths_nonincreasing'] = all(paths[i][1] >= paths[i + 1][1] for i in range(len(paths) - 1))
    return out


# ----------------------------------------------------------------------------
# tolerant comparison
# ----------------------------------------------------------------------------
def close(a, b):
    return abs(a - b) <= max(ABS, REL * max(abs(a), abs(b)))


class Diff(Exception):
    pass


def cmp_cn(ref, cur, where):
    if len(ref) != len(cur):
        raise Diff('%s: %d positions vs %d' % (where, len(ref), len(cur)))
    for i, (rp, cp) in enumerate(zip(ref, cur)):
        if [a[0] for a in rp] != [a[0] for a in cp]:
            raise Diff('%s: position %d has arcs %r vs %r' % (where, i, [a[0] for a in rp], [a[0] for a in cp]))
        for (sym, rw), (_, cw) in zip(rp, cp):
            if not close(rw, cw):
                raise Diff('%s: position %d arc %r weight %r vs %r' % (where, i, sym, rw, cw))


def cmp_paths(ref, cur, where):
    if len(ref) != len(cur):
        raise Diff('%s: %d paths vs %d' % (where, len(ref), len(cur)))
    # the sequence of probabilities (output order) must agree up to round-off ...
    for i, ((_, rp), (_, cp)) in enumerate(zip(ref, cur)):
        if not close(rp, cp):
            raise Diff('%s: %d-th probability %r vs %r' % (where, i, rp, cp))
    # ... and the (string, prob) pairs must agree as a multiset (ties left open)
    rs = sorted((s, p) for s, p in ref)
    cs = sorted((s, p) for s, p in cur)
    for (s1, p1), (s2, p2) in zip(rs, cs):
        if s1 != s2 or not close(p1, p2):
            # sorting by (string, prob) can only mis-pair entries whose probs are within round-off,
            # so any mismatch here is a real one
            raise Diff('%s: path multiset differs: %r vs %r' % (where, (s1, p1), (s2, p2)))


def compare(ref, cur):
    if sorted(ref) != sorted(cur):
        raise Diff('case lists differ')
    for name in sorted(ref):
        r, c = ref[name], cur[name]
        if len(r['steps']) != len(c['steps']):
            raise Diff('%s: number of steps' % name)
        for k, (rs, cs) in enumerate(zip(r['steps'], c['steps'])):
            cmp_cn(rs, cs, '%s step %d' % (name, k))
        for key in ('raw', 'norm', 'norm_of_raw'):
            cmp_cn(r[key], c[key], '%s %s' % (name, key))
        for key in ('pivot', 'best', 'n_paths'):
            if r[key] != c[key]:
                raise Diff('%s: %s %r vs %r' % (name, key, r[key], c[key]))
        for i, (a, b) in enumerate(zip(r['position_sums'], c['position_sums'])):
            if not close(a, b) or abs(b - 1.0) > 1e-9:
                raise Diff('%s: position %d sums to %r (ref %r)' % (name, i, b, a))
        if ('paths' in r) != ('paths' in c):
            raise Diff('%s: paths present/absent' % name)
        if 'paths' in r:
            cmp_paths(r['paths'], c['paths'], name)
            for key in ('paths_nonincreasing', 'paths_left_cn_untouched'):
                if r[key] != c[key]:
                    raise Diff('%s: %s %r vs %r' % (name, key, r[key], c[key]))
            if not close(r['paths_sum'], c['paths_sum']):
                raise Diff('%s: paths sum %r vs %r' % (name, r['paths_sum'], c['paths_sum']))


def main():
    cases = build_cases()
    cur = {}
    for case in cases:
        assert case['name'] not in cur
        cur[case['name']] = run_case(case)
    # go through JSON once so that both sides have identical container types
    cur = json.loads(json.dumps(cur))

    if not os.path.exists(REF):
        with open(REF, 'w') as f:
            json.dump(cur, f)
        n_paths = sum(len(c.get('paths', [])) for c in cur.values())
        print('reference written: %d cases, %d enumerated paths -> %s' % (len(cur), n_paths, REF))
        return 0

    with open(REF) as f:
        ref = json.load(f)
    try:
        compare(ref, cur)
    except Diff as e:
        print('DIFFERENT: %s' % e)
        return 1
    print('MATCH')
    return 0


if __name__ == '__main__':
    sys.exit(main())
