#!/usr/bin/env python3
"""Differential test for property C19 (engine merging keeps the most confident engine's result).

Run without arguments with PYTHONPATH pointing to the tree under test (and its user_scripts directory).
First run (no reference.json next to this file): writes reference.json -- do this on the CLEAN tree.
Later runs: recompute everything and compare with reference.json using explicit tolerances
  * 1e-9 relative for float64 logits, 1e-6 relative for float32 logits,
  * the winning engine must be the same, unless the reference mean confidences of the two candidate
    winners agree within the tolerance (a tie at round-off level, which the statement leaves open),
  * strings, ids, geometry, charsets, exception types: exact.
Prints MATCH (exit 0) or DIFFERENT: <what> (exit 1).
"""
import copy
import io
import json
import os
import sys
import contextlib

import numpy as np
import scipy.sparse

import pero_ocr
from pero_ocr.core.layout import PageLayout, RegionLayout, TextLine
from pero_ocr.core.confidence_estimation import get_line_confidence
from pero_ocr.core.force_alignment import align_text
import merge_ocr_results

HERE = os.path.dirname(os.path.abspath(__file__))
REFERENCE = os.path.join(HERE, 'reference.json')
ALPHABET = list('abcdefghijklmnopqrstuvwxyzABCDEFGHIJ .,')
TOL = {'float32': 1e-6, 'float64': 1e-9}


# --------------------------------------------------------------------------- input generation
def random_ctc_path(rng, labels, blank, extra):
    """A valid CTC frame labelling of `labels` with `extra` additional frames."""
    path = []
    for i, l in enumerate(labels):
        if i > 0 and (labels[i - 1] == l or rng.rand() < 0.4):
            path.append(blank)
        path.extend([l] * rng.randint(1, 3))
    for _ in range(extra):
        pos = rng.randint(0, len(path) + 1)
        path.insert(pos, blank if pos == 0 or pos == len(path) or rng.rand() < 0.5 else path[pos - 1])
    # inserting a copy of the left neighbour keeps the path valid; blanks are always valid
    return path


def make_line_data(rng, dtype, mode, integer_logits):
    nb_chars = rng.randint(2, 9)
    characters = [str(c) for c in rng.choice(ALPHABET, nb_chars, replace=False)]
    blank = nb_chars
    nb_symbols = nb_chars + 1

    if mode == 'none':
        transcription, n = None, 0
    elif mode == 'empty':
        transcription, n = '', 0
    else:
        n = rng.randint(1, 9)
        labels = rng.randint(0, nb_chars, n)
        if mode == 'doubled':
            labels[:] = labels[0]
        transcription = ''.join(characters[l] for l in labels)

    if mode in ('none', 'empty'):
        T = rng.randint(1, 8)
        path = None
    elif mode == 'transformer':
        T = n
        path = list(labels)
    elif mode == 'too_long':
        # cannot be aligned -> ValueError inside get_line_confidence() -> 0.5 fallback in get_confidences()
        if n > 1:
            T = n - 1
        else:  # three equal letters need five frames
            labels = np.asarray([labels[0]] * 3)
            transcription = characters[labels[0]] * 3
            n, T = 3, 4
        path = None
    else:
        path = random_ctc_path(rng, list(labels), blank, rng.randint(0, 6))
        T = len(path)
        if T == n:
            path.append(blank)
            T += 1

    if integer_logits:
        logits = rng.randint(-3, 4, (T, nb_symbols)).astype(np.float64)
        if path is not None and mode != 'ctc_random':
            logits[np.arange(T), path] += rng.randint(0, 4)
    else:
        logits = rng.normal(0, rng.choice([0.5, 2.0, 5.0]), (T, nb_symbols))
        if path is not None and mode != 'ctc_random':
            logits[np.arange(T), path] += rng.uniform(0, 9)
        logits[rng.rand(T, nb_symbols) < 0.3] = 0  # sparse zeros -> replaced by -80 in the library
    logits = scipy.sparse.csc_matrix(logits.astype(dtype))
    return transcription, logits, characters


MODES = ['ctc_good', 'ctc_good', 'ctc_good', 'ctc_random', 'transformer', 'too_long', 'doubled', 'empty', 'none']


def make_geometry(rng, nb_regions, lines_per_region):
    geometry = []
    for r in range(nb_regions):
        region_poly = rng.uniform(0, 1000, (4, 2))
        lines = []
        for l in range(lines_per_region[r]):
            lines.append(dict(id='r{}-l{}'.format(r, l), baseline=rng.uniform(0, 1000, (2, 2)),
                              polygon=rng.uniform(0, 1000, (4, 2)), heights=rng.uniform(5, 30, 2)))
        geometry.append((region_poly, lines))
    return geometry


def make_layout(rng, geometry, engine_name, dtype, integer_logits, modes=None):
    layout = PageLayout(id='page', page_size=(1000, 1000))
    k = 0
    for r, (region_poly, lines) in enumerate(geometry):
        region = RegionLayout('r{}'.format(r), region_poly.copy())
        for g in lines:
            mode = modes[k] if modes is not None else MODES[rng.randint(len(MODES))]
            k += 1
            transcription, logits, characters = make_line_data(rng, dtype, mode, integer_logits)
            line = TextLine(id=g['id'], baseline=g['baseline'].copy(), polygon=g['polygon'].copy(),
                            heights=g['heights'].copy(), transcription=transcription, logits=logits,
                            characters=characters)
            line.engine = engine_name
            region.lines.append(line)
        layout.regions.append(region)
    return layout


def permuted_charset_copy(rng, layout):
    """Same engine output expressed over a permuted charset (blank stays last)."""
    new = copy.deepcopy(layout)
    for line in new.lines_iterator():
        nb_chars = len(line.characters)
        perm = rng.permutation(nb_chars)
        dense = line.logits.toarray()
        line.logits = scipy.sparse.csc_matrix(dense[:, list(perm) + [nb_chars]])
        line.characters = [line.characters[p] for p in perm]
    return new


def build_scenarios():
    rng = np.random.RandomState(20190419)
    scenarios = []
    for s in range(260):
        kind = ['random'] * 6 + ['single', 'dup_object', 'dup_copy', 'sandwich', 'rotations', 'permuted_charset',
                                 'all_unconfident']
        kind = kind[s % len(kind)]
        nb_regions = rng.randint(1, 3)
        lines_per_region = [rng.randint(0, 4) for _ in range(nb_regions)]
        if sum(lines_per_region) == 0:
            lines_per_region[0] = 2
        geometry = make_geometry(rng, nb_regions, lines_per_region)
        nb_lines = sum(lines_per_region)
        integer_logits = (s % 5 == 0)

        def dtype():
            return ['float32', 'float64'][rng.randint(2)]

        def new_layout(name, modes=None):
            return make_layout(rng, geometry, name, dtype(), integer_logits, modes)

        if kind == 'random':
            layouts = [new_layout('e{}'.format(e)) for e in range(rng.randint(2, 5))]
            scenarios.append((kind, layouts))
        elif kind == 'single':
            scenarios.append((kind, [new_layout('e0')]))
        elif kind == 'dup_object':
            a = new_layout('e0')
            scenarios.append((kind, [a, a]))
        elif kind == 'dup_copy':
            a = new_layout('e0')
            scenarios.append((kind, [a, copy.deepcopy(a)]))
            b = new_layout('e0')
            scenarios.append((kind, [copy.deepcopy(b), b, copy.deepcopy(b)]))
        elif kind == 'sandwich':
            a, b = new_layout('e0'), new_layout('e1')
            scenarios.append((kind, [a, b, a]))
            a2, b2 = new_layout('e0'), new_layout('e1')
            scenarios.append((kind, [a2, b2, copy.deepcopy(a2), copy.deepcopy(b2)]))
        elif kind == 'rotations':
            base = [new_layout('e{}'.format(e)) for e in range(3)]
            for rot in range(3):
                scenarios.append((kind, [copy.deepcopy(base[(rot + e) % 3]) for e in range(3)]))
            scenarios.append((kind, [copy.deepcopy(l) for l in reversed(base)]))
        elif kind == 'permuted_charset':
            a = new_layout('e0')
            b = new_layout('e1')
            scenarios.append((kind, [a, permuted_charset_copy(rng, a), b]))
            c = new_layout('e0')
            scenarios.append((kind, [permuted_charset_copy(rng, c), new_layout('e1'), c]))
        elif kind == 'all_unconfident':
            modes = [['ctc_random', 'empty', 'none'][rng.randint(3)] for _ in range(nb_lines)]
            layouts = [new_layout('e{}'.format(e), modes) for e in range(rng.randint(1, 4))]
            scenarios.append((kind, layouts))
    return scenarios


# --------------------------------------------------------------------------- running the code under test
def logits_dtype(line):
    return str(line.logits.dtype)


def geometry_record(layout):
    rec = [layout.id, list(layout.page_size)]
    for region in layout.regions:
        rec.append([region.id, region.polygon.tolist(),
                    [[l.id, l.baseline.tolist(), l.polygon.tolist(), l.heights.tolist()] for l in region.lines]])
    return rec


def run_merge_scenario(kind, layouts):
    originals = []  # per engine, per line: the objects / values before merging
    per_engine = []
    sink = io.StringIO()
    for layout in layouts:
        engine_lines = []
        engine_rec = []
        for line in layout.lines_iterator():
            engine_lines.append((line.transcription, line.logits, line.characters))
            with contextlib.redirect_stdout(sink):
                conf = merge_ocr_results.get_confidences(copy.deepcopy(line))
            engine_rec.append(dict(dtype=logits_dtype(line), char_confidences=[float(c) for c in conf],
                                   mean=(float(np.mean(np.asarray(conf, dtype=np.float64))) if conf.size else None)))
        originals.append(engine_lines)
        per_engine.append(engine_rec)
    geometry_before = geometry_record(layouts[0])

    exception = None
    with contextlib.redirect_stdout(sink):
        try:
            result = merge_ocr_results.merge_layouts(layouts)
        except Exception as e:  # not expected
            exception = type(e).__name__
            result = None

    merged = []
    for i, line in enumerate(layouts[0].lines_iterator()):
        winners = [e for e in range(len(layouts))
                   if originals[e][i][1] is line.logits and originals[e][i][2] is line.characters
                   and originals[e][i][0] == line.transcription]
        # engines holding *equal* data (copies) are interchangeable for the statement
        equal = [e for e in range(len(layouts))
                 if originals[e][i][0] == line.transcription and originals[e][i][2] == line.characters
                 and originals[e][i][1].shape == line.logits.shape
                 and originals[e][i][1].dtype == line.logits.dtype
                 and (originals[e][i][1] != line.logits).nnz == 0]
        conf = line.transcription_confidence
        merged.append(dict(id=line.id, transcription=line.transcription, characters=line.characters,
                           winners_by_identity=winners, first_winner_by_identity=(winners[0] if winners else None),
                           engines_with_equal_data=equal,
                           confidence=(None if conf is None else float(conf)),
                           dtype=logits_dtype(line)))
    return dict(kind=kind, nb_engines=len(layouts), exception=exception, returns_none=(result is None),
                geometry_unchanged=(geometry_record(layouts[0]) == geometry_before),
                geometry=geometry_record(layouts[0]), per_engine=per_engine, merged=merged)


def run_direct_cases():
    """get_line_confidence() called the way pero_ocr.core.layout does (explicit alignment and log-probs),
    plus a few hand-made alignments (sentinel handling for long lines, lists instead of arrays, errors)."""
    rng = np.random.RandomState(77)
    records = []
    for case in range(160):
        dtype = ['float32', 'float64'][case % 2]
        mode = ['ctc_good', 'ctc_random', 'doubled'][case % 3]
        transcription, logits, characters = make_line_data(rng, dtype, mode, integer_logits=(case % 7 == 0))
        line = TextLine(id='x', transcription=transcription, logits=logits, characters=characters)
        labels = np.asarray([characters.index(c) for c in transcription])
        log_probs = line.get_full_logprobs()
        rec = dict(case=case, dtype=dtype, variant=case % 4)
        try:
            if case % 4 == 0:      # exactly what layout.py does
                aligned = align_text(-log_probs, labels, log_probs.shape[1] - 1)
                conf = get_line_confidence(line, labels, aligned, log_probs)
            elif case % 4 == 1:    # python lists
                aligned = align_text(-log_probs, labels, log_probs.shape[1] - 1)
                conf = get_line_confidence(line, [int(l) for l in labels], [int(a) for a in aligned], log_probs)
            elif case % 4 == 2:    # arbitrary strictly increasing alignment
                T = log_probs.shape[0]
                if T <= len(labels):
                    raise ValueError('skip')
                aligned = np.sort(rng.choice(T, len(labels), replace=False)).astype(np.int32)
                conf = get_line_confidence(line, labels, aligned, log_probs)
            else:                  # no alignment given, only log-probs
                conf = get_line_confidence(line, labels, None, log_probs)
            rec['confidences'] = [float(c) for c in conf]
            rec['result_dtype'] = str(conf.dtype)
        except Exception as e:
            rec['exception'] = type(e).__name__
        records.append(rec)

    # long lines: the sentinel behind the last frame is max(1000, T)
    for T, dtype in [(1100, 'float32'), (1100, 'float64'), (998, 'float32'), (1003, 'float64'), (40, 'float32')]:
        nb_chars = 4
        dense = rng.normal(0, 3, (T, nb_chars + 1)).astype(dtype)
        line = TextLine(id='long', transcription='abca', logits=scipy.sparse.csc_matrix(dense),
                        characters=list('abcd'))
        labels = np.asarray([0, 1, 2, 0])
        log_probs = line.get_full_logprobs()
        for aligned in ([3, 10, 20, 30], [0, 1, 2, 3], [T - 4, T - 3, T - 2, T - 1], [5, T // 2, T // 2 + 1, T - 1]):
            conf = get_line_confidence(line, labels, np.asarray(aligned, dtype=np.int32), log_probs)
            records.append(dict(case='long-{}-{}-{}'.format(T, dtype, aligned[0]), dtype=dtype,
                                confidences=[float(c) for c in conf], result_dtype=str(conf.dtype)))

    # degenerate alignments -> the "known error" (ValueError) that merge_ocr_results.get_confidences() catches
    dense = rng.normal(0, 3, (12, 4)).astype('float64')
    line = TextLine(id='bad', transcription='abc', logits=scipy.sparse.csc_matrix(dense), characters=list('abc'))
    log_probs = line.get_full_logprobs()
    for name, labels, aligned in [('decreasing', [0, 1, 2], [9, 4, 1]), ('equal', [0, 1, 2], [3, 3, 3]),
                                  ('no-labels', [], []), ('neg-label', [0, -2, 1], [1, 5, 9]),
                                  ('blank-label', [0, 3, 1], [1, 5, 9])]:
        rec = dict(case='degenerate-' + name, dtype='float64')
        try:
            conf = get_line_confidence(line, np.asarray(labels, dtype=int), np.asarray(aligned, dtype=np.int32),
                                       log_probs)
            rec['confidences'] = [float(c) for c in conf]
            rec['result_dtype'] = str(conf.dtype)
        except Exception as e:
            rec['exception'] = type(e).__name__
        records.append(rec)
    return records


def compute_all():
    scenarios = build_scenarios()
    return dict(merge=[run_merge_scenario(kind, layouts) for kind, layouts in scenarios],
                direct=run_direct_cases())


# --------------------------------------------------------------------------- tolerant comparison
def close(a, b, tol):
    if a is None or b is None:
        return a is None and b is None
    if a == b:
        return True
    return abs(a - b) <= tol * max(abs(a), abs(b))


def close_lists(a, b, tol):
    return len(a) == len(b) and all(close(x, y, tol) for x, y in zip(a, b))


def compare(ref, new):
    stats = dict(bitwise_equal_values=0, roundoff_values=0, max_rel=0.0, open_ties=0)

    def note(a, b):
        if a is None or b is None:
            return
        if a == b:
            stats['bitwise_equal_values'] += 1
        else:
            stats['roundoff_values'] += 1
            stats['max_rel'] = max(stats['max_rel'], abs(a - b) / max(abs(a), abs(b)))

    if len(ref['merge']) != len(new['merge']) or len(ref['direct']) != len(new['direct']):
        return 'number of cases', stats

    for s, (r, n) in enumerate(zip(ref['merge'], new['merge'])):
        where = 'merge scenario {} ({})'.format(s, r['kind'])
        for key in ('kind', 'nb_engines', 'exception', 'returns_none', 'geometry_unchanged', 'geometry'):
            if r[key] != n[key]:
                return '{}: {}'.format(where, key), stats
        if not n['geometry_unchanged']:
            return '{}: geometry / ids altered by merging'.format(where), stats
        for e, (re_, ne_) in enumerate(zip(r['per_engine'], n['per_engine'])):
            for i, (rl, nl) in enumerate(zip(re_, ne_)):
                tol = TOL[rl['dtype']]
                if rl['dtype'] != nl['dtype'] or not close_lists(rl['char_confidences'], nl['char_confidences'], tol):
                    return '{}: engine {} line {}: character confidences'.format(where, e, i), stats
                for a, b in zip(rl['char_confidences'], nl['char_confidences']):
                    note(a, b)
        for i, (rl, nl) in enumerate(zip(r['merged'], n['merged'])):
            lwhere = '{} line {}'.format(where, i)
            if rl['id'] != nl['id']:
                return lwhere + ': id', stats
            if not nl['winners_by_identity'] and nl['confidence'] is not None:
                return lwhere + ': transcription / logits / characters do not come from one engine', stats
            if rl['first_winner_by_identity'] != nl['first_winner_by_identity']:
                # allowed only for a tie at round-off level between the two engines (reference confidences)
                rw, nw = rl['first_winner_by_identity'], nl['first_winner_by_identity']
                if rw is None or nw is None:
                    return lwhere + ': winning engine', stats
                tol = max(TOL[r['per_engine'][rw][i]['dtype']], TOL[r['per_engine'][nw][i]['dtype']])
                m1, m2 = r['per_engine'][rw][i]['mean'], r['per_engine'][nw][i]['mean']
                if m1 is None or m2 is None or m1 == m2 or not close(m1, m2, tol):
                    # m1 == m2 exactly: a genuine tie, the statement says the first engine wins -> not open
                    return lwhere + ': winning engine {} -> {}'.format(rw, nw), stats
                stats['open_ties'] += 1
                tol_c = tol
            else:
                for key in ('transcription', 'characters', 'winners_by_identity', 'engines_with_equal_data'):
                    if rl[key] != nl[key]:
                        return '{}: {}'.format(lwhere, key), stats
                tol_c = TOL[rl['dtype']]
            if not close(rl['confidence'], nl['confidence'], tol_c):
                return '{}: line confidence {!r} vs {!r}'.format(lwhere, rl['confidence'], nl['confidence']), stats
            note(rl['confidence'], nl['confidence'])
            # the statement itself: recorded confidence is the maximum of the engines' means, when positive
            means = [eng[i]['mean'] for eng in n['per_engine'] if eng[i]['mean'] is not None]
            best = max(means) if means else None
            if best is not None and best > 0:
                if nl['confidence'] is None or not close(nl['confidence'], best, tol_c):
                    return lwhere + ': confidence is not the maximal mean', stats
            elif nl['confidence'] is not None:
                return lwhere + ': confidence recorded although no engine is confident', stats

    for r, n in zip(ref['direct'], new['direct']):
        where = 'direct case {}'.format(r['case'])
        if r.get('exception') != n.get('exception'):
            return '{}: exception {} vs {}'.format(where, r.get('exception'), n.get('exception')), stats
        if 'confidences' in r:
            if r['result_dtype'] != n['result_dtype']:
                return where + ': dtype of the result', stats
            if not close_lists(r['confidences'], n['confidences'], TOL[r['dtype']]):
                return where + ': confidences', stats
            for a, b in zip(r['confidences'], n['confidences']):
                note(a, b)
    return None, stats


def main():
    assert os.path.abspath(merge_ocr_results.__file__).startswith(os.path.dirname(os.path.dirname(
        os.path.abspath(pero_ocr.__file__)))), 'merge_ocr_results is not imported from the tree under test'
    new = json.loads(json.dumps(compute_all()))
    if not os.path.exists(REFERENCE):
        with open(REFERENCE, 'w') as f:
            json.dump(new, f)
        nb_lines = sum(len(s['merged']) for s in new['merge'])
        nb_assigned = sum(1 for s in new['merge'] for l in s['merged'] if l['confidence'] is not None)
        nb_nonfirst = sum(1 for s in new['merge'] for l in s['merged'] if l['first_winner_by_identity'] not in (0, None))
        print('reference written to {}: {} merge scenarios, {} lines ({} with a confident engine, {} won by an engine '
              'other than the first), {} direct cases ({} raising)'.format(
                  REFERENCE, len(new['merge']), nb_lines, nb_assigned, nb_nonfirst, len(new['direct']),
                  sum(1 for d in new['direct'] if 'exception' in d)))
        return 0
    with open(REFERENCE) as f:
        ref = json.load(f)
    difference, stats = compare(ref, new)
    print('compared values: {} bit-identical, {} differing at round-off level (max relative difference {:.3g}), '
          '{} round-off ties resolved differently'.format(stats['bitwise_equal_values'], stats['roundoff_values'],
                                                           stats['max_rel'], stats['open_ties']))
    if difference is None:
        print('MATCH')
        return 0
    print('DIFFERENT: ' + difference)
    return 1


if __name__ == '__main__':
    sys.exit(main())
