#!/usr/bin/env python3
"""Differential test for change N (C08): page_parser.get_prob() is vectorised (run starts +
np.maximum.reduceat instead of a Python loop over frames) and compute_line_confidence() reads the
best log-probability at the argmax instead of taking a second max over the matrix.

First run (clean tree): writes reference.json next to this file and prints REFERENCE WRITTEN.
Later runs: recompute everything and compare against reference.json:
  * line ids kept by confidence filtering, structure, exception types: exact
  * confidences: |a-b| <= tol * max(|a|,|b|), tol = 1e-9 for float64 logits, 1e-6 for float32 logits
    (the change only moves min/max operations around, so in fact they are expected to be bit-identical;
    the script reports how many are)
Also checks inside one run that a page's confidences do not depend on the pages processed before it.
Prints MATCH (exit 0) or DIFFERENT: <what> (exit 1).
"""
import configparser
import json
import math
import os
import sys

import numpy as np
from scipy import sparse

from pero_ocr.core.layout import PageLayout, RegionLayout, TextLine
from pero_ocr.document_ocr import page_parser
from pero_ocr.document_ocr.page_parser import PageParser

HERE = os.path.dirname(os.path.abspath(__file__))
REFERENCE = os.path.join(HERE, 'reference.json')
TOL = {'float64': 1e-9, 'float32': 1e-6}


def enc(x):
    if x is None:
        return None
    x = float(x)
    if math.isnan(x):
        return 'nan'
    if math.isinf(x):
        return 'inf' if x > 0 else '-inf'
    return x


def run_case(fn):
    try:
        return fn()
    except Exception as e:
        return {'exception': type(e).__name__}


def softmax(x):
    x = x - x.max(axis=1, keepdims=True)
    e = np.exp(x)
    return e / e.sum(axis=1, keepdims=True)


def make_logits(rng, T, C, kind, dtype):
    """Raw (un-normalised) network outputs, sparsified the way the OCR engine does it."""
    raw = rng.normal(0, 1, (T, C)) * rng.choice([0.5, 3.0, 8.0]) + rng.choice([0.0, 5.0, 12.0])
    if kind == 'runs':                  # long runs of one winning symbol with varying certainty
        dom = np.repeat(rng.randint(0, C, size=T)[::4], 4)[:T]
        raw[np.arange(T), dom] += rng.uniform(0, 6, size=T)
    elif kind == 'ties':                # exactly tied maxima within frames, identical neighbouring frames
        raw = np.round(raw)
        if T > 1:
            raw[1::2] = raw[0::2][:raw[1::2].shape[0]]
    elif kind == 'uniform':
        raw[...] = 3.0
    elif kind == 'onehot':              # probability of the winner rounds to exactly 1
        raw[...] = -20.0
        raw[np.arange(T), rng.randint(0, C, size=T)] = 30.0
    elif kind == 'alternating':         # no runs at all
        raw[...] = 1.0
        raw[np.arange(T), np.arange(T) % 2] += rng.uniform(0.5, 5, size=T)
    raw = raw.astype(dtype)
    if T:
        raw[softmax(raw.astype(np.float64)) < 1e-4] = 0
    return sparse.csc_matrix(raw)


def make_page(pid, nb_lines, prng, dtype, some_without_logits):
    page = PageLayout(id=pid, page_size=(100, 100))
    for r in range(2):
        region = RegionLayout(f'r{r}', np.asarray([[0, 0], [1, 0], [1, 1], [0, 1]]))
        for li in range(nb_lines):
            T = int(prng.randint(1, 40))
            kind = ['plain', 'runs', 'ties', 'alternating'][li % 4]
            logits = make_logits(prng, T, 7, kind, dtype) if not (some_without_logits and (li + r) % 5 == 4) else None
            region.lines.append(TextLine(id=f'{pid}-r{r}-l{li}', logits=logits, transcription='x'))
        page.regions.append(region)
    return page


def make_parser(threshold=None):
    config = configparser.ConfigParser()
    config['PAGE_PARSER'] = {}
    if threshold is not None:
        config['PAGE_PARSER']['FILTER_CONFIDENT_LINES_THRESHOLD'] = str(threshold)
    return PageParser(config)


def page_result(page):
    return [[line.id, enc(line.transcription_confidence), type(line.transcription_confidence).__name__]
            for line in page.lines_iterator()]


def collect():
    out = {}
    rng = np.random.RandomState(2024)

    # 1) get_prob() directly
    def gp(ids, probs):
        ids_before, probs_before = np.array(ids, copy=True), np.array(probs, copy=True)
        res = page_parser.get_prob(ids, probs)
        assert np.array_equal(ids_before, np.asarray(ids)) and np.array_equal(probs_before, np.asarray(probs)), 'input modified'
        return {'value': enc(res), 'is_int': isinstance(res, int)}

    n = 0
    for T in (0, 1, 2, 3, 5, 17, 64):
        for nb_symbols in (1, 2, 5):
            for mode in ('random', 'runs', 'certain', 'above_one', 'equal_probs'):
                for dtype in (np.float32, np.float64):
                    ids = rng.randint(0, nb_symbols, size=T)
                    if mode == 'runs':
                        ids = np.repeat(ids[::3], 3)[:T]
                    probs = rng.uniform(0.01, 1.0, size=T)
                    if mode == 'certain':
                        probs[...] = 1.0
                    elif mode == 'above_one':           # exp() of a log-prob that rounded to slightly above 0
                        probs[rng.rand(T) < 0.5] = 1.0000001
                    elif mode == 'equal_probs':
                        probs = np.round(probs * 4) / 4 + 0.125
                    probs = probs.astype(dtype)
                    out[f'get_prob/T{T}/S{nb_symbols}/{mode}/{np.dtype(dtype).name}'] = run_case(lambda: gp(ids, probs))
                    n += 1
    # corner cases of the interface
    out['get_prob/leading_minus_one/float64'] = run_case(lambda: gp(np.asarray([-1, -1, 2, 2, -1, 3]), np.asarray([0.2, 0.1, 0.5, 0.7, 0.6, 0.9])))
    out['get_prob/only_minus_one/float64'] = run_case(lambda: gp(np.asarray([-1, -1]), np.asarray([0.2, 0.1])))
    out['get_prob/lists/float64'] = run_case(lambda: gp([3, 3, 1, 1, 1, 0], [0.5, 0.75, 0.25, 0.375, 0.125, 0.875]))
    out['get_prob/more_ids_than_probs/float64'] = run_case(lambda: gp(np.asarray([1, 1, 2, 3, 3]), np.asarray([0.9, 0.8, 0.7])))
    out['get_prob/more_probs_than_ids/float64'] = run_case(lambda: gp(np.asarray([1, 2]), np.asarray([0.9, 0.8, 0.1])))
    ro_ids, ro_probs = np.asarray([0, 0, 1]), np.asarray([0.3, 0.6, 0.5])
    ro_ids.setflags(write=False)
    ro_probs.setflags(write=False)
    out['get_prob/readonly/float64'] = run_case(lambda: gp(ro_ids, ro_probs))
    out['get_prob/strided/float64'] = run_case(lambda: gp(np.arange(20)[::2] // 3, np.linspace(0.1, 0.9, 20)[::2]))

    # 2) PageParser.compute_line_confidence() on single lines
    for kind in ('plain', 'runs', 'ties', 'uniform', 'onehot', 'alternating'):
        for T in (0, 1, 2, 9, 50, 200):
            for C in (2, 5, 60):
                for dtype in (np.float32, np.float64):
                    logits = make_logits(rng, T, C, kind, dtype)
                    line = TextLine(id='l', logits=logits)

                    def conf():
                        before = logits.copy()
                        res = PageParser.compute_line_confidence(line)
                        assert (before != line.logits).nnz == 0, 'line logits modified'
                        return {'value': enc(res), 'is_int': isinstance(res, int), 'type': type(res).__name__}
                    out[f'line/{kind}/T{T}/C{C}/{np.dtype(dtype).name}'] = run_case(conf)

    # 3) whole pages through PageParser.process_page (no engines configured: only confidences and filtering)
    for dtype in (np.float32, np.float64):
        name = np.dtype(dtype).name
        for threshold in (None, 0.35):      # lines without logits only without filtering (filtering them raises TypeError)
            alone = {}
            for p in range(5):
                page = make_page(f'p{p}', 2 + 2 * p, np.random.RandomState(500 + p), dtype, threshold is None)
                alone[p] = page_result(make_parser(threshold).process_page(None, page))
                out[f'page/thr{threshold}/p{p}/{name}'] = alone[p]
            for order in ([0, 1, 2, 3, 4], [4, 3, 2, 1, 0], [3, 3, 0, 4, 1, 1, 2, 3]):
                parser = make_parser(threshold)
                for p in order:
                    page = make_page(f'p{p}', 2 + 2 * p, np.random.RandomState(500 + p), dtype, threshold is None)
                    got = page_result(parser.process_page(None, page))
                    assert got == alone[p], f'history dependence: threshold {threshold}, order {order}, page {p}'
    return out


def num_close(a, b, tol):
    if a is None or b is None or isinstance(a, str) or isinstance(b, str):
        return a == b
    return abs(a - b) <= tol * max(abs(a), abs(b))


def compare(ref, new):
    problems = []
    if set(ref) != set(new):
        return [f'case sets differ: {sorted(set(ref) ^ set(new))[:5]}']
    for key in ref:
        r, n = ref[key], new[key]
        tol = TOL[key.rsplit('/', 1)[1]]
        if key.startswith('page/'):
            if [(x[0], x[2]) for x in r] != [(x[0], x[2]) for x in n]:
                problems.append(f'{key}: kept lines (or the types of their confidences) differ')
            elif not all(num_close(x[1], y[1], tol) for x, y in zip(r, n)):
                problems.append(f'{key}: confidences differ: {r} vs {n}')
            continue
        if 'exception' in r or 'exception' in n:
            if r != n:
                problems.append(f'{key}: {r} vs {n}')
            continue
        if r['is_int'] != n['is_int'] or r.get('type') != n.get('type'):
            problems.append(f'{key}: result type {r} vs {n}')
        elif not num_close(r['value'], n['value'], tol):
            problems.append(f'{key}: {r["value"]!r} vs {n["value"]!r}')
    return problems


def main():
    results = json.loads(json.dumps(collect()))
    if not os.path.exists(REFERENCE):
        with open(REFERENCE, 'w') as f:
            json.dump(results, f, indent=0, sort_keys=True)
        print(f'REFERENCE WRITTEN ({len(results)} cases) to {REFERENCE}')
        return 0
    with open(REFERENCE) as f:
        ref = json.load(f)
    problems = compare(ref, results)
    if problems:
        print(f'DIFFERENT: {len(problems)} problem(s), first ones: ' + ' | '.join(problems[:5]))
        return 1
    exact = sum(1 for k in ref if ref[k] == results[k])
    print(f'MATCH ({len(ref)} cases, {exact} of them bit-identical, the rest within tolerance)')
    return 0


if __name__ == '__main__':
    sys.exit(main())
