"""Differential demo for change L (GreedyDecoder in pero_ocr/decoding/decoders.py).

Prints a digest of the transcripts (and scores) the stand-alone greedy decoder produces for a few
hundred network outputs; the digest must be identical on the clean tree and with L applied.
"""
import hashlib
import itertools

import numpy as np
import torch

from pero_ocr.decoding.decoders import GreedyDecoder, BLANK_SYMBOL
from pero_ocr.ocr_engine.pytorch_ocr_engine import greedy_decode_ctc

H = hashlib.sha256()


def record(*items):
    for it in items:
        H.update(repr(it).encode('utf-8'))
        H.update(b'\x00')


def reference(logits, letters, sep=''):
    blank = len(letters) - 1
    path = [int(np.argmax(frame)) for frame in logits]
    return sep.join(letters[c] for c, _ in itertools.groupby(path) if c != blank)


def log_softmax(x):
    x = x - x.max(axis=1, keepdims=True)
    return x - np.log(np.exp(x).sum(axis=1, keepdims=True))


def one_hot_logits(path, C, dtype=np.float64):
    x = np.full((len(path), C), -40.0, dtype=dtype)
    x[np.arange(len(path)), path] = 0.0
    return x


def run(decoder, letters, logits, sep='', **kwargs):
    before = logits.copy()
    boh = decoder(logits, **kwargs)
    assert np.array_equal(before, logits, equal_nan=True) and before.dtype == logits.dtype
    hyps = list(boh)
    assert len(hyps) == 1
    text = boh.best_hyp()
    assert isinstance(text, str)
    assert text == hyps[0].transcript == reference(logits, letters, sep), (text, reference(logits, letters, sep))
    record(logits.shape, str(logits.dtype), text, float(hyps[0].vis_sc).hex(), hyps[0].lm_sc)
    return text


def engine_texts(lines, chars):
    """lines: list of (T, C) arrays of the same shape -> texts of the engine's batched decoder."""
    batch = torch.from_numpy(np.stack(lines).transpose(0, 2, 1).copy())
    return greedy_decode_ctc(batch, chars)


letters5 = list('abcd') + [BLANK_SYMBOL]
dec5 = GreedyDecoder(letters5)
B = 4

corner = [
    [B, B, 0, 0, B, B],       # leading / trailing blanks
    [B, B, B, B, B, B],       # all blank
    [0, 0, B, 0, 0, B],       # repeats split by blank
    [1, 1, 1, 2, 2, 3],       # first frame already non-blank
    [3, B, 3, B, B, 3],       # last symbol class adjacent to blank
    [3, 3, B, B, 3, 3],
    [B, 3, 3, 3, 3, B],
    [0, 1, 0, 1, 0, 1],
    [0, 0, 0, 0, 0, 0],
    [B, 0, B, 0, B, 0],
]
for dtype in (np.float64, np.float32):
    lines = [one_hot_logits(p, 5, dtype) for p in corner]
    texts = [run(dec5, letters5, l) for l in lines]
    # the engine's batched decoder agrees line by line (blank char of the engine is never emitted)
    assert texts == engine_texts(lines, list('abcd') + [u'​'])

# every path of length 1..4 over 3 symbols
letters3 = ['x', 'y', BLANK_SYMBOL]
dec3 = GreedyDecoder(letters3)
for T in range(1, 5):
    lines = [one_hot_logits(list(p), 3) for p in itertools.product(range(3), repeat=T)]
    texts = [run(dec3, letters3, l) for l in lines]
    assert texts == engine_texts(lines, ['x', 'y', u'​'])

# only blank in the alphabet; separators; multi-character symbols; letters as a tuple
run(GreedyDecoder([BLANK_SYMBOL]), [BLANK_SYMBOL], np.zeros((4, 1)))
for sep in (' ', '|', '--'):
    d = GreedyDecoder(letters5, symbol_separator=sep)
    for p in corner:
        run(d, letters5, one_hot_logits(p, 5), sep=sep)
multi = ['ab', '', 'c c', 'dd', BLANK_SYMBOL]
for p in corner:
    run(GreedyDecoder(multi, symbol_separator='_'), multi, one_hot_logits(p, 5), sep='_')
tup = ('a', 'b', 'c', 'd', BLANK_SYMBOL)
for p in corner:
    run(GreedyDecoder(tup), tup, one_hot_logits(p, 5))

# exact ties inside a frame (uniform frames -> first index wins), via relaxed normalisation check
ties = np.log(np.asarray([
    [0.5, 0.5, 0.0 + 1e-30, 1e-30, 1e-30],
    [0.2, 0.2, 0.2, 0.2, 0.2],
    [1e-30, 1e-30, 1e-30, 0.5, 0.5],
    [1e-30, 1e-30, 1e-30, 0.5, 0.5],
    [1e-30, 1e-30, 1e-30, 1e-30, 1.0],
    [1e-30, 1e-30, 1e-30, 0.5, 0.5],
]))
run(dec5, letters5, ties)
run(dec5, letters5, ties[::-1])                    # negative-stride view
run(dec5, letters5, np.asfortranarray(ties))

# --- random normalised outputs ------------------------------------------------------------------
rng = np.random.RandomState(4321)
for i in range(300):
    C = int(rng.randint(2, 9))
    T = int(rng.randint(1, 30))
    letters = [chr(ord('a') + k) for k in range(C - 1)] + [BLANK_SYMBOL]
    chars = letters[:-1] + [u'​']
    decoder = GreedyDecoder(letters)
    N = int(rng.randint(1, 5))
    lines = []
    for n in range(N):
        kind = (i + n) % 4
        if kind == 0:
            x = rng.randn(T, C) * 3
        elif kind == 1:                       # blank-heavy
            x = rng.randn(T, C) * 3
            x[:, -1] += 4.0
        elif kind == 2:                       # long runs
            x = np.repeat(rng.randn(max(1, (T + 2) // 3), C) * 3, 3, axis=0)[:T]
        else:                                 # coarse scores: many exact ties
            x = rng.randint(0, 3, size=(T, C)).astype(np.float64) * 5
        lines.append(log_softmax(x))
    if i % 2:
        lines = [l.astype(np.float32) for l in lines]
        kwargs = {'max_unnormalization': 1e-4}
    else:
        kwargs = {}
    texts = [run(decoder, letters, l, **kwargs) for l in lines]
    assert texts == engine_texts(lines, chars), (texts, engine_texts(lines, chars))

# un-normalised input is rejected, an empty line too: record the exception class only
for bad, kw in ((np.zeros((3, 5)), {}), (np.zeros((0, 5)), {})):
    try:
        res = dec5(bad, **kw)
        record('no exception', res.best_hyp())
    except Exception as e:  # noqa
        record(type(e).__name__)

print('L-digest', H.hexdigest())
