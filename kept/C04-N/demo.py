#!/usr/bin/env python
"""Differential test for change N (pero_ocr.decoding.decoders.GreedyDecoder).

Run without arguments, with pero_ocr importable from PYTHONPATH.

First run (clean tree): writes reference.json next to this file and prints a summary of it.
Later runs: recompute everything, compare against reference.json and print
    MATCH                (exit code 0)   or
    DIFFERENT: <what>    (exit code 1)

What is compared
  * transcriptions (strings), number of hypotheses, lm score, dtype of the score, "raises ValueError" : exactly
  * the score of the greedy hypothesis (log-sum-exp of the per-frame maxima, a log-domain number of
    magnitude O(1)..O(log T)):   |a-b| <= tol * max(1, |a|, |b|)
    with tol = 1e-9 for float64 logits and tol = 1e-6 for float32 logits.
    (The max(1, .) is there because the score can come out arbitrarily close to 0, e.g. two frames with
    maximum log(1/2) each, where a purely relative comparison of two correctly rounded results is meaningless.)

Besides the comparison with the reference the demo also checks the property itself on every case
where the arg-max is unique (independent pure-python CTC collapse == stand-alone GreedyDecoder ==
batched greedy decoder of the OCR engine); a violation is reported as DIFFERENT as well.
"""
import configparser
import contextlib
import io
import json
import os
import sys

import numpy as np
import torch
from scipy import sparse

from pero_ocr.decoding import decoders
from pero_ocr.decoding.decoders import GreedyDecoder, BLANK_SYMBOL
from pero_ocr.ocr_engine.pytorch_ocr_engine import greedy_decode_ctc

HERE = os.path.dirname(os.path.abspath(__file__))
REFERENCE = os.path.join(HERE, 'reference.json')

ALPHABET = 'abcdefghijklmnopqrstuvwxyzABCDEFGHIJKLMNOPQRSTUVWXYZ'
TOL = {'f64': 1e-9, 'f32': 1e-6, 'f32_fortran': 1e-6, 'f64_sep': 1e-9, 'f64_loose': 1e-9}


# ----------------------------------------------------------------------------------------------
# inputs
# ----------------------------------------------------------------------------------------------
def reference_collapse(path, blank, letters, separator=''):
    """Text-book CTC collapse of an arg-max path: merge adjacent repeats, then drop blanks."""
    merged = []
    for sym in path:
        if not merged or merged[-1] != sym:
            merged.append(sym)
    return separator.join(letters[s] for s in merged if s != blank)


def designed_paths(rng, nb_classes, nb_frames):
    """Arg-max paths covering the corner cases named in the property."""
    blank = nb_classes - 1
    last = max(nb_classes - 2, 0)  # the last symbol class, adjacent to blank
    rand = lambda: rng.integers(0, nb_classes, size=nb_frames)  # noqa: E731

    paths = []
    paths.append(np.full(nb_frames, blank))                                   # all blank
    p = rand(); p[:max(1, nb_frames // 3)] = blank; paths.append(p)           # leading blanks
    p = rand(); p[-max(1, nb_frames // 3):] = blank; paths.append(p)          # trailing blanks
    p = rand(); p[0] = 0; paths.append(p)                                     # first frame non-blank
    p = rand(); p[0] = last; p[-1] = last; paths.append(p)                    # last class at the borders
    p = np.full(nb_frames, last); p[1::2] = blank; paths.append(p)            # repeats split by blanks
    p = np.full(nb_frames, 0); p[2::3] = blank; paths.append(p)               # aa_aa_aa
    paths.append(np.full(nb_frames, last))                                    # one long repeat
    p = np.arange(nb_frames) % nb_classes; paths.append(p)                    # every class in turn
    p = np.repeat(rng.integers(0, nb_classes, size=nb_frames), 2)[:nb_frames]; paths.append(p)
    paths.append(rand())
    return [np.asarray(p, dtype=np.int64) for p in paths]


def log_softmax(x, axis):
    x = x - x.max(axis=axis, keepdims=True)
    return x - np.log(np.exp(x).sum(axis=axis, keepdims=True))


def scores_for_path(rng, path, nb_classes, margin):
    scores = rng.uniform(-1.0, 1.0, size=(len(path), nb_classes))
    scores[np.arange(len(path)), path] += margin
    return scores


def build_cases():
    """Returns a list of (name, raw scores T,C float64, unique_argmax: bool)."""
    rng = np.random.default_rng(40404)
    cases = []

    for nb_classes in (1, 2, 3, 5, 9, 27):
        for nb_frames in (1, 2, 3, 7, 16, 41):
            for i, path in enumerate(designed_paths(rng, nb_classes, nb_frames)):
                margin = (2.5, 3.0, 12.0)[i % 3]
                cases.append(('designed_C{}_T{}_{}'.format(nb_classes, nb_frames, i),
                              scores_for_path(rng, path, nb_classes, margin), True))

    for i in range(150):
        nb_classes = int(rng.integers(1, 12))
        nb_frames = int(rng.integers(1, 60))
        scale = (0.1, 1.0, 5.0, 30.0)[i % 4]
        cases.append(('random_{}'.format(i), scale * rng.normal(size=(nb_frames, nb_classes)), True))

    # exact ties, also between the frame maxima (uniform frames, equal maxima in many frames)
    for i in range(60):
        nb_classes = int(rng.integers(2, 8))
        nb_frames = int(rng.integers(1, 30))
        cases.append(('ties_{}'.format(i), rng.integers(0, 3, size=(nb_frames, nb_classes)).astype(np.float64), False))
    cases.append(('uniform_C2_T2', np.zeros((2, 2)), False))
    cases.append(('uniform_C4_T9', np.zeros((9, 4)), False))
    return cases


# ----------------------------------------------------------------------------------------------
# running the code under test
# ----------------------------------------------------------------------------------------------
def describe(bag):
    hyps = list(bag)
    score = hyps[0].vis_sc
    return {
        'nb_hyps': len(hyps),
        'text': hyps[0].transcript,
        'best_hyp': bag.best_hyp(),
        'score': float(score),
        'score_type': type(score).__name__,
        'lm_sc': hyps[0].lm_sc,
    }


def run_decoder(decoder, logits, **kwargs):
    before = logits.copy()
    try:
        out = describe(decoder(logits, **kwargs))
    except ValueError as e:
        out = {'raises': 'ValueError: {}'.format(e)}
    if not np.array_equal(before, logits, equal_nan=True):
        out['input_modified'] = True
    return out


def decode_page_cases():
    """GreedyDecoder built and driven the way user_scripts do it: decoder_factory + decode_page on sparse logits."""
    from pero_ocr.decoding import decoding_itf

    rng = np.random.default_rng(99)
    config = configparser.ConfigParser()
    config.read_string('[DECODER]\nTYPE = GREEDY\n')
    results = {}
    problems = []
    for nb_classes in (3, 7, 20):
        letters = list(ALPHABET[:nb_classes - 1])
        with contextlib.redirect_stderr(io.StringIO()):
            decoder = decoding_itf.decoder_factory(config['DECODER'], letters, torch.device('cpu'))
        paragraph = {}
        expected = {}
        for i, path in enumerate(designed_paths(rng, nb_classes, 19)):
            dense = np.zeros((len(path), nb_classes))
            noise = rng.random(dense.shape) < 0.3
            dense[noise] = rng.uniform(0.5, 2.0, size=int(noise.sum()))
            dense[np.arange(len(path)), path] = 8.0
            paragraph['line_{}'.format(i)] = sparse.csc_matrix(dense)
            expected['line_{}'.format(i)] = reference_collapse(path, nb_classes - 1, letters + [BLANK_SYMBOL])
        transcripts = decoding_itf.decode_page([paragraph, paragraph], decoder)
        results['decode_page_C{}'.format(nb_classes)] = {'transcripts': transcripts}
        if transcripts != [expected, expected]:
            problems.append('decode_page_C{}: {!r} is not the collapse {!r}'.format(nb_classes, transcripts, expected))
    return results, problems


def compute():
    results = {}
    problems = []

    for name, scores, unique in build_cases():
        nb_frames, nb_classes = scores.shape
        letters = list(ALPHABET[:nb_classes - 1]) + [BLANK_SYMBOL]
        blank = nb_classes - 1
        decoder = GreedyDecoder(letters)
        log_probs = log_softmax(scores, axis=1)

        case = {
            'f64': run_decoder(decoder, log_probs.copy()),
            'f32': run_decoder(decoder, log_probs.astype(np.float32)),
            'f32_fortran': run_decoder(decoder, np.asfortranarray(log_probs.astype(np.float32))),
            'f64_sep': run_decoder(GreedyDecoder(letters, symbol_separator=' '), log_probs.copy()),
            # not normalised: must be refused by default, accepted when the check is switched off
            'f64_unnormalised': run_decoder(decoder, scores + 0.25),
            'f64_loose': run_decoder(decoder, scores + 0.25, max_unnormalization=np.inf),
        }
        results[name] = case

        if unique:
            path = scores.argmax(axis=1)
            expected = reference_collapse(path, blank, letters)
            engine_chars = letters[:-1]
            batched = greedy_decode_ctc(torch.from_numpy(np.ascontiguousarray(log_probs.T[np.newaxis])), engine_chars)[0]
            for vname in ('f64', 'f32', 'f32_fortran', 'f64_loose'):
                if vname.startswith('f32') and not np.array_equal(log_probs.astype(np.float32).argmax(axis=1), path):
                    continue  # float32 rounding created a tie; not a case for this cross-check
                text = case[vname].get('text')
                if not (text == expected == batched and case[vname]['best_hyp'] == expected):
                    problems.append('{}/{}: stand-alone {!r}, collapse {!r}, batched {!r}'.format(
                        name, vname, text, expected, batched))
            if case['f64_sep'].get('text') != reference_collapse(path, blank, letters, ' '):
                problems.append('{}/f64_sep: {!r}'.format(name, case['f64_sep'].get('text')))
        if 'raises' not in case['f64_unnormalised']:
            problems.append('{}: logits that are not normalised were accepted'.format(name))
        if any('input_modified' in v for v in case.values()):
            problems.append('{}: the logits were modified'.format(name))

    page_results, page_problems = decode_page_cases()
    results.update(page_results)
    problems.extend(page_problems)
    return results, problems


# ----------------------------------------------------------------------------------------------
# comparison
# ----------------------------------------------------------------------------------------------
def compare(reference, results):
    if sorted(reference) != sorted(results):
        return 'the sets of cases differ'
    worst = 0.0
    for name in sorted(reference):
        ref_case, res_case = reference[name], results[name]
        if sorted(ref_case) != sorted(res_case):
            return '{}: variants {} vs {}'.format(name, sorted(res_case), sorted(ref_case))
        for vname in sorted(ref_case):
            ref, res = ref_case[vname], res_case[vname]
            if not isinstance(ref, dict):
                if ref != res:
                    return '{}/{}: {!r} vs reference {!r}'.format(name, vname, res, ref)
                continue
            if sorted(ref) != sorted(res):
                return '{}/{}: fields {} vs reference {}'.format(name, vname, sorted(res), sorted(ref))
            for field in sorted(ref):
                if field == 'score':
                    a, b = ref[field], res[field]
                    if np.isnan(a) or np.isnan(b) or np.isinf(a) or np.isinf(b):
                        if not (str(a) == str(b)):
                            return '{}/{}: score {!r} vs reference {!r}'.format(name, vname, b, a)
                        continue
                    err = abs(a - b) / max(1.0, abs(a), abs(b))
                    worst = max(worst, err)
                    if not err <= TOL[vname]:
                        return '{}/{}: score {!r} vs reference {!r} (difference {:.3e} > {:.0e})'.format(
                            name, vname, b, a, err, TOL[vname])
                elif ref[field] != res[field]:
                    return '{}/{}/{}: {!r} vs reference {!r}'.format(name, vname, field, res[field], ref[field])
    return None


def main():
    try:
        results, problems = compute()
    except Exception as e:  # the clean tree raises nothing on these inputs
        print('DIFFERENT: {} raised: {}'.format(type(e).__name__, e))
        return 1
    results = json.loads(json.dumps(results))  # same types as after a round trip through the file

    if not os.path.exists(REFERENCE):
        if problems:
            print('DIFFERENT: property violated while creating the reference: ' + '; '.join(problems[:5]))
            return 1
        with open(REFERENCE, 'w', encoding='utf8') as f:
            json.dump(results, f, ensure_ascii=True, sort_keys=True)
        print('REFERENCE WRITTEN to {}: {} cases'.format(REFERENCE, len(results)))
        for name in ('designed_C5_T7_3', 'designed_C5_T7_5', 'ties_3', 'uniform_C2_T2'):
            for vname in ('f64', 'f32', 'f64_unnormalised'):
                print('  {}/{}: {}'.format(name, vname, results[name][vname]))
        print('  decode_page_C7: {}'.format(results['decode_page_C7']['transcripts'][0]))
        print('  (module under test: {})'.format(decoders.__file__))
        return 0

    with open(REFERENCE, 'r', encoding='utf8') as f:
        reference = json.load(f)

    if problems:
        print('DIFFERENT: property violated: ' + '; '.join(problems[:5]))
        return 1
    difference = compare(reference, results)
    if difference:
        print('DIFFERENT: ' + difference)
        return 1
    print('MATCH')
    return 0


if __name__ == '__main__':
    sys.exit(main())
