#!/usr/bin/env python
"""Differential test for change M (pero_ocr.ocr_engine.pytorch_ocr_engine.greedy_decode_ctc).

Run without arguments, with pero_ocr importable from PYTHONPATH.

First run (clean tree): writes reference.json next to this file and prints a summary of it.
Later runs: recompute everything, compare against reference.json and print
    MATCH                (exit code 0)   or
    DIFFERENT: <what>    (exit code 1)

What is compared
  * transcriptions (strings)            : exactly
  * logits returned by the OCR engine   : |a-b| <= 1e-6 * max(1, |a|, |b|)   (float32 data)
There are no floating point results in the texts, so nothing else needs a tolerance here.

Besides the comparison with the reference the demo also checks the property itself on every case
where the arg-max is unique (independent pure-python CTC collapse == batched greedy decoder ==
stand-alone GreedyDecoder); a violation is reported as DIFFERENT as well.
"""
import json
import os
import sys
import tempfile

import numpy as np
import torch

from pero_ocr.ocr_engine import pytorch_ocr_engine
from pero_ocr.ocr_engine.pytorch_ocr_engine import greedy_decode_ctc, PytorchEngineLineOCR
from pero_ocr.decoding.decoders import GreedyDecoder, BLANK_SYMBOL

HERE = os.path.dirname(os.path.abspath(__file__))
REFERENCE = os.path.join(HERE, 'reference.json')

ALPHABET = 'abcdefghijklmnopqrstuvwxyzABCDEFGHIJKLMNOPQRSTUVWXYZ'
F32_TOL = 1e-6


# ----------------------------------------------------------------------------------------------
# inputs
# ----------------------------------------------------------------------------------------------
def reference_collapse(path, blank, chars):
    """Text-book CTC collapse of an arg-max path: merge adjacent repeats, then drop blanks."""
    merged = []
    for sym in path:
        if not merged or merged[-1] != sym:
            merged.append(sym)
    return ''.join(chars[s] for s in merged if s != blank)


def designed_paths(rng, nb_classes, nb_frames):
    """Arg-max paths covering the corner cases named in the property."""
    blank = nb_classes - 1
    last = max(nb_classes - 2, 0)  # the last symbol class, adjacent to blank
    rand = lambda: rng.integers(0, nb_classes, size=nb_frames)  # noqa: E731

    paths = []
    paths.append(np.full(nb_frames, blank))                                   # all blank
    p = rand(); p[:max(1, nb_frames // 3)] = blank; paths.append(p)           # leading blanks
    p = rand(); p[-max(1, nb_frames // 3):] = blank; paths.append(p)          # trailing blanks
    p = rand(); p[0] = 0; paths.append(p)                                     # first frame non-blank
    p = rand(); p[0] = last; p[-1] = last; paths.append(p)                    # last class at the borders
    p = np.full(nb_frames, last); p[1::2] = blank; paths.append(p)            # repeats split by blanks
    p = np.full(nb_frames, 0); p[2::3] = blank; paths.append(p)               # aa_aa_aa
    paths.append(np.full(nb_frames, last))                                    # one long repeat
    p = np.arange(nb_frames) % nb_classes; paths.append(p)                    # every class in turn
    p = np.repeat(rng.integers(0, nb_classes, size=nb_frames), 2)[:nb_frames]; paths.append(p)
    paths.append(rand())
    return [np.asarray(p, dtype=np.int64) for p in paths]


def scores_for_paths(rng, paths, nb_classes, margin=3.0):
    """N,C,T scores whose unique per-frame arg-max is the given path."""
    nb_lines, nb_frames = len(paths), len(paths[0])
    scores = rng.uniform(-1.0, 1.0, size=(nb_lines, nb_classes, nb_frames))
    for n, path in enumerate(paths):
        scores[n, path, np.arange(nb_frames)] += margin
    return scores


def build_cases():
    """Returns a list of (name, scores as numpy N,C,T float64, unique_argmax: bool)."""
    rng = np.random.default_rng(20240404)
    cases = []

    # designed batches: lines of one batch have different content
    for nb_classes in (1, 2, 3, 5, 9, 27):
        for nb_frames in (1, 2, 3, 7, 16, 41):
            paths = designed_paths(rng, nb_classes, nb_frames)
            cases.append(('designed_C{}_T{}'.format(nb_classes, nb_frames),
                          scores_for_paths(rng, paths, nb_classes), True))
            order = rng.permutation(len(paths))
            cases.append(('designed_shuffled_C{}_T{}'.format(nb_classes, nb_frames),
                          scores_for_paths(rng, [paths[i] for i in order[:4]], nb_classes), True))

    # plain random scores
    for i in range(150):
        nb_lines = int(rng.integers(1, 7))
        nb_classes = int(rng.integers(1, 12))
        nb_frames = int(rng.integers(1, 40))
        cases.append(('random_{}'.format(i), rng.normal(size=(nb_lines, nb_classes, nb_frames)), True))

    # small integer scores: a lot of exact ties (arg-max = first maximal class in torch and numpy)
    for i in range(80):
        nb_lines = int(rng.integers(1, 6))
        nb_classes = int(rng.integers(2, 8))
        nb_frames = int(rng.integers(1, 30))
        cases.append(('ties_{}'.format(i),
                      rng.integers(0, 3, size=(nb_lines, nb_classes, nb_frames)).astype(np.float64), False))

    # empty batch
    cases.append(('empty_batch', np.zeros((0, 4, 5)), True))
    return cases


# ----------------------------------------------------------------------------------------------
# the engine, built by its real constructor around a tiny exported (TorchScript) model
# ----------------------------------------------------------------------------------------------
class PixelNet(torch.nn.Module):
    """Reads the scores straight from the red channel: logits[n, c, t] = 255 * x[n, 0, c, 4 * t].

    The blank row gets +0.5 so that the zero padding added by process_lines() decodes as blank.
    """
    def __init__(self, nb_classes):
        super().__init__()
        bias = torch.zeros(nb_classes)
        bias[-1] = 0.5
        self.register_buffer('bias', bias)

    def forward(self, x):
        return x[:, 0, :, ::4] * 255.0 + self.bias[None, :, None]


def build_engine(tmp_dir, nb_classes):
    checkpoint = os.path.join(tmp_dir, 'pixelnet_{}.pt'.format(nb_classes))
    torch.jit.script(PixelNet(nb_classes)).save(checkpoint + '.cpu')
    json_def = os.path.join(tmp_dir, 'ocr_engine_{}.json'.format(nb_classes))
    with open(json_def, 'w', encoding='utf8') as f:
        json.dump({'line_px_height': nb_classes, 'line_vertical_scale': 1.0,
                   'checkpoint': checkpoint, 'characters': list(ALPHABET[:nb_classes - 2]),
                   'net_name': 'PIXEL_NET'}, f)
    return PytorchEngineLineOCR(json_def, torch.device('cpu'), batch_size=4)


def scores_to_images(scores_u8):
    """N,C,T uint8 scores -> N,C,4T,3 uint8 images that PixelNet turns back into the scores."""
    nb_lines, nb_classes, nb_frames = scores_u8.shape
    images = np.zeros((nb_lines, nb_classes, 4 * nb_frames, 3), dtype=np.uint8)
    images[:, :, ::4, 0] = scores_u8
    images[:, :, :, 1] = 77  # the other channels and columns must not matter
    return images


def engine_cases(tmp_dir):
    rng = np.random.default_rng(777)
    results = {}
    problems = []
    for nb_classes in (3, 6, 12):
        engine = build_engine(tmp_dir, nb_classes)
        chars = engine.characters
        blank = nb_classes - 1
        for nb_frames in (1, 8, 24):
            paths = designed_paths(rng, nb_classes, nb_frames)
            scores = np.clip(np.round(scores_for_paths(rng, paths, nb_classes, margin=9.0) * 10 + 100), 0, 255)
            scores = scores.astype(np.uint8)
            name = 'engine_C{}_T{}'.format(nb_classes, nb_frames)

            decoded, logits = engine.run_ocr(scores_to_images(scores))
            results[name + '_run_ocr'] = {'texts': list(decoded), 'logits': np.asarray(logits).tolist()}
            expected = [reference_collapse(p, blank, chars) for p in paths]
            if list(decoded) != expected:
                problems.append('{}: run_ocr text {!r} is not the collapse {!r}'.format(name, decoded, expected))

            # lines of different widths through process_lines (sorted, padded and batched internally)
            lines = [scores_to_images(scores[n:n + 1, :, :max(1, nb_frames - 2 * n)])[0] for n in range(len(paths))]
            texts, line_logits, _ = engine.process_lines(lines, sparse_logits=False)
            results[name + '_process_lines'] = {'texts': list(texts),
                                                'logits': [np.asarray(x).tolist() for x in line_logits]}
            expected = [reference_collapse(p[:max(1, nb_frames - 2 * n)], blank, chars) for n, p in enumerate(paths)]
            if list(texts) != expected:
                problems.append('{}: process_lines text {!r} is not the collapse {!r}'.format(name, texts, expected))
    return results, problems


# ----------------------------------------------------------------------------------------------
# running the code under test
# ----------------------------------------------------------------------------------------------
def log_softmax(x, axis):
    x = x - x.max(axis=axis, keepdims=True)
    return x - np.log(np.exp(x).sum(axis=axis, keepdims=True))


def compute():
    results = {}
    problems = []

    for name, scores, unique in build_cases():
        nb_lines, nb_classes, nb_frames = scores.shape
        chars = list(ALPHABET[:max(nb_classes - 2, 0)]) + [u'\u200B']  # as the engine builds them
        blank = nb_classes - 1

        variants = {
            'f32': torch.from_numpy(scores.astype(np.float32)),
            'f64': torch.from_numpy(scores.copy()),
            # what an exported net typically hands over: a permuted, non-contiguous view
            'f32_noncontig': torch.from_numpy(np.ascontiguousarray(scores.astype(np.float32).transpose(0, 2, 1))).permute(0, 2, 1),
        }
        texts_by_variant = {}
        for vname, tensor in variants.items():
            before = tensor.clone()
            texts = greedy_decode_ctc(tensor, chars)
            if not torch.equal(before, tensor):
                problems.append('{}/{}: the input tensor was modified'.format(name, vname))
            if not isinstance(texts, list) or not all(isinstance(t, str) for t in texts):
                problems.append('{}/{}: result is not a list of str'.format(name, vname))
            texts_by_variant[vname] = list(texts)
        results[name] = texts_by_variant

        if unique:
            paths = scores.argmax(axis=1)
            expected = [reference_collapse(p, blank, chars) for p in paths]
            decoder = GreedyDecoder(chars[:nb_classes - 1] + [BLANK_SYMBOL])
            for n in range(nb_lines):
                standalone = decoder(log_softmax(scores[n].T, axis=1)).best_hyp()
                for vname, texts in texts_by_variant.items():
                    if vname == 'f32' or vname == 'f32_noncontig':
                        if not np.array_equal(scores.astype(np.float32).argmax(axis=1), paths):
                            continue  # float32 rounding created a tie; not a case for this cross-check
                    if not (texts[n] == expected[n] == standalone):
                        problems.append('{}/{} line {}: batched {!r}, collapse {!r}, stand-alone {!r}'.format(
                            name, vname, n, texts[n], expected[n], standalone))

    with tempfile.TemporaryDirectory() as tmp_dir:
        engine_results, engine_problems = engine_cases(tmp_dir)
    results.update(engine_results)
    problems.extend(engine_problems)
    return results, problems


# ----------------------------------------------------------------------------------------------
# comparison
# ----------------------------------------------------------------------------------------------
def compare_floats(a, b, tol, where):
    a = np.asarray(a, dtype=np.float64)
    b = np.asarray(b, dtype=np.float64)
    if a.shape != b.shape:
        return '{}: shape {} vs {}'.format(where, a.shape, b.shape)
    if a.size == 0:
        return None
    scale = np.maximum(1.0, np.maximum(np.abs(a), np.abs(b)))
    err = np.abs(a - b) / scale
    if not np.all(err <= tol):
        return '{}: max relative difference {:.3e} > {:.0e}'.format(where, float(np.nanmax(err)), tol)
    return None


def compare(reference, results):
    if sorted(reference) != sorted(results):
        return 'the sets of cases differ'
    for name in sorted(reference):
        ref, res = reference[name], results[name]
        if sorted(ref) != sorted(res):
            return '{}: keys {} vs {}'.format(name, sorted(ref), sorted(res))
        for key in sorted(ref):
            if key == 'logits':
                if isinstance(ref[key], list) and ref[key] and isinstance(ref[key][0], list) \
                        and len(ref[key]) == len(res[key]):
                    for i, (r, s) in enumerate(zip(ref[key], res[key])):
                        msg = compare_floats(r, s, F32_TOL, '{}/logits[{}]'.format(name, i))
                        if msg:
                            return msg
                else:
                    msg = compare_floats(ref[key], res[key], F32_TOL, '{}/logits'.format(name))
                    if msg:
                        return msg
            elif ref[key] != res[key]:
                return '{}/{}: texts {!r} vs reference {!r}'.format(name, key, res[key], ref[key])
    return None


def main():
    try:
        results, problems = compute()
    except Exception as e:  # the clean tree raises nothing on these inputs
        print('DIFFERENT: {} raised: {}'.format(type(e).__name__, e))
        return 1
    results = json.loads(json.dumps(results))  # same types as after a round trip through the file

    if not os.path.exists(REFERENCE):
        if problems:
            print('DIFFERENT: property violated while creating the reference: ' + '; '.join(problems[:5]))
            return 1
        with open(REFERENCE, 'w', encoding='utf8') as f:
            json.dump(results, f, ensure_ascii=True, sort_keys=True)
        nb_texts = sum(len(t) for case in results.values() for k, t in case.items() if k != 'logits')
        print('REFERENCE WRITTEN to {}: {} cases, {} transcriptions'.format(REFERENCE, len(results), nb_texts))
        for name in ('designed_C5_T7', 'ties_3', 'engine_C6_T8_run_ocr', 'engine_C6_T8_process_lines'):
            print('  {}: {}'.format(name, {k: v for k, v in results[name].items() if k != 'logits'}))
        print('  (module under test: {})'.format(pytorch_ocr_engine.__file__))
        return 0

    with open(REFERENCE, 'r', encoding='utf8') as f:
        reference = json.load(f)

    if problems:
        print('DIFFERENT: property violated: ' + '; '.join(problems[:5]))
        return 1
    difference = compare(reference, results)
    if difference:
        print('DIFFERENT: ' + difference)
        return 1
    print('MATCH')
    return 0


if __name__ == '__main__':
    sys.exit(main())
