"""Differential demo for change L (PAGE XML import split into per-line / per-attribute helpers).

1. A few hundred random page layouts are exported (both PAGE versions), re-imported, re-exported
   (round trip + fixpoint), everything observed is hashed.
2. Hand-written / mutated PAGE XML documents exercise the import paths an exporter never produces:
   legacy 'heights' custom formats (4 / 3 / other number counts, Unicode digits), several heights_v2
   words, custom without heights, broken heights_v2, missing / non-integer index, missing Baseline
   (warning is captured), missing Coords, <Point> children, empty <Unicode/>, missing conf,
   nested regions, reading order.
The global numpy RNG is seeded before every import and sampled after it, so a change in the number
of random draws made by the import would show up in the digest as well.
No arguments; prints one digest; exit code 0.
"""
import collections
import hashlib
import logging
import re
import sys

import numpy as np

from pero_ocr.core.layout import PageLayout, RegionLayout, TextLine, PAGEVersion

TS = re.compile(r"<(Created|LastChange)>[^<]*</(Created|LastChange)>")
H = hashlib.sha256()
STATS = collections.Counter()


class ListHandler(logging.Handler):
    def __init__(self):
        super().__init__(level=logging.DEBUG)
        self.records = []

    def emit(self, record):
        self.records.append((record.name, record.levelname, record.getMessage()))


LOG = ListHandler()
_layout_logger = logging.getLogger("pero_ocr.core.layout")
_layout_logger.addHandler(LOG)
_layout_logger.propagate = False


def note(*items):
    for it in items:
        H.update(repr(it).encode("utf-8", "surrogatepass"))
        H.update(b"\x00")


def strip_ts(xml):
    return TS.sub("", xml)


def value_repr(v):
    if isinstance(v, np.ndarray):
        return ("ndarray", str(v.dtype), v.shape, v.tolist())
    if isinstance(v, (list, tuple)):
        return (type(v).__name__, [value_repr(x) for x in v])
    if isinstance(v, float):
        return ("float", float("%.12g" % v) if v == v and abs(v) != float("inf") else repr(v))
    return (type(v).__name__, v)


def layout_summary(page):
    out = [page.id, tuple(page.page_size), page.reading_order]
    for region in page.regions:
        out.append(("region", region.id, region.region_type, region.transcription, value_repr(region.polygon),
                    len(region.lines)))
        for line in region.lines:
            out.append(("line", line.id, value_repr(line.index), value_repr(line.baseline), value_repr(line.polygon),
                        value_repr(line.heights), line.transcription, value_repr(line.transcription_confidence),
                        line.logits, line.crop, line.characters, line.logit_coords))
    return out


def do_import(xml, via_file_arg=False):
    """Import with a fixed RNG seed; returns the layout (regions sorted like the constructor does)."""
    np.random.seed(4321)
    del LOG.records[:]
    page = PageLayout()
    page.from_pagexml_string(xml)
    if page.reading_order is not None and len(page.regions) > 0:
        page.sort_regions_by_reading_order()
    note("rng-after", np.random.random(), "log", list(LOG.records))
    return page


TEXTS = [None, "", "plain", " lead and trail ", "<a & b> \"q\" 'r' ]]>", "é combining ạ̈", "שלום עולם RTL مرحبا",
         "astral \U0001d11e\U0001f600\U00020000", "tab\tand\nnewline", " nbsp  em-space", "heights_v2:[1,2]", "   "]


def rand_points(rng, n):
    base = rng.uniform(-300, 3000, size=(n, 2))
    mode = int(rng.integers(0, 4))
    if mode == 0:
        return np.round(base * 2) / 2
    if mode == 1:
        return np.round(base).astype(np.int64)
    if mode == 2:
        return base.astype(np.float32)
    return base


def build_page(rng, case_i):
    page = PageLayout(id="page {}.jpg".format(case_i), page_size=(int(rng.integers(0, 5000)), int(rng.integers(0, 5000))))
    n_regions = int(rng.integers(0, 5))
    for r in range(n_regions):
        region = RegionLayout("r{}".format(r), rand_points(rng, int(rng.integers(3, 7))),
                              region_type=[None, "paragraph", "heading"][int(rng.integers(3))])
        region.transcription = TEXTS[int(rng.integers(len(TEXTS)))]
        for l in range(int(rng.integers(0, 5))):
            n_b = int(rng.integers(2, 6))
            xs = np.sort(rng.uniform(0, 2000, size=n_b))
            y0 = rng.uniform(50, 2000)
            if rng.integers(5) == 0:
                baseline = rand_points(rng, n_b)
                polygon = rand_points(rng, int(rng.integers(3, 9)))
            else:  # a sane line: polygon encloses the baseline so that guessed heights are non-trivial
                baseline = np.stack([xs, y0 + rng.uniform(-3, 3, size=n_b)], axis=1)
                up, down = rng.uniform(5, 60), rng.uniform(2, 25)
                polygon = np.concatenate([baseline - [0, up], (baseline + [0, down])[::-1]], axis=0)
            hmode = int(rng.integers(5))
            if hmode == 0:
                heights = None
            elif hmode == 1:
                heights = [0.0, 0.0]
            elif hmode == 2:
                heights = np.array([rng.uniform(0, 60), rng.uniform(0, 30)], dtype=np.float32)
            else:
                heights = [float(rng.uniform(0, 60)), float(rng.uniform(0, 30))]
            text = TEXTS[int(rng.integers(len(TEXTS)))]
            conf = [None, 0, 1, 0.9995, 0.00049][int(rng.integers(5))] if rng.integers(2) else float(rng.uniform(0, 1))
            index = None if rng.integers(3) == 0 else int(rng.integers(-3, 50))
            region.lines.append(TextLine(id="r{}-l{}".format(r, l), baseline=baseline, polygon=polygon, heights=heights,
                                         transcription=text, transcription_confidence=conf, index=index))
        page.regions.append(region)
    if n_regions and rng.integers(2):
        order = rng.permutation(n_regions)[: int(rng.integers(0, n_regions + 1))]
        page.reading_order = {"r{}".format(int(r)): i for i, r in enumerate(order)}
    return page


def roundtrip_cases(rng):
    for case_i in range(240):
        page = build_page(rng, case_i)
        for version in (PAGEVersion.PAGE_2019_07_15, PAGEVersion.PAGE_2013_07_15):
            validate_id = bool(rng.integers(2))
            xml1 = strip_ts(page.to_pagexml_string(version=version, validate_id=validate_id))
            loaded = do_import(xml1)
            note(version.name, layout_summary(loaded))
            xml2 = strip_ts(loaded.to_pagexml_string(version=version))
            loaded2 = do_import(xml2)
            xml3 = strip_ts(loaded2.to_pagexml_string(version=version))
            note(layout_summary(loaded2), xml2, xml3, xml2 == xml3)
            STATS["roundtrip"] += 1
            STATS["fixpoint" if xml2 == xml3 else "no_fixpoint"] += 1
            # the constructor path (file argument) must agree as well
            if case_i % 40 == 0:
                import os
                import tempfile
                fd, path = tempfile.mkstemp(suffix=".xml")
                try:
                    with os.fdopen(fd, "w", encoding="utf-8") as f:
                        f.write(xml1)
                    np.random.seed(4321)
                    note(layout_summary(PageLayout(file=path)))
                finally:
                    os.remove(path)


NS = {"2019": "http://schema.primaresearch.org/PAGE/gts/pagecontent/2019-07-15",
      "2013": "http://schema.primaresearch.org/PAGE/gts/pagecontent/2013-07-15",
      "2010": "http://schema.primaresearch.org/PAGE/gts/pagecontent/2010-03-19"}

BASELINE = '<Baseline points="10,100 200,104 400,98"/>'
COORDS = '<Coords points="10,60 400,58 400,120 10,122"/>'
POINT_COORDS = '<Coords><Point x="10" y="60.5"/><Point x="400.25" y="58"/><Point x="400" y="120"/><Point x="10" y="122"/></Coords>'
POINT_BASELINE = '<Baseline><Point x="10" y="100"/><Point x="400.5" y="98.5"/></Baseline>'

LINE_ATTRS = [
    '', 'custom=""', 'custom="heights_v2:[12.5,4.0]"', 'custom="heights_v2:[12.5,4.0] heights_v2:[1,2]"',
    'custom="readingOrder {index:0;} heights_v2:[30,10.25]"', 'custom="heights_v2:[0,0]"', 'custom="heights_v2:[]"',
    'custom="heights_v2:null"', 'custom="heights_v2:7"', 'custom="heights_v2:[1e2,2E-1]"',
    'custom="x:heights_v2:[3,4]"', 'custom="heights_v2:[5,6]:junk"', 'custom="heights_v2:[5,\t6]"',
    'custom="heights_v2:[5,&#10;6]"', 'custom="heights_v2:[-1.5,2]"', 'custom="heights_v2:[1,2,3]"',
    'custom="heights 10 30 12 8"', 'custom="heights: 10, 30, 12"', 'custom="heights {5 40 47}"',
    'custom="heights 12 5"', 'custom="heights 7"', 'custom="heights"', 'custom="heights 1 2 3 4 5"',
    'custom="heights 16777217 1 33554433 2"', 'custom="heights 3 16777217 4"', 'custom="heights 0 0 0"',
    'custom="heights 0 0 0 0"', 'custom="heights 1.5 2.5"', 'custom="heights -3 -4 -5"',
    'custom="heights ١٢ ٣٤ ٥٦"', 'custom="heights ４ ５ ６ ７"', 'custom="Heights 1 2 3"',
    'custom="height 1 2 3"', 'custom="readingOrder {index:3;}"', 'custom="structure {type:heading;} 12 13 14"',
    'custom="heightsv2 1 2 3 4"', 'custom="heights_v 1 2 3"', 'custom="lineheights 9 8 7 6"',
    'custom="heights 99999999999999999999999999999999999999999 1 2"',
    'custom="heights 5 99999999999999999999999999999999999999999 2 1"',
    'index="5"', 'index="-2"', 'index=" 7 "', 'index="+3"', 'index="1_0"', 'index="٣"', 'index=""', 'index="abc"',
    'index="1.0"', 'index="0" custom="heights_v2:[9,3]"', 'index="x" custom="heights 1 2 3 4"',
]

TEXT_EQUIVS = [
    '', '<TextEquiv><Unicode>hello</Unicode></TextEquiv>', '<TextEquiv><Unicode/></TextEquiv>',
    '<TextEquiv><Unicode></Unicode></TextEquiv>', '<TextEquiv conf="0.5"><Unicode> a &lt;b&gt; &amp; c </Unicode></TextEquiv>',
    '<TextEquiv conf="1"><Unicode/></TextEquiv>', '<TextEquiv conf="1e-3"><Unicode>x</Unicode></TextEquiv>',
    '<TextEquiv conf=" 0.25 "><Unicode>\U0001f600 שלום é</Unicode></TextEquiv>',
    '<TextEquiv conf="nan"><Unicode>n</Unicode></TextEquiv>',
    '<TextEquiv><PlainText>p</PlainText><Unicode>u</Unicode></TextEquiv>',
    '<TextEquiv><Unicode>first</Unicode></TextEquiv><TextEquiv conf="0.1"><Unicode>second</Unicode></TextEquiv>',
    '<TextEquiv><Unicode>a<!-- c -->b</Unicode></TextEquiv>',
    '<Word id="w"><Coords points="1,1 2,2 3,3"/><TextEquiv conf="0.9"><Unicode>word</Unicode></TextEquiv></Word>',
]


def doc(ns, body, reading_order=''):
    return ('<?xml version="1.0" encoding="UTF-8"?>\n<PcGts xmlns="{}"><Page imageFilename="hand.png" imageWidth="800" '
            'imageHeight="600">{}{}</Page></PcGts>').format(NS[ns], reading_order, body)


def try_import(tag, xml):
    STATS["handwritten"] += 1
    try:
        page = do_import(xml)
    except Exception as e:
        note(tag, "raised", type(e).__name__)
        STATS["handwritten_raised"] += 1
        return
    note(tag, layout_summary(page))
    for version in (PAGEVersion.PAGE_2019_07_15, PAGEVersion.PAGE_2013_07_15):
        try:
            xml2 = strip_ts(page.to_pagexml_string(version=version))
            page2 = do_import(xml2)
            xml3 = strip_ts(page2.to_pagexml_string(version=version))
            note(xml2, layout_summary(page2), xml2 == xml3)
        except Exception as e:
            note(tag, "re-export raised", type(e).__name__)
            STATS["handwritten_reexport_raised"] += 1


def handwritten_cases():
    i = 0
    for ns in ("2019", "2013"):
        for attrs in LINE_ATTRS:
            te = TEXT_EQUIVS[i % len(TEXT_EQUIVS)]
            geometry = [COORDS + BASELINE, POINT_COORDS + POINT_BASELINE, BASELINE + COORDS][i % 3]
            body = ('<TextRegion id="r0" type="paragraph"><Coords points="0,0 800,0 800,600 0,600"/>'
                    '<TextLine id="l0" {}>{}{}</TextLine>'
                    '<TextLine id="l1">{}{}</TextLine></TextRegion>').format(attrs, geometry, te, COORDS, BASELINE)
            try_import(("attrs", ns, attrs), doc(ns, body))
            i += 1
    for ns in ("2019", "2013", "2010"):
        for te in TEXT_EQUIVS:
            body = ('<TextRegion id="r0"><Coords points="0,0 800,0 800,600 0,600"/>'
                    '<TextLine id="l0" custom="heights_v2:[20,5]">{}{}{}</TextLine>{}</TextRegion>'
                    ).format(COORDS, BASELINE, te, te)
            try_import(("textequiv", ns, te), doc(ns, body))
        # lines without baseline are skipped (warning), following lines keep their positional default index
        body = ('<TextRegion id="r0"><Coords points="0,0 800,0 800,600 0,600"/>'
                '<TextLine id="nb0">' + COORDS + '</TextLine>'
                '<TextLine id="ok1">' + COORDS + BASELINE + '</TextLine>'
                '<TextLine id="nb2" index="9" custom="heights_v2:[1,1]"><TextEquiv><Unicode>t</Unicode></TextEquiv></TextLine>'
                '<TextLine id="ok3" custom="heights 1 2 3 4">' + BASELINE + '</TextLine>'
                '<TextLine id="ok4" custom="heights_v2:[8,2]">' + BASELINE + '</TextLine>'
                '<TextLine id="ok5">' + COORDS + POINT_BASELINE + '<TextEquiv conf="0.123456"><Unicode>z</Unicode></TextEquiv></TextLine>'
                '</TextRegion><TextRegion id="r1"><Coords points="1,1 2,2 3,3"/></TextRegion>')
        try_import(("nobaseline", ns), doc(ns, body))
        # nested regions, reading order (partial), region text
        ro = ('<ReadingOrder><OrderedGroup id="ro"><RegionRefIndexed regionRef="r2" index="0"/>'
              '<RegionRefIndexed regionRef="r0" index="1"/></OrderedGroup></ReadingOrder>')
        body = ('<TextRegion id="r0"><Coords points="0,0 800,0 800,300 0,300"/>'
                '<TextLine id="a" index="4">' + COORDS + BASELINE + '</TextLine>'
                '<TextRegion id="r1" type="heading"><Coords points="5,5 50,5 50,50"/>'
                '<TextLine id="b" custom="heights 4 20 26">' + COORDS + BASELINE + '</TextLine>'
                '<TextEquiv><Unicode>inner</Unicode></TextEquiv></TextRegion>'
                '<TextEquiv><Unicode/></TextEquiv></TextRegion>'
                '<TextRegion id="r2"><Coords><Point x="1" y="2"/><Point x="30.5" y="2"/><Point x="30" y="40"/></Coords>'
                '<TextLine id="c">' + POINT_COORDS + POINT_BASELINE + '<TextEquiv><Unicode>c</Unicode></TextEquiv></TextLine>'
                '</TextRegion>')
        try_import(("nested", ns), doc(ns, body, ro))
        try_import(("empty", ns), doc(ns, ''))
        try_import(("noid", ns), doc(ns, '<TextRegion id="r0"><Coords points="0,0 1,1 2,2"/><TextLine>' + COORDS + BASELINE
                                     + '</TextLine></TextRegion>'))
        try_import(("nounicode", ns), doc(ns, '<TextRegion id="r0"><Coords points="0,0 1,1 2,2"/><TextLine id="l">' + COORDS
                                          + BASELINE + '<TextEquiv conf="0.5"/></TextLine></TextRegion>'))


def main():
    rng = np.random.default_rng(987654321)
    roundtrip_cases(rng)
    handwritten_cases()
    print("cases:", dict(sorted(STATS.items())))
    print("digest:", H.hexdigest())
    return 0


if __name__ == "__main__":
    sys.exit(main())
