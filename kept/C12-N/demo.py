#!/usr/bin/env python3
"""Differential test for property C12 (region sorting only permutes regions and terminates).

Run without arguments with pero_ocr importable from PYTHONPATH.
First run (clean tree): writes reference.json next to this file.
Later runs: compare against reference.json with tolerances and print
`MATCH` (exit 0) or `DIFFERENT: <what>` (exit 1).

What is compared for every generated page and every sorter configuration:
  * outcome (returned normally / exception class name),
  * the returned region ids (as a multiset AND as a sequence -- the generated inputs contain
    no round-off-level near ties, so the sequence is expected to be stable too; the only exception are the
    "tie_*" pages, constructed so that the fallback's choice of the sorting axis is an exact tie in real
    arithmetic: the statement leaves the order open, ids are compared as a multiset there),
  * per region: line ids, transcriptions, region transcription (exactly),
  * per region: polygon, line polygons, baselines: identical array shapes, values equal
    within 1e-9 relative to the coordinate scale of the page (all data are float64).
"""
import configparser
import json
import os
import sys
import warnings

import numpy as np

from pero_ocr.core.layout import PageLayout, RegionLayout, TextLine
from pero_ocr.layout_engines.smart_sorter import SmartRegionSorter
from pero_ocr.layout_engines.naive_sorter import NaiveRegionSorter

HERE = os.path.dirname(os.path.abspath(__file__))
REFERENCE = os.path.join(HERE, 'reference.json')
RTOL = 1e-9


# --------------------------------------------------------------------------- page generators
def box(x0, y0, x1, y1, dtype=np.float64):
    return np.array([[x0, y0], [x1, y0], [x1, y1], [x0, y1]], dtype=dtype)


def make_lines(rng, reg_id, x0, y0, x1, y1, n_lines, slant, int_baseline=False):
    """n_lines text lines inside the box, baselines tilted by `slant` (dy/dx); slant may be a list."""
    lines = []
    if n_lines == 0:
        return lines
    h = (y1 - y0) / (n_lines + 1.0)
    for i in range(n_lines):
        s = slant[i % len(slant)] if isinstance(slant, (list, tuple)) else slant
        # different lengths so that the "longest half" selection in get_rotation has no ties
        xa = x0 + 1 + 0.37 * i
        xb = x1 - 1 - 1.91 * i - float(rng.uniform(0, 3))
        if xb <= xa + 2:
            xb = xa + 5 + i
        yb = y0 + h * (i + 1)
        xm = (xa + xb) / 2
        baseline = np.array([[xa, yb], [xm, yb + s * (xm - xa)], [xb, yb + s * (xb - xa)]], dtype=np.float64)
        if int_baseline:
            baseline = np.round(baseline).astype(np.int64)
        poly = np.array([[xa, yb - 0.6 * h], [xb, yb - 0.6 * h + s * (xb - xa)],
                         [xb, yb + 0.3 * h + s * (xb - xa)], [xa, yb + 0.3 * h]], dtype=np.float64)
        line = TextLine(id='{}_l{}'.format(reg_id, i), baseline=baseline, polygon=poly,
                        heights=np.array([0.6 * h, 0.3 * h]), transcription='text {} {}'.format(reg_id, i), index=i)
        lines.append(line)
    return lines


def make_page(rng, polys, slant, lines_per_region, transcriptions=True, int_baseline=False):
    page = PageLayout(id='p', page_size=(2000, 2000))
    for i, poly in enumerate(polys):
        rid = 'r{:03d}'.format(i)
        region = RegionLayout(rid, poly)
        x0, y0 = poly.min(axis=0)
        x1, y1 = poly.max(axis=0)
        n_lines = lines_per_region[i % len(lines_per_region)]
        region.lines = make_lines(rng, rid, float(x0), float(y0), float(x1), float(y1), n_lines, slant, int_baseline)
        if transcriptions:
            region.transcription = '\n'.join(l.transcription for l in region.lines)
        page.regions.append(region)
    return page


def gen_pages():
    """Yield (name, page_factory) -- factory so that each sorter gets a fresh copy."""
    slants = [0.0, 0.013, -0.021, 0.11, -0.3, [0.02, -0.02, 0.05], [0.04, 0.0, 0.04, 0.0, 0.04]]
    line_plans = [[3], [4, 2, 0, 1], [0], [6, 1], [2, 2, 5]]
    specs = []

    def add(name, poly_fn, seeds=(0,)):
        for seed in seeds:
            for si, slant in enumerate(slants):
                lp = line_plans[(si + seed) % len(line_plans)]
                specs.append(('{}|s{}|slant{}'.format(name, seed, si), poly_fn, seed, slant, lp))

    # none / single
    add('empty', lambda rng: [])
    add('single', lambda rng: [box(100, 100, 400, 300)])
    # grids and columns
    add('grid3x3', lambda rng: [box(100 + 300 * c, 100 + 250 * r, 350 + 300 * c, 300 + 250 * r)
                                for r in range(3) for c in range(3)][::-1])
    add('grid_shuffled', lambda rng: [box(50 + 220 * c + rng.uniform(-5, 5), 60 + 180 * r + rng.uniform(-5, 5),
                                          250 + 220 * c + rng.uniform(-5, 5), 220 + 180 * r + rng.uniform(-5, 5))
                                      for r, c in rng.permutation([(r, c) for r in range(4) for c in range(3)])],
        seeds=(1, 2, 3))
    add('columns', lambda rng: [box(100 + 400 * c, 100 + 210 * r, 450 + 400 * c, 290 + 210 * r)
                                for c in range(3) for r in (2, 0, 3, 1)])
    add('columns_int', lambda rng: [box(100 + 400 * c, 100 + 210 * r, 450 + 400 * c, 290 + 210 * r, np.int64)
                                    for c in (1, 0, 2) for r in (2, 0, 1)])
    # mutually overlapping in both axes -> recursive fallback (decouple)
    add('diag_overlap', lambda rng: [box(100 + 40 * i, 100 + 40 * i, 500 + 40 * i, 400 + 40 * i)
                                     for i in (3, 0, 4, 1, 2)])
    add('stair_overlap', lambda rng: [box(100 + 70 * i + rng.uniform(-9, 9), 900 - 55 * i + rng.uniform(-9, 9),
                                          480 + 70 * i + rng.uniform(-9, 9), 1250 - 55 * i + rng.uniform(-9, 9))
                                      for i in rng.permutation(6)], seeds=(4, 5, 6))
    add('overlap_plus_grid', lambda rng: [box(100 + 30 * i, 100 + 55 * i, 420 + 30 * i, 380 + 55 * i) for i in (2, 0, 1)]
        + [box(900 + 300 * c, 100 + 300 * r, 1150 + 300 * c, 350 + 300 * r) for r in range(2) for c in range(2)]
        + [box(150 + 25 * i, 1000 + 25 * i, 600 + 25 * i, 1300 + 25 * i) for i in (1, 3, 0, 2)])
    add('random_overlap', lambda rng: [box(x, y, x + rng.uniform(100, 700), y + rng.uniform(100, 700))
                                       for x, y in rng.uniform(0, 1200, size=(int(rng.integers(3, 9)), 2))],
        seeds=tuple(range(10, 17)))
    # nested / identical
    add('nested', lambda rng: [box(300, 300, 500, 450), box(100, 100, 900, 800), box(350, 320, 450, 400),
                               box(1000, 100, 1400, 800)])
    add('identical', lambda rng: [box(100, 100, 500, 400) for _ in range(4)] + [box(600, 100, 900, 400)])
    add('identical_pair_only', lambda rng: [box(100, 100, 500, 400), box(100, 100, 500, 400)])
    # degenerate: zero width / zero height
    add('zero_width', lambda rng: [box(300, 100, 300, 500), box(100, 100, 250, 500), box(300, 600, 300, 900),
                                   box(400, 100, 700, 500)])
    add('zero_height', lambda rng: [box(100, 300, 600, 300), box(100, 100, 600, 250), box(700, 300, 900, 300),
                                    box(100, 400, 600, 700)])
    add('points', lambda rng: [box(200, 200, 200, 200), box(100, 100, 150, 150), box(200, 200, 200, 200),
                               box(500, 50, 700, 400)])
    # arbitrary polygons
    def rand_polys(rng):
        polys = []
        for _ in range(int(rng.integers(2, 8))):
            n = int(rng.integers(3, 9))
            cx, cy = rng.uniform(100, 1500, size=2)
            ang = np.sort(rng.uniform(0, 2 * np.pi, size=n))
            rad = rng.uniform(30, 400, size=n)
            polys.append(np.stack([cx + rad * np.cos(ang), cy + rad * np.sin(ang)], axis=1))
        return polys
    add('random_polygons', rand_polys, seeds=tuple(range(30, 37)))

    def closed_and_open(rng):
        a = box(100, 100, 400, 300)
        b = np.concatenate([box(500, 120, 800, 330), box(500, 120, 800, 330)[:1]])  # explicitly closed ring
        c = np.array([[100., 400.], [400., 420.], [250., 700.]])  # triangle
        d = np.array([[500., 400.], [650., 380.], [800., 400.], [820., 600.], [650., 650.], [480., 600.]])
        return [d, b, c, a]
    add('closed_open_triangle', closed_and_open)

    # mutually overlapping boxes whose min points have exactly the same extent along x and along y (in real
    # arithmetic): which axis the fallback sorts along is then decided by round-off noise of the extent
    # computation. The statement does not fix the order of the result -> ids are compared as a set for these.
    def tie_spread(rng):
        n = int(rng.integers(4, 9))
        v = np.round(rng.uniform(0, 30, size=n), 1)
        xs, ys = rng.permutation(v), 10.1 + v
        return [box(x, y, x + 400, y + 300) for x, y in zip(xs, ys)]
    add('tie_spread', tie_spread, seeds=(50, 51, 68, 71, 73, 86, 90, 92))

    for name, poly_fn, seed, slant, lp in specs:
        def factory(poly_fn=poly_fn, seed=seed, slant=slant, lp=lp):
            rng = np.random.default_rng(seed)
            polys = poly_fn(rng)
            return make_page(rng, polys, slant, lp, transcriptions=(seed % 2 == 0), int_baseline=(seed % 5 == 3))
        yield name, factory


def sorter_configs():
    out = []
    for param in (None, '0.0', '0.3'):
        cfg = configparser.ConfigParser()
        cfg['S'] = {} if param is None else {'FakeIntersectionParameter': param}
        out.append(('smart[{}]'.format(param), SmartRegionSorter(cfg['S']), None))
    for denom, width in ((None, 2000), ('3', 1600), ('10', 137)):
        cfg = configparser.ConfigParser()
        cfg['S'] = {} if denom is None else {'ImageWidthDenominator': denom}
        out.append(('naive[{},{}]'.format(denom, width), NaiveRegionSorter(cfg['S']),
                    np.zeros((50, width, 3), dtype=np.uint8)))
    return out


# --------------------------------------------------------------------------- snapshot / compare
def arr(a):
    if a is None:
        return None
    a = np.asarray(a)
    return {'shape': list(a.shape), 'data': [float(v) for v in a.astype(np.float64).ravel()]}


def snapshot(page):
    regions = []
    for region in page.regions:
        regions.append({
            'id': region.id,
            'transcription': region.transcription,
            'polygon': arr(region.polygon),
            'lines': [{'id': l.id, 'transcription': l.transcription, 'index': l.index,
                       'polygon': arr(l.polygon), 'baseline': arr(l.baseline), 'heights': arr(l.heights)}
                      for l in region.lines],
        })
    return regions


def run_all():
    results = {}
    configs = sorter_configs()
    for name, factory in gen_pages():
        for cname, sorter, image in configs:
            if cname.startswith('naive') and not name.endswith(('slant0', 'slant3')):
                continue  # the naive sorter never looks at the lines; DBSCAN start-up is slow
            page = factory()
            key = '{}|{}'.format(name, cname)
            try:
                out = sorter.process_page(image, page)
                results[key] = {'outcome': 'ok', 'regions': snapshot(out)}
            except Exception as e:  # noqa: recorded as an outcome
                results[key] = {'outcome': type(e).__name__}
    return results


def cmp_arr(what, a, b, scale):
    if a is None or b is None:
        return None if a == b else '{}: None vs array'.format(what)
    if a['shape'] != b['shape']:
        return '{}: shape {} vs {}'.format(what, a['shape'], b['shape'])
    x, y = np.array(a['data']), np.array(b['data'])
    if x.size and not np.all(np.abs(x - y) <= RTOL * scale):
        return '{}: max abs diff {:.3e} (scale {:.3g})'.format(what, float(np.max(np.abs(x - y))), scale)
    return None


def compare(ref, new):
    if sorted(ref) != sorted(new):
        return 'different set of cases'
    n_bit_diff = 0
    n_order_diff = 0
    for key in sorted(ref):
        r, n = ref[key], new[key]
        if r['outcome'] != n['outcome']:
            return '{}: outcome {} vs {}'.format(key, r['outcome'], n['outcome'])
        if r['outcome'] != 'ok':
            continue
        rid, nid = [x['id'] for x in r['regions']], [x['id'] for x in n['regions']]
        if sorted(rid) != sorted(nid):
            return '{}: region ids {} vs {}'.format(key, rid, nid)
        if rid != nid:
            if not key.startswith('tie_'):
                return '{}: region order {} vs {}'.format(key, rid, nid)
            n_order_diff += 1
        all_vals = [v for reg in r['regions'] for v in reg['polygon']['data']]
        scale = max([1.0] + [abs(v) for v in all_vals])
        nmap = {x['id']: x for x in n['regions']}
        for rr in r['regions']:
            nr = nmap[rr['id']]
            if rr['transcription'] != nr['transcription']:
                return '{}: transcription of {}'.format(key, rr['id'])
            msg = cmp_arr('{}: polygon of {}'.format(key, rr['id']), rr['polygon'], nr['polygon'], scale)
            if msg:
                return msg
            if [(l['id'], l['transcription'], l['index']) for l in rr['lines']] != \
                    [(l['id'], l['transcription'], l['index']) for l in nr['lines']]:
                return '{}: lines of {}'.format(key, rr['id'])
            for rl, nl in zip(rr['lines'], nr['lines']):
                for field in ('polygon', 'baseline', 'heights'):
                    msg = cmp_arr('{}: {} of line {}'.format(key, field, rl['id']), rl[field], nl[field], scale)
                    if msg:
                        return msg
        if r != n:
            n_bit_diff += 1
    return None, n_bit_diff, n_order_diff


def main():
    warnings.simplefilter('ignore')
    results = run_all()
    n_ok = sum(1 for v in results.values() if v['outcome'] == 'ok')
    if not os.path.exists(REFERENCE):
        with open(REFERENCE, 'w') as f:
            json.dump(results, f)
        print('reference.json written: {} cases ({} ok, {} raising)'.format(len(results), n_ok, len(results) - n_ok))
        return 0
    with open(REFERENCE) as f:
        ref = json.load(f)
    results = json.loads(json.dumps(results))
    res = compare(ref, results)
    if isinstance(res, str):
        print('DIFFERENT: ' + res)
        return 1
    print('MATCH ({} cases, {} ok; {} cases differ from the reference below tolerance, '
          '{} of them only in the order of exactly tied "tie_*" pages)'.format(len(results), n_ok, res[1], res[2]))
    return 0


if __name__ == '__main__':
    sys.exit(main())
