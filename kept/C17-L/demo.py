#!/usr/bin/env python3
"""Differential demo for change L (PageLayout._gen_logits / load_logits in pero_ocr/core/layout.py).

Part 1: a few hundred random layouts (duplicate / special / None line ids, empty regions, missing logits, dense and
sparse logits, old logit files without 'line_characters' / 'logit_coords') are saved with save_logits /
save_logits_bytes and loaded back; the pickled bytes, raised exceptions, loaded values and object sharing are
digested.
Part 2: parse_folder.main() is run in-process with a pass-through page parser on inputs with PAGE XML + logits,
killed before the n-th output write and resumed with --skip-processed (up to three crashes); processed pages of
every run and the final content of all output directories are digested.
Prints one digest; it has to be identical on the clean and on the patched tree.
"""
import contextlib
import hashlib
import io
import os
import pickle
import random
import re
import shutil
import sys
import tempfile

import numpy as np
import cv2
import scipy.sparse

import parse_folder
from pero_ocr.core.layout import PageLayout, RegionLayout, TextLine

DIGEST = hashlib.sha256()
N_RECORDS = 0


def record(*items):
    global N_RECORDS
    N_RECORDS += 1
    DIGEST.update(repr(items).encode('utf-8', 'surrogateescape'))
    DIGEST.update(b'\n')


def sha(data: bytes):
    return hashlib.sha1(data).hexdigest()


# ----------------------------------------------------------------------------------------------------------------
# part 1: direct use of the logit (de)serialisation
ID_POOL = ['l0', 'l1', 'l2', 'r1-l0', 'line_characters', 'logit_coords', '', 'a.b', 'é', None, 7]


def describe_value(v):
    if v is None:
        return None
    if scipy.sparse.issparse(v):
        return ('sparse', type(v).__name__, v.shape, str(v.dtype), sha(np.ascontiguousarray(v.toarray()).tobytes()))
    if isinstance(v, np.ndarray):
        return ('dense', v.shape, str(v.dtype), sha(np.ascontiguousarray(v).tobytes()))
    if isinstance(v, dict):
        return ('dict', [(repr(k), describe_value(x)) for k, x in v.items()])
    return repr(v)


def random_layout(rnd: random.Random, np_rnd: np.random.RandomState, complete: bool):
    layout = PageLayout(id='page', page_size=(100, 200))
    for r in range(rnd.choice([0, 1, 1, 2, 3])):
        region = RegionLayout(f'r{r}', np.array([[0, 0], [10, 0], [10, 10], [0, 10]]))
        for _ in range(rnd.choice([0, 1, 2, 3, 4])):
            line = TextLine(id=rnd.choice(ID_POOL[:9]) if rnd.random() < 0.9 else rnd.choice(ID_POOL))
            kind = 'full' if complete else rnd.choice(['full', 'full', 'no_logits', 'no_chars', 'no_coords', 'none'])
            t, c = rnd.randint(1, 6), rnd.randint(2, 5)
            dense = np_rnd.uniform(-9, 3, (t, c)).astype(np.float32)
            dense[dense < -4] = 0
            if kind not in ('no_logits', 'none'):
                line.logits = scipy.sparse.csc_matrix(dense) if rnd.random() < 0.8 else dense
            if kind not in ('no_chars', 'none'):
                line.characters = [chr(97 + i) for i in range(c - 1)]
            if kind not in ('no_coords', 'none'):
                line.logit_coords = rnd.choice([[0, t], [None, None], [1, t - 1]])
            region.lines.append(line)
        layout.regions.append(region)
    return layout


def describe_lines(layout):
    lines = list(layout.lines_iterator())
    out = []
    for line in lines:
        out.append((repr(line.id), describe_value(line.logits), repr(line.characters), repr(line.logit_coords)))
    # object sharing between lines (matters when somebody modifies e.g. logit_coords in place)
    sharing = []
    for i in range(len(lines)):
        for j in range(i + 1, len(lines)):
            sharing.append((lines[i].logits is lines[j].logits and lines[i].logits is not None,
                            lines[i].characters is lines[j].characters and lines[i].characters is not None,
                            lines[i].logit_coords is lines[j].logit_coords and lines[i].logit_coords is not None))
    return out, sharing


def strip_logits(layout):
    blank = PageLayout(id=layout.id, page_size=layout.page_size)
    for region in layout.regions:
        new_region = RegionLayout(region.id, region.polygon)
        for line in region.lines:
            new_region.lines.append(TextLine(id=line.id))
        blank.regions.append(new_region)
    return blank


def serialisation(tmp_dir):
    rnd = random.Random(1717)
    np_rnd = np.random.RandomState(1717)
    for case in range(400):
        layout = random_layout(rnd, np_rnd, complete=case % 3 == 0)
        for ok in (False, True):
            path = os.path.join(tmp_dir, f'case.logits')
            if os.path.exists(path):
                os.remove(path)
            try:
                layout.save_logits(path, missing_line_logits_ok=ok)
                with open(path, 'rb') as f:
                    file_bytes = f.read()
                result = ('saved', len(file_bytes), sha(file_bytes))
            except Exception as e:
                file_bytes = None
                result = ('raised', type(e).__name__, str(e), os.path.exists(path))
            try:
                as_bytes = layout.save_logits_bytes(missing_line_logits_ok=ok)
                result_bytes = ('bytes', len(as_bytes), sha(as_bytes))
            except Exception as e:
                as_bytes = None
                result_bytes = ('raised', type(e).__name__, str(e))
            record('save', case, ok, result, result_bytes)

            if file_bytes is None:
                continue
            stored = pickle.loads(file_bytes)
            record('stored', case, ok, [repr(k) for k in stored], describe_value(stored))

            # load into a layout of the same structure (from a file and from bytes)
            for source in ('file', 'bytes'):
                target = strip_logits(layout)
                try:
                    target.load_logits(path if source == 'file' else as_bytes)
                    record('load', case, ok, source, describe_lines(target))
                except Exception as e:
                    record('load', case, ok, source, 'raised', type(e).__name__, str(e))

            # load into a layout which has additional lines / misses some
            target = strip_logits(layout)
            if target.regions:
                target.regions[0].lines.insert(0, TextLine(id='unknown', logits='keep', characters='keep',
                                                           logit_coords='keep'))
                target.regions[-1].lines = target.regions[-1].lines[:-1]
            target.load_logits(path)
            record('load_other', case, ok, describe_lines(target))

            # old files: without 'line_characters' and / or 'logit_coords'
            for drop in (('line_characters',), ('logit_coords',), ('line_characters', 'logit_coords')):
                old = {k: v for k, v in stored.items() if k not in drop}
                target = strip_logits(layout)
                try:
                    target.load_logits(pickle.dumps(old, protocol=4))
                    record('load_old', case, ok, drop, describe_lines(target))
                except Exception as e:
                    record('load_old', case, ok, drop, 'raised', type(e).__name__, str(e))


# ----------------------------------------------------------------------------------------------------------------
# part 2: interrupted and resumed batches with logits on input and output
class PassThroughParser:
    provides_ctc_logits = True
    decoder = None

    def __init__(self, config, config_path='', device=None):
        pass

    def process_page(self, image, page_layout):
        seed = int(hashlib.md5(page_layout.id.encode()).hexdigest()[:8], 16)
        rng = np.random.RandomState(seed)
        if not page_layout.regions:
            for r in range(1 + seed % 2):
                region = RegionLayout(f'r{r}', np.array([[2, 2], [58, 2], [58, 38], [2, 38]]))
                for i in range(1 + (seed >> 3) % 3):
                    y = 9 + 10 * i
                    region.lines.append(TextLine(
                        id=f'l{i}', index=i,  # line ids repeat across regions on purpose
                        baseline=np.array([[5, y], [30, y], [52, y]]),
                        polygon=np.array([[5, y - 5], [52, y - 5], [52, y + 2], [5, y + 2]]),
                        heights=[5.0, 2.0]))
                page_layout.regions.append(region)
        for line in page_layout.lines_iterator():
            if line.logits is None:
                dense = rng.uniform(-6, -3, (12, 5)).astype(np.float32)
                dense[:, 4] = -1
                for t, lab in enumerate([0, 1, 3, 2]):
                    dense[1 + 3 * t, lab] = 4
                line.transcription = 'ab c'
                line.characters = ['a', 'b', 'c', ' ']
                line.logits = scipy.sparse.csc_matrix(dense)
                line.logit_coords = [0, 12]
            line.crop = rng.randint(0, 255, (8, 30, 3)).astype(np.uint8)
        return page_layout


parse_folder.PageParser = PassThroughParser


class Kill(BaseException):
    pass


class Writes:
    count = 0
    crash_at = None


def _guard(fn):
    def wrapper(*args, **kwargs):
        if Writes.crash_at is not None and Writes.count == Writes.crash_at:
            raise Kill()
        Writes.count += 1
        return fn(*args, **kwargs)
    return wrapper


def install_guards():
    cv2.imwrite = _guard(cv2.imwrite)
    PageLayout.to_pagexml = _guard(PageLayout.to_pagexml)
    PageLayout.save_logits = _guard(PageLayout.save_logits)
    PageLayout.to_altoxml = _guard(PageLayout.to_altoxml)


def run_main(argv, crash_at=None):
    Writes.count = 0
    Writes.crash_at = crash_at
    old_argv = sys.argv
    sys.argv = ['parse_folder.py'] + argv
    out = io.StringIO()
    outcome = 'clean'
    try:
        with contextlib.redirect_stdout(out), contextlib.redirect_stderr(io.StringIO()):
            parse_folder.main()
    except Kill:
        outcome = 'killed'
    except SystemExit as e:
        outcome = f'exit({e.code})'
    except Exception as e:
        outcome = f'exception({type(e).__name__})'
    finally:
        sys.argv = old_argv
        Writes.crash_at = None
    text = out.getvalue()
    processed = re.findall(r'^Processing (.*)$', text, flags=re.M)
    errors = len(re.findall(r'^ERROR', text, flags=re.M))
    return outcome, processed, errors, Writes.count


TIME_RE = re.compile(rb'<(Created|LastChange|processingDateTime)>[^<]*</')


def dir_state(path):
    state = []
    for name in sorted(os.listdir(path)):
        with open(os.path.join(path, name), 'rb') as f:
            data = f.read()
        state.append((name, sha(TIME_RE.sub(rb'<\1>T</', data))))
    return state


KINDS = ['xml', 'logits', 'render', 'alto', 'line']
OPTION = {'xml': '--output-xml-path', 'logits': '--output-logit-path', 'render': '--output-render-path',
          'alto': '--output-alto-path', 'line': '--output-line-path'}


def batch(root, name, base_argv, kinds, crashes, skip=True):
    out_dirs = {}
    argv = list(base_argv) + (['-s'] if skip else [])
    for kind in kinds:
        out_dirs[kind] = os.path.join(root, f'{name}_{kind}')
        argv += [OPTION[kind], out_dirs[kind]]
    runs = [run_main(argv, crash_at) for crash_at in crashes]
    runs.append(run_main(argv, None))
    if skip:
        runs.append(run_main(argv, None))
    state = [(kind, dir_state(out_dirs[kind])) for kind in kinds]
    for path in out_dirs.values():
        if not name.startswith('keep'):
            shutil.rmtree(path)
    return runs, state, out_dirs


def crash_sweeps(root):
    rnd = random.Random(23)
    image_names = ['a.png', 'b.c.png', 'p.logits.png', 'q.xml.x.jpg']
    img_dir = os.path.join(root, 'img')
    os.makedirs(img_dir)
    for k, name in enumerate(image_names):
        img = np.full((40, 60, 3), 200, dtype=np.uint8)
        img[5:35:3, 5 + k:55] = 30 * k
        cv2.imencode(os.path.splitext(name)[1], img)[1].tofile(os.path.join(img_dir, name))
    cfg = os.path.join(root, 'config.ini')
    with open(cfg, 'w') as f:
        f.write('[PAGE_PARSER]\n')

    # first stage: images only -> PAGE XML + logits, which are the inputs of the second stage
    stage1 = ['-c', cfg, '--device', 'cpu', '-i', img_dir]
    runs, state, stage1_dirs = batch(root, 'keep1', stage1, ['xml', 'logits'], [], skip=False)
    record('stage1', runs, state)
    stage2 = stage1 + ['-x', stage1_dirs['xml'], '--input-logit-path', stage1_dirs['logits']]

    n_equal = n_total = 0
    for base_name, base_argv in (('s1', stage1), ('s2', stage2)):
        for kinds in (['logits'], ['xml', 'logits'], ['logits', 'alto'], ['logits', 'line'], ['alto'],
                      ['xml', 'logits', 'render', 'alto', 'line']):
            ref_runs, ref_state, _ = batch(root, base_name + 'ref', base_argv, kinds, [], skip=False)
            total = ref_runs[0][3]
            record('reference', base_name, kinds, ref_runs, ref_state)
            positions = list(range(total + 1))
            if len(positions) > 10:
                positions = sorted(set(rnd.sample(positions, 8) + [0, total]))
            plans = [(p,) for p in positions]
            for _ in range(2):
                plans.append((rnd.randint(0, total), rnd.randint(0, total)))
                plans.append((rnd.randint(0, total), rnd.randint(0, total), rnd.randint(0, total)))
            for plan in plans:
                runs, state, _ = batch(root, base_name, base_argv, kinds, plan)
                n_total += 1
                n_equal += state == ref_state
                record('crash', base_name, kinds, plan, runs, state, state == ref_state)
    record('summary', n_equal, n_total)
    return n_equal, n_total


def main():
    root = tempfile.mkdtemp(prefix='c17l_')
    try:
        serialisation(root)
        install_guards()
        n_equal, n_total = crash_sweeps(root)
    finally:
        shutil.rmtree(root)
    print(f'records: {N_RECORDS}; resumed == uninterrupted in {n_equal}/{n_total} crash scenarios')
    print('DIGEST', DIGEST.hexdigest())


if __name__ == '__main__':
    main()
