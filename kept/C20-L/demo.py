"""Differential demo for change L (separate key/value caches in CustomMultiheadAttention).

Prints a digest of per-step scores / transcriptions / attention maps obtained from small random-weight
transformer recognisers.  The digest must be identical on the clean tree and with L/patch.diff applied.
"""
import contextlib
import hashlib
import io
import sys
import warnings

import numpy as np
import torch
import torchvision

warnings.filterwarnings('ignore')
torch.set_num_threads(1)

from pero_ocr.ocr_engine import transformer
from pero_ocr.ocr_engine.transformer_ocr_engine import TransformerEngineLineOCR

H = hashlib.sha256()
COUNTS = dict(batches=0, steps=0, finished_differently=0, capped=0, errors=0, mha_calls=0)


def feed(*items):
    for it in items:
        if isinstance(it, torch.Tensor):
            it = it.detach().cpu().contiguous().numpy()
        if isinstance(it, np.ndarray):
            H.update(str((it.dtype, it.shape)).encode())
            H.update(np.ascontiguousarray(it).tobytes())
        else:
            H.update(repr(it).encode())


class _FakeVGG:
    def __init__(self):
        self.features = [
            torch.nn.Conv2d(3, 4, 3, padding=1), torch.nn.ReLU(),
            torch.nn.MaxPool2d(2, 2),
            torch.nn.Conv2d(4, 6, 3, padding=1), torch.nn.ReLU(),
            torch.nn.MaxPool2d(2, 2),
        ] + [torch.nn.Identity()] * 20


class TinyFrontend(torch.nn.Module):
    """Cheap replacement of the VGG front-end (the changed code is in the decoder only)."""
    def __init__(self, dim_model):
        super().__init__()
        self.conv = torch.nn.Conv2d(3, dim_model, kernel_size=(16, 4), stride=(16, 4))

    def forward(self, x):
        return torch.squeeze(torch.tanh(self.conv(x)))


class ScheduledHead(torch.nn.Module):
    """Output projection with a deterministic per-step, per-line bonus, so that random-weight models emit varied
    symbols, ignore symbols, and end their lines at different steps (or never)."""
    def __init__(self, linear, stops, nsym, period):
        super().__init__()
        self.linear = linear
        self.stops = stops
        self.nsym = nsym
        self.period = period
        self.t = 0

    def forward(self, x):
        out = self.linear(x)
        bonus = torch.zeros_like(out)
        for b in range(out.shape[0]):
            stop = self.stops[b % len(self.stops)]
            if stop is not None and self.t >= stop:
                bonus[b, self.nsym] = 1000.0
            elif (self.t + b) % self.period == self.period - 1:
                bonus[b, self.nsym + 1] = 500.0   # ignore symbol
            else:
                bonus[b, (self.t * 3 + b) % self.nsym] = 500.0
        self.t += 1
        return out + bonus


def build(seed, dim_model, heads, dec_layers, enc_layers, nsym, max_seq_len=64, tiny=True):
    torch.manual_seed(seed)
    orig = torchvision.models.vgg16
    torchvision.models.vgg16 = lambda pretrained=True: _FakeVGG()
    try:
        with contextlib.redirect_stdout(io.StringIO()):
            net = transformer.build_net(dict(dim_model=dim_model, dim_ff=2 * dim_model, heads=heads,
                                             encoder_layers=enc_layers, decoder_layers=dec_layers,
                                             conv_subsampling=[4, 4]), 16, 3, nsym, max_seq_len=max_seq_len)
    finally:
        torchvision.models.vgg16 = orig
    if tiny:
        net.encoder_frontend = TinyFrontend(dim_model)
    net.eval()
    eng = object.__new__(TransformerEngineLineOCR)
    eng.net = net
    eng.device = torch.device('cpu')
    eng.characters = [chr(97 + i) for i in range(nsym)] + [u'​', '']
    eng.sentence_boundary_ind = nsym
    eng.ignore_ind = nsym + 1
    return eng


def images(rng, batch, width):
    x = rng.randint(0, 256, size=(batch, 3, 16, width)).astype(np.uint8)
    if batch > 1:
        x[1, :, :, width // 3:] = 0
    if batch > 2:
        x[2] = 255
    return x


def transcribe(eng, x, is_cached):
    buf = io.StringIO()
    with torch.no_grad(), contextlib.redirect_stdout(buf):
        outs, logits = eng.transcribe_batch(x, is_cached=is_cached)
    COUNTS['batches'] += 1
    COUNTS['steps'] += logits.shape[1]
    if 'way too long' in buf.getvalue():
        COUNTS['capped'] += 1
    ends = set()
    for row in logits.argmax(-1):
        pos = (row == eng.sentence_boundary_ind).nonzero().flatten().tolist()
        ends.add(pos[0] if pos else -1)
    if len(ends) > 1:
        COUNTS['finished_differently'] += 1
    feed('T', is_cached, logits, [(o.dtype, o.tolist()) for o in outs], eng.decode(outs))
    return outs, logits


def part_engine(rng):
    """Whole-engine decoding: sequences of batches through one model (stale caches), cached and recomputed."""
    configs = [(8, 1, 1), (8, 2, 2), (16, 4, 2), (16, 2, 3), (24, 3, 1), (32, 8, 2)]
    for ci, (dim, heads, layers) in enumerate(configs):
        nsym = 4 + ci
        eng = build(100 + ci, dim, heads, layers, 1, nsym)
        plain_head = eng.net.dec_out_proj
        schedule = [(3, 64), (1, 64), (3, 64), (4, 32), (2, 96), (4, 96), (1, 32), (2, 32), (3, 64)]
        for si, (batch, width) in enumerate(schedule):
            x = images(rng, batch, width)
            for is_cached in (True, False, True):
                eng.net.dec_out_proj = plain_head
                transcribe(eng, x, is_cached)
                for stops, period in (([2, 5, 0, 9], 4), ([None, 3, 7], 3), ([6], 5), ([0, 0, 0, 0], 2)):
                    eng.net.dec_out_proj = ScheduledHead(plain_head, stops, nsym, period)
                    transcribe(eng, x, is_cached)
            eng.net.dec_out_proj = plain_head
    # the real (VGG-like) convolutional front-end, incl. the batch-of-one squeeze path
    eng = build(7, 16, 4, 2, 1, 5, tiny=False)
    for batch, width in ((2, 64), (1, 64), (3, 32)):
        x = images(rng, batch, width)
        transcribe(eng, x, True)
        transcribe(eng, x, False)


def part_decoder(rng):
    """Direct step-by-step use of Decoder.infer, with attention maps, against prefixes of random targets."""
    for ci, (dim, heads, layers) in enumerate([(8, 2, 1), (16, 4, 2), (12, 3, 3)]):
        eng = build(200 + ci, dim, heads, layers, 1, 6, max_seq_len=24)
        net = eng.net
        for batch, mem_len, steps in ((2, 9, 12), (1, 5, 23), (3, 9, 6), (3, 4, 8), (2, 9, 4)):
            torch.manual_seed(ci * 100 + batch * 10 + mem_len)
            memory = torch.randn(mem_len, batch, dim)
            target = torch.randint(0, 8, (steps, batch))
            with torch.no_grad():
                embs = net.pos_encoder(net.dec_embeder(target))
                for is_cached in (True, False):
                    for t in range(1, steps + 1):
                        res = net.trans_decoder.infer(embs[:t].clone(), memory, is_cached=is_cached,
                                                      return_attention=is_cached)
                        out, att = res if is_cached else (res, None)
                        feed('D', t, out, att)
                        COUNTS['steps'] += 1
                # length cap of the decoder: max_seq_len
                try:
                    net.trans_decoder.infer(net.pos_encoder(torch.zeros(24, batch, dim)), memory, is_cached=True)
                    feed('no error')
                except Exception as e:
                    COUNTS['errors'] += 1
                    feed('E', type(e).__name__)
                # beam-search style shuffling of the caches followed by further cached steps
                for t in range(1, 4):
                    net.trans_decoder.infer(embs[:t].clone(), memory, is_cached=True)
                perm = torch.tensor([(i + 1) % batch for i in range(batch)])
                net.trans_decoder.cache_index_select(perm, 3)
                out = net.trans_decoder.infer(embs[:4, perm].clone(), memory[:, perm], is_cached=True)
                feed('S', out)


def part_mha(rng):
    """The attention module on its own: averaged weights, per-head weights, stale caches, cache shuffling."""
    for ci, (dim, heads) in enumerate([(8, 1), (8, 2), (12, 3), (16, 4), (16, 16)]):
        for is_self in (True, False):
            torch.manual_seed(300 + ci)
            mha = transformer.CustomMultiheadAttention(dim, heads, is_self_attention=is_self, max_seq_len=12)
            mha.eval()
            try:
                mha.reallocate_caches(20)
                feed('no error')
            except Exception as e:
                COUNTS['errors'] += 1
                feed('R0', type(e).__name__, str(e), mha.max_seq_len)
            with torch.no_grad():
                for batch, mem_len, steps in ((2, 7, 5), (2, 7, 3), (3, 7, 4), (1, 3, 11), (4, 12, 2), (2, 5, 6)):
                    memory = torch.randn(mem_len, batch, dim)
                    tgt = torch.randn(steps, batch, dim)
                    for t in range(1, steps + 1):
                        kv = tgt[:t] if is_self else memory
                        for kwargs in (dict(need_weights=True), dict(need_weights=False), dict(return_attention=True)):
                            out, w = mha.infer(tgt[:t], t, kv, kv, **kwargs)
                            feed('M', t, out, w)
                            COUNTS['mha_calls'] += 1
                    sel = torch.tensor([batch - 1 - i for i in range(batch)])
                    mha.cache_index_select(sel, min(steps, mem_len))
                    kv = tgt[:steps, sel] if is_self else memory[:, sel]
                    out, w = mha.infer(tgt[:steps, sel], steps, kv, kv)
                    feed('MS', out, w)
                # stale cache used in the middle of a sequence (no reset because seq_len != 1):
                # same batch size, a single query line, and an incompatible batch size
                memory = torch.randn(5, 2, dim)
                tgt = torch.randn(6, 2, dim)
                for b in (2, 1, 3):
                    q = torch.randn(4, b, dim)
                    m = torch.randn(5, b, dim)
                    try:
                        # re-create a fully initialised cache of batch size 2 first
                        for t in range(1, 7):
                            kv = tgt[:t] if is_self else memory
                            mha.infer(tgt[:t], t, kv, kv)
                        out, w = mha.infer(q, 4, q if is_self else m, q if is_self else m)
                        feed('ST', b, out, w)
                    except Exception as e:
                        COUNTS['errors'] += 1
                        feed('STE', b, type(e).__name__)
                    # ... and the original batch continues afterwards from whatever the caches hold now
                    nxt = torch.randn(7, 2, dim)
                    out, w = mha.infer(nxt, 7, nxt if is_self else memory, nxt if is_self else memory)
                    feed('STC', b, out, w)
                # too long sequences
                try:
                    mha.infer(torch.randn(12, 2, dim), 12, memory, memory)
                    feed('no error')
                except Exception as e:
                    COUNTS['errors'] += 1
                    feed('L', type(e).__name__, str(e))
            try:
                mha.reallocate_caches(20)
                feed('no error')
            except Exception as e:
                COUNTS['errors'] += 1
                feed('R1', type(e).__name__, mha.max_seq_len)


def main():
    rng = np.random.RandomState(12345)
    part_engine(rng)
    part_decoder(rng)
    part_mha(rng)
    print('coverage:', COUNTS)
    print('digest:', H.hexdigest())


if __name__ == '__main__':
    main()
    sys.exit(0)
