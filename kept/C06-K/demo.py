"""Differential demo for change K (vectorised hmm_trans_from_string / align_text).

Prints a digest over: transition matrices, align_text positions (incl. tie cases and
unalignable inputs) and complete ALTO exports + re-imports of synthetic pages.
"""
import hashlib
import logging
import random

import numpy as np
import scipy.sparse

logging.disable(logging.CRITICAL)

from pero_ocr.core import layout
from pero_ocr.core.force_alignment import hmm_trans_from_string, align_text, force_align
from pero_ocr.core.confidence_estimation import get_line_confidence

H = hashlib.sha256()


def feed(*items):
    for it in items:
        if isinstance(it, np.ndarray):
            H.update(str(it.dtype).encode())
            H.update(str(it.shape).encode())
            if it.dtype.kind == 'f':
                it = np.round(it.astype(np.float64), 6)
            H.update(np.ascontiguousarray(it).tobytes())
        else:
            H.update(repr(it).encode('utf-8'))
        H.update(b'|')


rng = np.random.RandomState(1234)
pyrng = random.Random(4321)

# ---------------------------------------------------------------- 1. transition matrices
n_hmm = 0
for trial in range(300):
    n = 1 + rng.randint(0, 12)
    alphabet = 1 + rng.randint(1, 4)          # small alphabets -> many repeated symbols
    seq = rng.randint(1, alphabet + 1, size=n)
    for elements in (seq.tolist(), seq, seq.astype(np.int32)):
        A = hmm_trans_from_string(elements)
        feed(A)
        n_hmm += 1
for bad in ([], np.array([], dtype=int)):
    try:
        hmm_trans_from_string(bad)
        feed('no-error')
    except ValueError as e:
        feed('ValueError')


# ---------------------------------------------------------------- 2. align_text
def make_logprobs(T, C, kind, dtype):
    if kind == 'peaky':
        x = rng.randn(T, C) * 8
    elif kind == 'diffuse':
        x = rng.randn(T, C) * 0.05
    elif kind == 'quantised':          # few distinct values, many exact ties between frames
        x = rng.randint(0, 3, size=(T, C)).astype(float) * 2
    elif kind == 'repeated':           # blocks of identical frames -> ties in max_probs
        base = rng.randn(max(1, T // 3 + 1), C) * 3
        x = np.repeat(base, 3, axis=0)[:T]
    elif kind == 'flat':
        x = np.zeros((T, C))
    x = x.astype(dtype)
    return layout.log_softmax(x)


n_align = 0
for trial in range(600):
    C = 3 + rng.randint(0, 6)
    blank = C - 1
    L = 1 + rng.randint(0, 8)
    labels = rng.randint(0, blank, size=L)
    kind = ['peaky', 'diffuse', 'quantised', 'repeated', 'flat'][trial % 5]
    dtype = [np.float64, np.float32][(trial // 5) % 2]
    # sometimes too short to align
    T = rng.randint(1, 2 * L + 2) if trial % 7 == 0 else L + rng.randint(L, 4 * L + 6)
    lp = make_logprobs(T, C, kind, dtype)
    try:
        pos = align_text(-lp, labels, blank)
        feed('ok', pos)
        feed(force_align(-lp, labels, blank), force_align(-lp, labels, blank, return_seq_positions=True))
    except (ValueError, IndexError, TypeError) as e:
        feed('err', type(e).__name__)
    n_align += 1

# ---------------------------------------------------------------- 3. ALTO export
LATIN = list('abcdeXYZ019.,-') + [' ']
ARABIC = list('ابتثجحخدذرزسشصضطظعغفقكلمنهوي،')
CHARSET = LATIN + ARABIC
BLANKS = [' ', '  ', ' ', '\t', ' ', '　', '   ']


def random_word(arabic, out_of_charset=False):
    n = pyrng.randint(1, 6)
    src = ARABIC[:-1] if arabic else LATIN[:-1]
    w = ''.join(pyrng.choice(src) for _ in range(n))
    if out_of_charset:
        w += pyrng.choice('qQ#éЖ')
    return w


def random_transcription(i):
    nb_words = pyrng.randint(1, 5)
    arabic_line = (i % 3 == 0)
    words = []
    for w in range(nb_words):
        arabic = arabic_line and pyrng.random() < 0.7
        words.append(random_word(arabic, out_of_charset=(i % 5 == 0 and pyrng.random() < 0.5)))
    t = words[0]
    for w in words[1:]:
        t += pyrng.choice(BLANKS) + w
    if i % 4 == 1:
        t = pyrng.choice(BLANKS) + t
    if i % 4 == 2:
        t = t + pyrng.choice(BLANKS)
    if i % 11 == 0:
        t = pyrng.choice(['', ' ', '  ', None])
    return t


def make_logits(transcription, mode):
    """Returns (sparse logits or None, logit_coords)"""
    C = len(CHARSET) + 1
    blank = C - 1
    if mode == 'absent' or not transcription:
        return None, None
    labels = [CHARSET.index(c) if c in CHARSET else 0 for c in transcription]
    frames = []
    for lab in labels:
        for _ in range(pyrng.randint(1, 3)):
            frames.append(lab)
        for _ in range(pyrng.randint(1, 2)):   # at least one blank so repeated chars stay alignable
            frames.append(blank)
    T = len(frames)
    if mode == 'short':
        T = max(1, len(labels) // 2)
        frames = frames[:T]
    if mode == 'transformer':
        frames = labels
        T = len(frames)
    x = np.zeros((T, C))
    if mode == 'diffuse':
        x += rng.randn(T, C) * 0.3
        x[np.arange(T), frames] += 0.5
    elif mode == 'quantised':
        x[np.arange(T), frames] = 4.0         # identical rows for the same symbol -> ties
        x[x == 0] = -2.0
    else:
        x += rng.randn(T, C)
        x[np.arange(T), frames] += 12.0
    x = x.astype(np.float32 if mode != 'diffuse' else np.float64)
    pad = pyrng.randint(0, 3) if mode not in ('short', 'transformer') else 0
    if pad:
        padding = np.zeros((pad, C), dtype=x.dtype)
        padding[:, blank] = 10
        x = np.concatenate([padding, x, padding])
        coords = [pad, pad + T]
    else:
        coords = [0, T]
    if mode == 'unknown_window':
        coords = [None, None]
    return scipy.sparse.csc_matrix(x), coords


MODES = ['peaky', 'diffuse', 'quantised', 'short', 'absent', 'unknown_window', 'transformer']
n_failed_exports = 0
n_wc = 0
n_strings = 0
n_lines = 0
for p in range(150):
    page = layout.PageLayout(id='page {}/x'.format(p), page_size=(1200 + p, 900 + 2 * p))
    line_idx = 0
    for r in range(pyrng.randint(0, 3)):
        x0 = 40 + 10 * r
        y0 = 50 + 300 * r
        region = layout.RegionLayout('r{}'.format(r), np.array([[x0, y0], [x0 + 700, y0], [x0 + 700, y0 + 280], [x0, y0 + 280]]))
        for l in range(pyrng.randint(1, 4)):
            i = p * 16 + r * 4 + l
            t = random_transcription(i)
            mode = MODES[(i + line_idx) % len(MODES)]
            logits, coords = make_logits(t, mode)
            yb = y0 + 40 + 60 * l
            width = 150 + pyrng.randint(0, 500)
            nb_pts = pyrng.randint(2, 5)
            xs = np.linspace(x0 + 5, x0 + 5 + width, nb_pts)
            ys = yb + np.array([pyrng.randint(-3, 3) for _ in range(nb_pts)])
            baseline = np.stack([xs, ys], axis=1).round().astype(int)
            heights = [pyrng.randint(12, 30), pyrng.randint(4, 12)]
            polygon = np.concatenate([baseline - [0, heights[0]], (baseline + [0, heights[1]])[::-1]])
            line = layout.TextLine(id='l{}'.format(i), baseline=baseline, polygon=polygon, heights=heights,
                                   transcription=t, logits=logits, characters=CHARSET + ['<blank>'],
                                   logit_coords=coords, index=line_idx)
            if logits is None and not (p % 10 == 9):
                line.characters = None      # line as loaded from a PAGE XML without logits
            if mode == 'short' and i % 2 == 0:
                line.transcription_confidence = 0.7
            region.lines.append(line)
            line_idx += 1
            n_lines += 1
        page.regions.append(region)

    for min_conf in (0, 0.5):
        ocr_el = layout.create_ocr_processing_element(processing_datetime='2020-01-01T00:00:00')
        try:
            alto = page.to_altoxml_string(ocr_processing_element=ocr_el, min_line_confidence=min_conf)
        except Exception as e:   # recorded, must be the same before and after the change
            feed('export-error', type(e).__name__)
            n_failed_exports += 1
            continue
        feed(alto)
        n_wc += alto.count(' WC=')
        n_strings += alto.count('<String ')
        for line in page.lines_iterator():
            conf = line.transcription_confidence
            feed(None if conf is None else round(float(conf), 6))
        back = layout.PageLayout()
        back.from_altoxml_string(alto)
        feed([[ln.transcription for ln in reg.lines] for reg in back.regions])

    # stand-alone confidences (align_text is called inside when no alignment is supplied)
    for line in page.lines_iterator():
        if line.logits is None or not line.transcription:
            continue
        labels = np.array([CHARSET.index(c) if c in CHARSET else 0 for c in line.transcription])
        try:
            feed(get_line_confidence(line, labels))
        except (ValueError, IndexError, TypeError) as e:
            feed('conf-err', type(e).__name__)

print('hmm matrices: {}, align_text cases: {}, ALTO lines: {}, failed exports: {}'.format(n_hmm, n_align, n_lines, n_failed_exports))
print('exported words: {}, of them with aligned confidences: {}'.format(n_strings, n_wc))
print('DIGEST', H.hexdigest())
