#!/usr/bin/env python3
"""Differential demo for change L (naive_sorter.sort_regions: python sorting loops over the DBSCAN
clusters replaced by one numpy lexsort).

Runs NaiveRegionSorter.process_page and NaiveRegionSorter.sort_regions on a few hundred small
synthetic pages and prints a digest of all results.  The digest must be identical on the clean
tree and on the patched tree.
"""
import os

# DBSCAN on a dozen points does not profit from threads, they only slow the demo down
for _var in ('OMP_NUM_THREADS', 'OPENBLAS_NUM_THREADS', 'MKL_NUM_THREADS'):
    os.environ.setdefault(_var, '1')

import configparser
import hashlib
import sys
import warnings

import numpy as np

warnings.filterwarnings("ignore")

from pero_ocr.core.layout import PageLayout, RegionLayout, TextLine
from pero_ocr.layout_engines.naive_sorter import NaiveRegionSorter, Region


class FakeImage:
    def __init__(self, h, w):
        self.shape = (h, w, 3)


def make_sorter(denom=None):
    cp = configparser.ConfigParser()
    cp.read_dict({'S': {} if denom is None else {'ImageWidthDenominator': str(denom)}})
    return NaiveRegionSorter(cp['S'])


def box(x0, y0, x1, y1, dtype=np.float64):
    return np.array([[x0, y0], [x1, y0], [x1, y1], [x0, y1]], dtype=dtype)


def make_page(polys):
    page = PageLayout(id='p', page_size=(2000, 2000))
    for i, poly in enumerate(polys):
        reg = RegionLayout('r{:03d}'.format(i), poly.copy())
        reg.transcription = 'text of r{}'.format(i)
        x0, y0 = poly.min(axis=0)
        x1, y1 = poly.max(axis=0)
        for k in range(i % 3):
            yy = float(y0) + (k + 1) * (float(y1) - float(y0)) / 4
            baseline = np.array([[x0, yy], [x1, yy + 3]], dtype=np.float64)
            lpoly = np.array([[x0, yy - 5], [x1, yy - 2], [x1, yy + 8], [x0, yy + 5]], dtype=np.float64)
            reg.lines.append(TextLine(id='r{:03d}-l{}'.format(i, k), baseline=baseline, polygon=lpoly,
                                      heights=np.array([5.0, 5.0]), transcription='line {} {}'.format(i, k)))
        page.regions.append(reg)
    return page


def describe_page(page):
    out = []
    for reg in page.regions:
        out.append(('R', reg.id, reg.transcription, str(reg.polygon.dtype), reg.polygon.shape, reg.polygon.tobytes().hex()))
        for line in reg.lines:
            out.append(('L', line.id, line.transcription, line.polygon.tobytes().hex(), line.baseline.tobytes().hex()))
    return out


def gen_cases():
    rng = np.random.default_rng(4321)
    cases = [('empty', []), ('single', [box(10, 10, 100, 100)])]

    for nx in range(1, 5):
        for ny in range(1, 5):
            for gap in (10, 0, -15):
                polys = []
                for ix in range(nx):
                    for iy in range(ny):
                        polys.append(box(50 + ix * 200, 50 + iy * 150, 50 + ix * 200 + 200 - gap, 50 + iy * 150 + 150 - gap))
                perm = rng.permutation(len(polys))
                cases.append(('grid{}x{}g{}'.format(nx, ny, gap), [polys[i] for i in perm]))

    cases.append(('identical', [box(10, 10, 200, 200)] * 4))
    cases.append(('nested', [box(10, 10, 500, 500), box(50, 50, 200, 200), box(60, 60, 100, 100), box(300, 300, 450, 450)]))
    cases.append(('zero-width', [box(10, 30, 10, 100), box(50, 10, 50, 100), box(10, 200, 100, 300)]))
    cases.append(('zero-height', [box(10, 50, 100, 50), box(10, 10, 100, 10), box(200, 10, 300, 100)]))
    cases.append(('points', [box(10, 10, 10, 10), box(50, 50, 50, 50), box(10, 10, 10, 10)]))
    cases.append(('signed-zero', [box(10, 0.0, 20, 10), box(30, -0.0, 40, 10), box(50, 0.0, 60, 10)]))
    cases.append(('int-dtype', [box(10, 120, 100, 200, np.int64), box(120, 10, 220, 100, np.int64), box(10, 10, 220, 300, np.int64)]))
    cases.append(('mixed-dtype', [box(10, 120, 100, 200, np.int32), box(120, 10.5, 220, 100), box(10, 10, 220, 300, np.float32),
                                  box(10, 11, 220, 300, np.int64)]))
    cases.append(('negative', [box(-300, -100, -100, -50), box(-90, -300, -10, -100), box(-300, -90, -10, -10)]))
    cases.append(('chain', [box(0, 190.0 * i, 50, 190.0 * i + 20) for i in (5, 3, 1, 4, 2, 0, 6)]))
    cases.append(('two-chains', [box(0, y, 50, y + 20) for y in (900.0, 0.0, 1000.0, 100.0, 1100.0, 50.0, 950.0)]))

    for n in range(2, 10):
        for rep in range(10):
            polys = []
            for _ in range(n):
                x0, y0 = rng.integers(0, 1500, size=2)
                w, h = rng.integers(0, 500, size=2)
                polys.append(box(float(x0), float(y0), float(x0 + w), float(y0 + h)))
            cases.append(('rand-box-{}-{}'.format(n, rep), polys))
    for n in range(2, 8):
        for rep in range(6):
            polys = []
            for _ in range(n):
                k = int(rng.integers(3, 9))
                c = rng.uniform(0, 1500, size=2)
                polys.append(c[None, :] + rng.uniform(-200, 200, size=(k, 2)))
            cases.append(('rand-poly-{}-{}'.format(n, rep), polys))
    # lattice: many equal y_min values (ties) and clusters glued together by chains
    for n in range(2, 12):
        for rep in range(6):
            polys = []
            for _ in range(n):
                x0, y0 = rng.integers(0, 6, size=2) * 100
                w, h = rng.integers(0, 4, size=2) * 100
                polys.append(box(float(x0), float(y0), float(x0 + w), float(y0 + h)))
            cases.append(('lattice-{}-{}'.format(n, rep), polys))
    return cases


def main():
    h = hashlib.sha256()
    n_cases = 0
    n_exc = 0
    cases = gen_cases()
    # (image width, ImageWidthDenominator): includes eps == 0 and eps < 0, where DBSCAN refuses to run
    for width, denom in ((2000, None), (2000, 4), (2000, 100), (2000, 2000), (5, None), (0, None), (2000, -10), (1000, 3)):
        sorter = make_sorter(denom)
        image = FakeImage(1500, width)
        bad_eps = width // sorter.width_denom <= 0
        for name, polys in (cases[::8] if bad_eps else cases):
            page = make_page(polys)
            orig = list(page.regions)
            try:
                res = sorter.process_page(image, page)
                same_objs = sorted(id(r) for r in res.regions) == sorted(id(r) for r in orig)
                rec = ('ok', name, width, denom, res is page, same_objs, describe_page(res))
            except Exception as e:  # recorded, must be the same on both trees
                n_exc += 1
                rec = ('exc', name, width, denom, type(e).__name__)
            h.update(repr(rec).encode())
            n_cases += 1

    # sort_regions called directly, float eps
    rng = np.random.default_rng(77)
    for rep in range(300):
        n = int(rng.integers(1, 12))
        if rep % 3 == 0:
            ys = rng.integers(0, 8, size=n) * 25.0
        elif rep % 3 == 1:
            ys = rng.uniform(0, 1000, size=n)
        else:
            ys = rng.integers(-500, 500, size=n)
        regs = [Region(RegionLayout('q{}'.format(i), box(float(rng.integers(0, 900)), ys[i], 1000.0, ys[i] + 10)
                                    .astype(np.float64 if rep % 3 != 2 else np.int64))) for i in range(n)]
        eps = [0.5, 25, 26.0, 100, 1e-9, 1e6][rep % 6]
        try:
            order = NaiveRegionSorter.sort_regions(regs, eps)
            rec = ('ok', [int(i) for i in order], type(order).__name__)
        except Exception as e:
            n_exc += 1
            rec = ('exc', type(e).__name__)
        h.update(repr(rec).encode())
        n_cases += 1

    print('cases', n_cases, 'exceptions', n_exc)
    print('digest', h.hexdigest())
    return 0


if __name__ == '__main__':
    sys.exit(main())
