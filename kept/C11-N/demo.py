#!/usr/bin/env python
"""Differential test for property C11 (lines are assigned to the regions they lie in, clipped, unique ids).

Run without arguments with pero_ocr importable from PYTHONPATH.
 * first run (clean tree): writes reference.json next to this file and prints REFERENCE WRITTEN
 * later runs: recompute everything, compare with reference.json with explicit tolerances and print
   MATCH (exit 0) or DIFFERENT: <what> (exit 1)

Tolerances: 1e-9 relative (to the coordinate scale of the compared array) for float64 data, 1e-6 for data that
went through float32 (text line outlines rebuilt by baseline_to_textline after merging).  Where a baseline enters a
region several times with exactly tied longest pieces the statement leaves the kept piece open: the reference stores
the whole set of tied pieces and any of them is accepted.
"""
import configparser
import io
import json
import math
import os
import random
import re
import sys
import warnings
from contextlib import redirect_stdout

import numpy as np
import shapely.geometry as sg

from pero_ocr.core.layout import PageLayout, RegionLayout
from pero_ocr.layout_engines import layout_helpers as helpers
from pero_ocr.document_ocr import page_parser

warnings.simplefilter('ignore')

HERE = os.path.dirname(os.path.abspath(__file__))
REFERENCE = os.path.join(HERE, 'reference.json')
RTOL64 = 1e-9
RTOL32 = 1e-6


# ----------------------------------------------------------------------------------------------- input generators
def rect(x0, y0, x1, y1):
    return np.array([[x0, y0], [x1, y0], [x1, y1], [x0, y1]], dtype=np.float64)


def u_shape(x0, y0, x1, y1, gap0, gap1, depth):
    """Concave 'U' (opening at the top): a horizontal line through its upper part crosses it twice."""
    return np.array([[x0, y0], [gap0, y0], [gap0, y0 + depth], [gap1, y0 + depth], [gap1, y0], [x1, y0],
                     [x1, y1], [x0, y1]], dtype=np.float64)


def l_shape(x0, y0, x1, y1, xm, ym):
    return np.array([[x0, y0], [xm, y0], [xm, ym], [x1, ym], [x1, y1], [x0, y1]], dtype=np.float64)


def bow_tie(x0, y0, x1, y1):
    """Self-intersecting quadrilateral (invalid polygon -> the library uses its convex hull)."""
    return np.array([[x0, y0], [x1, y1], [x1, y0], [x0, y1]], dtype=np.float64)


def self_touching(x0, y0, x1, y1):
    """Two triangles sharing one vertex, written as one ring (touches itself in a point)."""
    xm, ym = (x0 + x1) / 2, (y0 + y1) / 2
    return np.array([[x0, y0], [xm, ym], [x1, y0], [x1, y1], [xm, ym], [x0, y1]], dtype=np.float64)


def convex_blob(rng, cx, cy, r):
    angles = np.sort(rng.uniform(0, 2 * np.pi, rng.integers(5, 9)))
    radii = r * rng.uniform(0.7, 1.0, angles.shape[0])
    pts = np.stack([cx + radii * np.cos(angles), cy + radii * np.sin(angles)], axis=1)
    return np.asarray(sg.Polygon(pts).convex_hull.exterior.coords)[:-1]


def make_line(rng, x0, y0, length, tilt_deg, n_points, integer):
    ts = np.linspace(0, 1, n_points)
    angle = math.radians(tilt_deg)
    xs = x0 + ts * length * math.cos(angle)
    ys = y0 + ts * length * math.sin(angle)
    if n_points > 2:
        ys = ys + rng.uniform(-1.5, 1.5, n_points)
    baseline = np.stack([xs, ys], axis=1)
    if integer:
        baseline = np.round(baseline)
    heights = [float(rng.integers(8, 25)), float(rng.integers(3, 10))]
    return baseline, heights


def random_regions(rng, integer, symmetric=True):
    """symmetric=False: the two arms of the U shaped regions get different widths, so that a line crossing both of
    them has no exactly tied pieces."""
    kind = rng.integers(0, 8)
    shift = 0 if symmetric else 37
    regions = []
    if kind == 0:  # disjoint rectangles
        regions = [rect(50, 50, 400, 350), rect(500, 80, 900, 300), rect(100, 450, 850, 700)]
    elif kind == 1:  # overlapping rectangles
        regions = [rect(50, 50, 500, 400), rect(300, 200, 900, 600)]
    elif kind == 2:  # nested
        regions = [rect(40, 40, 950, 750), rect(200, 200, 600, 500), rect(250, 250, 400, 400)]
    elif kind == 3:  # concave U + rectangle inside the notch
        regions = [u_shape(100, 100, 900, 600, 350 + shift, 650 + shift, 300), rect(400 + shift, 120, 600 + shift, 350)]
    elif kind == 4:  # L shape + blob
        regions = [l_shape(60, 60, 800, 700, 400, 380), convex_blob(rng, 700, 200, 180)]
    elif kind == 5:  # invalid polygons
        regions = [bow_tie(100, 100, 500, 400), self_touching(550, 100, 950, 500), rect(100, 500, 900, 750)]
    elif kind == 6:  # random blobs (may overlap)
        regions = [convex_blob(rng, rng.uniform(150, 850), rng.uniform(150, 650), rng.uniform(80, 300))
                   for _ in range(rng.integers(1, 5))]
    else:  # symmetric U: a horizontal line through it has two exactly tied pieces
        regions = [u_shape(100, 100, 900, 600, 400 + shift, 600 + shift, 250)]
    jitter = rng.uniform(-30, 30, 2)
    out = []
    for polygon in regions:
        polygon = polygon + jitter
        if integer:
            polygon = np.round(polygon)
        out.append(polygon)
    return out


def random_lines(rng, regions, integer):
    lines = []
    n = rng.integers(0, 9)
    for _ in range(n):
        mode = rng.integers(0, 6)
        polygon = regions[rng.integers(0, len(regions))]
        lo, hi = polygon.min(axis=0), polygon.max(axis=0)
        tilt = float(rng.choice([0.0, 0.0, rng.uniform(-12, 12), rng.uniform(-40, 40), 90.0]))
        if mode == 0:  # starts somewhere in the bounding box of a region
            x0, y0 = rng.uniform(lo[0], hi[0]), rng.uniform(lo[1], hi[1])
            length = rng.uniform(3, 0.6 * (hi[0] - lo[0]) + 5)
        elif mode == 1:  # crosses the whole region horizontally (and sticks out on both sides)
            x0, y0 = lo[0] - rng.uniform(5, 60), rng.uniform(lo[1], hi[1])
            length = (hi[0] - lo[0]) + rng.uniform(20, 150)
            tilt = float(rng.choice([0.0, rng.uniform(-5, 5)]))
        elif mode == 2:  # anywhere on the page
            x0, y0 = rng.uniform(-20, 1000), rng.uniform(-20, 800)
            length = rng.uniform(1, 700)
        elif mode == 3:  # very short lines (around the 2 px limit)
            x0, y0 = rng.uniform(lo[0], hi[0]), rng.uniform(lo[1], hi[1])
            length = float(rng.choice([1.0, 2.0, 2.5, 3.0]))
            tilt = 0.0
        elif mode == 4:  # along the top edge of the bounding box of the region
            x0, y0 = lo[0] + 10, lo[1]
            length = max(5.0, (hi[0] - lo[0]) - 20)
            tilt = 0.0
        else:  # bounding boxes exactly touching
            x0, y0 = hi[0], rng.uniform(lo[1], hi[1])
            length = rng.uniform(10, 100)
            tilt = 0.0
        n_points = int(rng.choice([2, 2, 3, 5]))
        lines.append(make_line(rng, x0, y0, length, tilt, n_points, integer))
    return lines


def special_scenarios():
    """Hand written corner cases: (regions, [(baseline, heights)])."""
    out = []
    big = rect(0, 0, 1000, 800)
    u = u_shape(100, 100, 900, 600, 400, 600, 250)
    # no lines / no regions
    out.append(([big], []))
    out.append(([], [(np.array([[10., 10.], [100., 10.]]), [10., 5.])]))
    # wholly inside, integer and float
    out.append(([big], [(np.array([[100., 100.], [400., 104.], [700., 100.]]), [20., 8.])]))
    out.append(([rect(50, 50, 500, 300)], [(np.array([[60.25, 100.5], [300.125, 101.75], [480.5, 99.0]]), [15., 6.])]))
    # line from the page edge in a region starting at the page edge
    out.append(([big], [(np.array([[0., 50.], [300., 50.]]), [20., 8.]), (np.array([[0., 0.], [300., 0.]]), [20., 8.])]))
    # wholly outside, touching corner, touching edge
    out.append(([rect(100, 100, 300, 300)], [(np.array([[400., 100.], [600., 100.]]), [10., 5.]),
                                            (np.array([[300., 300.], [500., 500.]]), [10., 5.]),
                                            (np.array([[300., 150.], [500., 150.]]), [10., 5.]),
                                            (np.array([[120., 300.], [280., 300.]]), [10., 5.])]))
    # symmetric U crossed twice -> exactly tied pieces; asymmetric -> the longest piece
    out.append(([u], [(np.array([[50., 200.], [950., 200.]]), [20., 8.])]))
    out.append(([u], [(np.array([[250., 200.], [950., 200.]]), [20., 8.])]))
    out.append(([u], [(np.array([[50., 200.], [500., 200.], [950., 202.]]), [20., 8.])]))
    # line through the notch only
    out.append(([u], [(np.array([[420., 200.], [580., 200.]]), [20., 8.])]))
    # lengths exactly 2, slightly above 2
    out.append(([big], [(np.array([[10., 10.], [12., 10.]]), [5., 2.]), (np.array([[10., 30.], [12.5, 30.]]), [5., 2.]),
                        (np.array([[10., 50.], [11.2, 51.6]]), [5., 2.])]))
    # piece inside shorter than 2 px, rest outside
    out.append(([rect(100, 100, 300, 300)], [(np.array([[298.5, 200.], [400., 200.]]), [10., 5.])]))
    # nested and overlapping regions share a line
    out.append(([rect(0, 0, 900, 700), rect(100, 100, 500, 400), rect(300, 50, 800, 300)],
                [(np.array([[150., 200.], [450., 200.]]), [20., 8.]), (np.array([[50., 250.], [850., 250.]]), [20., 8.])]))
    # invalid region polygons
    out.append(([bow_tie(100, 100, 500, 400)], [(np.array([[50., 250.], [550., 250.]]), [20., 8.]),
                                               (np.array([[150., 120.], [450., 120.]]), [20., 8.])]))
    out.append(([self_touching(100, 100, 500, 500)], [(np.array([[50., 300.], [550., 300.]]), [20., 8.])]))
    # vertical and right-to-left lines, duplicate points
    out.append(([big], [(np.array([[500., 100.], [500., 600.]]), [20., 8.]), (np.array([[700., 100.], [200., 100.]]), [20., 8.]),
                        (np.array([[100., 300.], [100., 300.], [400., 300.]]), [20., 8.])]))
    # self-crossing baseline
    out.append(([big], [(np.array([[100., 100.], [400., 400.], [400., 100.], [100., 400.]]), [10., 5.])]))
    # float32 bounding-box rounding: baseline just right of the left region edge
    out.append(([rect(100, 100, 300, 300)], [(np.array([[100.000001, 120.], [100.000001, 280.]]), [5., 5.])]))
    return out


# ----------------------------------------------------------------------------------------------- running the library
def arr(a):
    return np.asarray(a, dtype=np.float64).tolist()


def tied_pieces(region_polygon, baseline, textline):
    """All pieces of the baseline (of the outline) in the region that are exactly / up to round-off as long (large) as
    the longest (largest) one; empty lists if there is no tie."""
    region = sg.Polygon(region_polygon)
    if not region.is_valid:
        region = region.convex_hull
    out = []
    for shape, multi_type, size, coords in (
            (sg.LineString(baseline), sg.MultiLineString, lambda g: g.length, lambda g: g.coords),
            (sg.Polygon(textline), sg.MultiPolygon, lambda g: g.area, lambda g: g.exterior.coords)):
        if not shape.is_valid and multi_type is sg.MultiPolygon:
            shape = shape.convex_hull
        inter = region.intersection(shape)
        ties = []
        if isinstance(inter, multi_type):
            sizes = [size(g) for g in inter.geoms]
            ties = [g for g, l in zip(inter.geoms, sizes) if l >= max(sizes) * (1 - 1e-12)]
        out.append([arr(coords(g)) for g in ties] if len(ties) > 1 else [])
    return out


LINE_ID = re.compile(r'^(?P<region>.+?)(_(?P<region_rot>[13]))?-l(?P<index>\d+)(_(?P<line_rot>[13]))?$')


def dump_regions(regions, detected=None):
    """detected: {rot: [(baseline, textline)]} of the detector, given when the lines were not merged afterwards. Then
    the sets of exactly tied pieces are stored with every line."""
    out = []
    for region in regions:
        lines = []
        for line in region.lines:
            item = {'id': line.id, 'baseline': arr(line.baseline), 'polygon': arr(line.polygon),
                    'heights': arr(line.heights)}
            if detected is not None:
                match = LINE_ID.match(line.id)
                rot = int(match.group('line_rot') or match.group('region_rot') or 0)
                baseline, textline = detected[rot][int(match.group('index')) - 1]
                item['ties'], item['poly_ties'] = tied_pieces(region.polygon, baseline, textline)
            lines.append(item)
        out.append({'id': region.id, 'lines': lines})
    return out


def run_assign(region_polygons, lines):
    regions = [RegionLayout('r{:03d}'.format(i), polygon.copy()) for i, polygon in enumerate(region_polygons)]
    b_list = [b.copy() for b, _ in lines]
    h_list = [list(h) for _, h in lines]
    t_list = [helpers.baseline_to_textline(b, h) for b, h in lines]
    inputs_before = [b.copy() for b in b_list], [t.copy() for t in t_list], [r.polygon.copy() for r in regions]
    with redirect_stdout(io.StringIO()):
        result = helpers.assign_lines_to_regions(b_list, h_list, t_list, regions)
    unchanged = (all(np.array_equal(a, b) for a, b in zip(inputs_before[0], b_list))
                 and all(np.array_equal(a, b) for a, b in zip(inputs_before[1], t_list))
                 and all(np.array_equal(a, r.polygon) for a, r in zip(inputs_before[2], regions)))
    return {'same_list': result is regions, 'inputs_unchanged': bool(unchanged),
            'regions': dump_regions(regions, {0: list(zip(b_list, t_list))})}


def run_mask(region_polygon, baseline, heights):
    textline = helpers.baseline_to_textline(baseline, heights)
    with redirect_stdout(io.StringIO()):
        b, t = helpers.mask_textline_by_region(baseline.copy(), textline, region_polygon.copy())
    ties, poly_ties = tied_pieces(region_polygon, baseline, textline)
    return {'baseline': None if b is None else arr(b), 'polygon': None if t is None else arr(t),
            'ties': ties, 'poly_ties': poly_ties}


class StubLayoutEngine(object):
    """Stands for the CNN layout detector: returns prepared regions and lines."""
    scenario = None

    def __init__(self, **kwargs):
        pass

    def detect(self, img, rot=0):
        polygons, lines_by_rot = StubLayoutEngine.scenario
        lines = lines_by_rot.get(rot, [])
        b_list = [b.copy() for b, _ in lines]
        h_list = [list(h) for _, h in lines]
        t_list = [helpers.baseline_to_textline(b, h) for b, h in lines]
        if rot == 0:
            p_list = [p.copy() for p in polygons]
        else:
            p_list = [p.copy() for p in polygons[:1]]
        return p_list, b_list, h_list, t_list


class NoPool(object):
    def __init__(self, *args, **kwargs):
        pass


def make_extractor(detect_regions, detect_lines, merge_lines, multi_orientation):
    config = configparser.ConfigParser()
    config['LAYOUT_PARSER_1'] = {
        'METHOD': 'LAYOUT_CNN', 'DETECT_REGIONS': 'yes' if detect_regions else 'no',
        'DETECT_LINES': 'yes' if detect_lines else 'no', 'DETECT_STRAIGHT_LINES_IN_REGIONS': 'no',
        'MERGE_LINES': 'yes' if merge_lines else 'no', 'ADJUST_HEIGHTS': 'no', 'MULTI_ORIENTATION':
        'yes' if multi_orientation else 'no', 'ADJUST_BASELINES': 'no', 'USE_CPU': 'yes', 'MODEL_PATH': 'none',
        'DOWNSAMPLE': '4', 'DETECTION_THRESHOLD': '0.2', 'MAX_MEGAPIXELS': '5'}
    page_parser.LayoutEngine = StubLayoutEngine
    page_parser.Pool = NoPool
    return page_parser.LayoutExtractor(config['LAYOUT_PARSER_1'], None)


def run_extractor(options, polygons, lines_by_rot, seed):
    extractor = make_extractor(*options)
    StubLayoutEngine.scenario = (polygons, lines_by_rot)
    page = PageLayout(id='page', page_size=(800, 1000))
    if not options[0]:  # regions are given
        page.regions = [RegionLayout('g{:03d}'.format(i), p.copy()) for i, p in enumerate(polygons)]
        if not options[1]:  # ... and so are their lines
            lines = lines_by_rot[0]
            with redirect_stdout(io.StringIO()):
                helpers.assign_lines_to_regions([b.copy() for b, _ in lines], [list(h) for _, h in lines],
                                                [helpers.baseline_to_textline(b, h) for b, h in lines], page.regions)
    random.seed(seed)  # merge_lines() orders lines with a random jitter
    with redirect_stdout(io.StringIO()):
        page = extractor.process_page(np.zeros((800, 1000, 3), dtype=np.uint8), page)
    ids = [line.id for line in page.lines_iterator()]
    detected = None
    if not options[2]:  # not merged: the placed lines can be traced back to the detected ones
        detected = {rot: [(b, helpers.baseline_to_textline(b, h)) for b, h in lines]
                    for rot, lines in lines_by_rot.items()}
    return {'regions': dump_regions(page.regions, detected), 'ids_unique': len(ids) == len(set(ids))}


def run_merge(lines, seed):
    random.seed(seed)
    baselines, heights = helpers.merge_lines([b.copy() for b, _ in lines], [list(h) for _, h in lines])
    return {'baselines': [arr(b) for b in baselines], 'heights': [arr(h) for h in heights]}


def compute_all():
    results = {}
    rng = np.random.default_rng(20240611)

    for i, (polygons, lines) in enumerate(special_scenarios()):
        results['assign/special/{:03d}'.format(i)] = run_assign(polygons, lines)
        for r, polygon in enumerate(polygons):
            for l, (baseline, heights) in enumerate(lines):
                results['mask/special/{:03d}/{}/{}'.format(i, r, l)] = run_mask(polygon, baseline, heights)

    for i in range(260):
        integer = bool(i % 2)
        polygons = random_regions(rng, integer)
        lines = random_lines(rng, polygons, integer)
        results['assign/random/{:03d}'.format(i)] = run_assign(polygons, lines)

    for i in range(60):
        integer = bool(i % 2)
        polygons = random_regions(rng, integer)
        for l, (baseline, heights) in enumerate(random_lines(rng, polygons, integer)):
            results['mask/random/{:03d}/{}'.format(i, l)] = run_mask(polygons[l % len(polygons)], baseline, heights)

    # rotate_coords() / merge_lines(): tilted text, lines that get merged
    for i in range(80):
        n = int(rng.integers(2, 12))
        dtype = [np.float64, np.float64, np.float32, np.int32, np.int64][i % 5]
        coords = rng.uniform(-50, 3000, (n, 2))
        coords = np.round(coords).astype(dtype) if np.issubdtype(dtype, np.integer) else coords.astype(dtype)
        rotation = float(rng.choice([0.0, 90.0, -90.0, 180.0, 45.0, rng.uniform(-180, 180), rng.uniform(-10, 10)]))
        center = (0, 0) if i % 3 else (float(rng.uniform(0, 500)), float(rng.uniform(0, 500)))
        before = coords.copy()
        rotated = helpers.rotate_coords(coords, rotation, center)
        results['rotate/{:03d}'.format(i)] = {
            'coords': arr(rotated), 'dtype': str(rotated.dtype), 'float32': dtype == np.float32,
            'input_unchanged': bool(np.array_equal(before, coords)), 'fresh': not np.shares_memory(rotated, coords)}
    results['rotate/list'] = {'coords': arr(helpers.rotate_coords([[1.0, 2.0], [30.0, 40.5]], 12.5, (0, 0)))}

    for i in range(60):
        tilt = float(rng.choice([0.0, rng.uniform(-8, 8), rng.uniform(-30, 30), 90.0]))
        angle = math.radians(tilt)
        direction = np.array([math.cos(angle), math.sin(angle)])
        normal = np.array([-math.sin(angle), math.cos(angle)])
        origin = np.array([300.0, 100.0]) if tilt != 90.0 else np.array([900.0, 50.0])
        lines = []
        for row in range(int(rng.integers(1, 6))):
            start = origin + normal * row * 60.0
            pieces = int(rng.integers(1, 4))  # pieces of one text row with small gaps: they get merged
            pos = 0.0
            for _ in range(pieces):
                length = float(rng.uniform(60, 250))
                p0 = start + direction * pos
                ts = np.linspace(0, length, int(rng.choice([2, 3, 5])))
                baseline = p0[None, :] + ts[:, None] * direction[None, :] + normal[None, :] * rng.uniform(-1, 1, (ts.shape[0], 1))
                if i % 4 == 0:
                    baseline = np.round(baseline)
                lines.append((baseline, [float(rng.integers(10, 22)), float(rng.integers(4, 9))]))
                pos += length + float(rng.uniform(5, 25))
        results['merge/{:03d}'.format(i)] = run_merge(lines, seed=i)

    # the layout extractor with a stub detector
    combos = [(dr, dl, ml, mo) for dr in (False, True) for dl in (False, True) for ml in (False, True)
              for mo in (False, True)]
    for i in range(48):
        integer = bool(i % 2)
        # merging re-clips the lines, an exact tie resolved differently gives then an incomparable (but equally
        # valid) result; so every third scenario may have exact ties and is run without merging only
        may_tie = i % 3 == 0
        polygons = random_regions(rng, integer, symmetric=may_tie)
        lines_by_rot = {0: random_lines(rng, polygons, integer)}
        for rot in (1, 3):
            lines_by_rot[rot] = [make_line(rng, rng.uniform(100, 900), rng.uniform(50, 300), rng.uniform(50, 400), 90.0,
                                           int(rng.choice([2, 4])), integer) for _ in range(int(rng.integers(0, 4)))]
        # some text rows in pieces (merge candidates), horizontal and slightly tilted
        lo, hi = polygons[0].min(axis=0), polygons[0].max(axis=0)
        tilt = float(rng.choice([0.0, rng.uniform(-6, 6)]))
        for row in range(int(rng.integers(0, 4))):
            y = lo[1] + 40 + 50 * row
            b1, h1 = make_line(rng, lo[0] + 15, y, 0.35 * (hi[0] - lo[0]), tilt, 3, integer)
            b2, _ = make_line(rng, b1[-1, 0] + 12, b1[-1, 1] + 12 * math.tan(math.radians(tilt)), 0.3 * (hi[0] - lo[0]),
                              tilt, 3, integer)
            lines_by_rot[0] += [(b1, h1), (b2, list(h1))]
        for options in combos:
            if may_tie and options[2]:
                continue
            key = 'extractor/{:03d}/{}'.format(i, ''.join('1' if o else '0' for o in options))
            results[key] = run_extractor(options, polygons, lines_by_rot, seed=i)
    return results


# ----------------------------------------------------------------------------------------------- tolerant comparison
def close(ref, new, rtol):
    ref = np.asarray(ref, dtype=np.float64)
    new = np.asarray(new, dtype=np.float64)
    if ref.shape != new.shape:
        return False
    if ref.size == 0:
        return True
    scale = max(1.0, float(np.abs(ref).max()))
    return bool(np.all(np.abs(ref - new) <= rtol * scale))


def same_outline(ref, new, rtol):
    """Outlines are equal point by point, or (if round-off added / removed a vertex) equal as point sets: Hausdorff
    distance below the tolerance."""
    if close(ref, new, rtol):
        return True
    if len(ref) < 4 or len(new) < 4:
        return False
    scale = max(1.0, float(np.abs(np.asarray(ref)).max()))
    return sg.Polygon(ref).exterior.hausdorff_distance(sg.Polygon(new).exterior) <= rtol * scale


TIES_RESOLVED_DIFFERENTLY = []


def compare_line(key, ref, new, poly_rtol, base_rtol=RTOL64):
    if ref['id'] != new['id']:
        return '{}: line id {} != {}'.format(key, new['id'], ref['id'])
    if not close(ref['heights'], new['heights'], RTOL64):
        return '{}: heights of {} differ'.format(key, ref['id'])
    if not close(ref['baseline'], new['baseline'], base_rtol):
        # exactly tied longest pieces: the statement does not say which one is kept
        if not any(close(tie, new['baseline'], base_rtol) for tie in ref.get('ties', [])):
            return '{}: baseline of {} differs'.format(key, ref['id'])
        TIES_RESOLVED_DIFFERENTLY.append((key, ref['id'], 'baseline'))
    if not same_outline(ref['polygon'], new['polygon'], poly_rtol):
        # exactly tied largest pieces of the outline: likewise
        if not any(same_outline(tie, new['polygon'], poly_rtol) for tie in ref.get('poly_ties', [])):
            return '{}: outline of {} differs'.format(key, ref['id'])
        TIES_RESOLVED_DIFFERENTLY.append((key, ref['id'], 'outline'))
    return None


def compare_regions(key, ref, new, poly_rtol, base_rtol=RTOL64):
    if [r['id'] for r in ref] != [r['id'] for r in new]:
        return '{}: region ids differ'.format(key)
    for r_ref, r_new in zip(ref, new):
        if len(r_ref['lines']) != len(r_new['lines']):
            return '{}: region {} has {} lines instead of {}'.format(key, r_ref['id'], len(r_new['lines']), len(r_ref['lines']))
        for l_ref, l_new in zip(r_ref['lines'], r_new['lines']):
            problem = compare_line(key, l_ref, l_new, poly_rtol, base_rtol)
            if problem:
                return problem
    return None


def compare(reference, results):
    if sorted(reference) != sorted(results):
        return 'set of test cases differs'
    for key in sorted(reference):
        ref, new = reference[key], results[key]
        kind = key.split('/')[0]
        if kind == 'assign':
            if ref['same_list'] != new['same_list'] or ref['inputs_unchanged'] != new['inputs_unchanged']:
                return '{}: aliasing / input modification differs'.format(key)
            problem = compare_regions(key, ref['regions'], new['regions'], RTOL64)
        elif kind == 'mask':
            problem = None
            if (ref['baseline'] is None) != (new['baseline'] is None):
                problem = '{}: line placed / not placed'.format(key)
            elif ref['baseline'] is not None:
                problem = compare_line(key, dict(ref, id='', heights=[]), dict(new, id='', heights=[]), RTOL64)
        elif kind == 'rotate':
            problem = None
            for flag in ('dtype', 'input_unchanged', 'fresh'):
                if ref.get(flag) != new.get(flag):
                    problem = '{}: {} differs'.format(key, flag)
            if not close(ref['coords'], new['coords'], RTOL32 if ref.get('float32') else RTOL64):
                problem = '{}: rotated coordinates differ'.format(key)
        elif kind == 'merge':
            problem = None
            if len(ref['baselines']) != len(new['baselines']):
                problem = '{}: number of merged lines differs'.format(key)
            elif not all(close(a, b, RTOL64) for a, b in zip(ref['baselines'], new['baselines'])):
                problem = '{}: merged baselines differ'.format(key)
            elif not all(close(a, b, RTOL64) for a, b in zip(ref['heights'], new['heights'])):
                problem = '{}: merged heights differ'.format(key)
        else:  # extractor; outlines after merging are float32 data
            merged = key.split('/')[2][2] == '1'
            problem = None
            if ref['ids_unique'] != new['ids_unique']:
                problem = '{}: uniqueness of line ids differs'.format(key)
            else:
                problem = compare_regions(key, ref['regions'], new['regions'], RTOL32 if merged else RTOL64)
        if problem:
            return problem
    return None


def max_deviation(reference, results):
    """Largest absolute coordinate difference (informative only)."""
    worst = 0.0

    def walk(a, b):
        nonlocal worst
        if isinstance(a, dict) and isinstance(b, dict):
            for k in a:
                if k in b and k not in ('ties', 'poly_ties'):
                    walk(a[k], b[k])
        elif isinstance(a, list) and isinstance(b, list):
            try:
                x, y = np.asarray(a, dtype=np.float64), np.asarray(b, dtype=np.float64)
                if x.shape == y.shape and x.size:
                    worst = max(worst, float(np.abs(x - y).max()))
                return
            except (ValueError, TypeError):
                pass
            for x, y in zip(a, b):
                walk(x, y)
    walk(reference, results)
    return worst


def main():
    results = compute_all()
    results = json.loads(json.dumps(results))
    if not os.path.exists(REFERENCE):
        with open(REFERENCE, 'w') as f:
            json.dump(results, f)
        n_lines = sum(len(r['lines']) for v in results.values() if 'regions' in v for r in v['regions'])
        print('REFERENCE WRITTEN: {} cases, {} placed lines -> {}'.format(len(results), n_lines, REFERENCE))
        return 0
    with open(REFERENCE) as f:
        reference = json.load(f)
    problem = compare(reference, results)
    if problem:
        print('DIFFERENT: {}'.format(problem))
        return 1
    identical = json.dumps(reference, sort_keys=True) == json.dumps(results, sort_keys=True)
    print('MATCH ({} cases; bit-identical: {}; exact ties resolved differently: {}; max abs coordinate deviation {:.3g})'
          .format(len(results), identical, len(TIES_RESOLVED_DIFFERENTLY), max_deviation(reference, results)))
    return 0


if __name__ == '__main__':
    sys.exit(main())
