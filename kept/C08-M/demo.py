#!/usr/bin/env python3
"""Differential test for change M (C08): GreedyDecoder collapses repeated frames with numpy and
scores its hypothesis with a max-shifted numpy log-sum-exp instead of scipy's logsumexp.

First run (clean tree): writes reference.json next to this file and prints REFERENCE WRITTEN.
Later runs: recompute everything and compare against reference.json:
  * transcriptions, exception types, structure, dtypes of the scores: exact
  * hypothesis scores: |a-b| <= tol * (1 + max(|a|,|b|)) with tol = 1e-9 for float64 logits and
    1e-6 for float32 logits (the score m + log(sum(exp(x - m))) can cancel to ~0, hence the
    absolute part of the tolerance)
Prints MATCH (exit 0) or DIFFERENT: <what> (exit 1).
"""
import json
import math
import os
import sys

import numpy as np
from scipy import sparse

from pero_ocr.core.layout import PageLayout, RegionLayout, TextLine
from pero_ocr.decoding.decoders import BLANK_SYMBOL, GreedyDecoder
from pero_ocr.document_ocr.page_parser import PageDecoder

HERE = os.path.dirname(os.path.abspath(__file__))
REFERENCE = os.path.join(HERE, 'reference.json')
TOL = {'float64': 1e-9, 'float32': 1e-6}


def log_softmax(x):
    x = x - x.max(axis=1, keepdims=True)
    return x - np.log(np.exp(x).sum(axis=1, keepdims=True))


def make_logprobs(rng, T, C, kind, dtype):
    """(T, C+1) normalised log-probs, last column = blank."""
    raw = rng.normal(0, 1, (T, C + 1))
    if kind == 'flat':
        raw *= 0.3
    elif kind == 'sharp':
        raw *= 6.0
    elif kind == 'verysharp':           # one-hot like frames: score ~ log(T), best log-probs ~ -1e-9
        raw *= 40.0
    elif kind == 'ties':                # exactly tied maxima inside frames (argmax must take the first), repeated frames
        raw = np.round(raw)
        if T > 1:
            raw[1::2] = raw[0::2][:raw[1::2].shape[0]]
    elif kind == 'uniform':             # everything tied; for C == 1, T == 2 the score cancels to ~0
        raw[...] = 0.0
    elif kind == 'blanky':
        raw[:, -1] += 3.0
    elif kind == 'repeats':             # runs of the same symbol, also separated by blanks
        dom = np.repeat(rng.randint(0, C + 1, size=T)[::3], 3)[:T]
        raw[np.arange(T), dom] += 5.0
    elif kind == 'zeroprob':            # legitimate -inf log-probs (probability 0) for non-winning symbols
        raw[rng.rand(T, C + 1) < 0.3] = -np.inf
        raw[np.arange(T), rng.randint(0, C + 1, size=T)] = 1.0
    with np.errstate(invalid='ignore'):
        lp = log_softmax(raw.astype(np.float64))
    return lp.astype(dtype)


def enc(x):
    x = float(x)
    if math.isnan(x):
        return 'nan'
    if math.isinf(x):
        return 'inf' if x > 0 else '-inf'
    return x


def bag_to_json(bag):
    hyps = list(bag)
    return {
        'hyps': [[h.transcript, enc(h.vis_sc), h.lm_sc, type(h.vis_sc).__name__] for h in hyps],
        'best': bag.best_hyp(),
        'confidence': enc(bag.confidence()),
    }


def run_case(fn):
    try:
        return fn()
    except Exception as e:              # the exception type is part of the recorded behaviour
        return {'exception': type(e).__name__}


def collect():
    out = {}
    rng = np.random.RandomState(4321)
    kinds = ['flat', 'sharp', 'verysharp', 'ties', 'uniform', 'blanky', 'repeats', 'zeroprob']

    # 1) the decoder itself
    n = 0
    for C in (1, 2, 3, 6, 40):
        letters = [chr(ord('a') + i) for i in range(C)] + [BLANK_SYMBOL]
        for sep in ('', ' '):
            dec = GreedyDecoder(letters, symbol_separator=sep)
            for kind in kinds:
                for T in (0, 1, 2, 3, 10, 57, 300):
                    dtype = np.float32 if n % 2 else np.float64
                    n += 1
                    lp = make_logprobs(rng, T, C, kind, dtype)
                    lp_before = lp.copy()
                    res = run_case(lambda: bag_to_json(dec(lp)))
                    res2 = run_case(lambda: bag_to_json(dec(lp)))
                    assert res == res2, 'decoding the same line twice differs'
                    assert np.array_equal(lp, lp_before, equal_nan=True), 'decoder modified its input'
                    out[f'greedy/C{C}/sep{len(sep)}/{kind}/T{T}/{np.dtype(dtype).name}'] = res
    # not normalised -> ValueError; non-contiguous / Fortran-ordered / read-only inputs
    letters = ['a', 'b', 'c', BLANK_SYMBOL]
    dec = GreedyDecoder(letters)
    lp = make_logprobs(rng, 12, 3, 'sharp', np.float64)
    out['greedy/unnormalised/float64'] = run_case(lambda: bag_to_json(dec(lp + 0.01)))
    out['greedy/fortran/float64'] = run_case(lambda: bag_to_json(dec(np.asfortranarray(lp))))
    out['greedy/strided/float64'] = run_case(lambda: bag_to_json(dec(np.repeat(lp, 2, axis=0)[::2])))
    ro = lp.copy()
    ro.setflags(write=False)
    out['greedy/readonly/float64'] = run_case(lambda: bag_to_json(dec(ro)))

    # 2) PageDecoder with the greedy decoder: alone, after other pages, twice, different orders
    chars = ['a', 'b', 'c', 'd']
    letters = chars + [BLANK_SYMBOL]

    def make_page(pid, nb_lines, prng):
        page = PageLayout(id=pid, page_size=(100, 100))
        region = RegionLayout('r', np.asarray([[0, 0], [1, 0], [1, 1], [0, 1]]))
        for li in range(nb_lines):
            T = int(prng.randint(1, 30))
            raw = prng.normal(0, 1, (T, len(letters))) * prng.choice([1.0, 4.0, 9.0]) + 5.0
            probs = np.exp(log_softmax(raw))
            raw[probs < 1e-4] = 0
            region.lines.append(TextLine(id=f'{pid}-l{li}', logits=sparse.csc_matrix(raw.astype(np.float32)),
                                         characters=chars, transcription='ab' if li % 2 else 'c'))
        page.regions.append(region)
        return page

    def page_result(page):
        return [line.transcription for line in page.lines_iterator()]

    configs = {
        'greedy': lambda: PageDecoder(GreedyDecoder(letters)),
        'greedy_thr': lambda: PageDecoder(GreedyDecoder(letters), line_confidence_threshold=0.5),
    }
    for cname, factory in configs.items():
        alone = {}
        for p in range(6):
            alone[p] = page_result(factory().process_page(make_page(f'p{p}', 1 + p, np.random.RandomState(100 + p))))
            out[f'page/{cname}/p{p}'] = alone[p]
        for order in ([0, 1, 2, 3, 4, 5], [5, 4, 3, 2, 1, 0], [2, 2, 0, 4, 4, 1, 5, 3, 2]):
            pd = factory()
            for p in order:
                got = page_result(pd.process_page(make_page(f'p{p}', 1 + p, np.random.RandomState(100 + p))))
                assert got == alone[p], f'history dependence: config {cname}, order {order}, page {p}'
    return out


def num_close(a, b, tol):
    if isinstance(a, str) or isinstance(b, str):
        return a == b
    return abs(a - b) <= tol * (1.0 + max(abs(a), abs(b)))


def compare(ref, new):
    problems = []
    if set(ref) != set(new):
        return [f'case sets differ: {sorted(set(ref) ^ set(new))[:5]}']
    for key in ref:
        r, n = ref[key], new[key]
        if key.startswith('page/') or 'exception' in r or 'exception' in n:
            if r != n:
                problems.append(f'{key}: {r} vs {n}')
            continue
        tol = TOL[key.rsplit('/', 1)[1]]
        if len(r['hyps']) != len(n['hyps']):
            problems.append(f'{key}: number of hypotheses differs')
            continue
        for hr, hn in zip(r['hyps'], n['hyps']):
            if hr[0] != hn[0] or hr[2] != hn[2] or hr[3] != hn[3]:
                problems.append(f'{key}: hypothesis {hr} vs {hn}')
            elif not num_close(hr[1], hn[1], tol):
                problems.append(f'{key}: score {hr[1]!r} vs {hn[1]!r}')
        if r['best'] != n['best']:
            problems.append(f'{key}: best hypothesis {r["best"]!r} vs {n["best"]!r}')
        if not num_close(r['confidence'], n['confidence'], tol):
            problems.append(f'{key}: confidence {r["confidence"]} vs {n["confidence"]}')
    return problems


def main():
    results = json.loads(json.dumps(collect()))
    if not os.path.exists(REFERENCE):
        with open(REFERENCE, 'w') as f:
            json.dump(results, f, indent=0, sort_keys=True)
        print(f'REFERENCE WRITTEN ({len(results)} cases) to {REFERENCE}')
        return 0
    with open(REFERENCE) as f:
        ref = json.load(f)
    problems = compare(ref, results)
    if problems:
        print(f'DIFFERENT: {len(problems)} problem(s), first ones: ' + ' | '.join(problems[:5]))
        return 1
    exact = sum(1 for k in ref if ref[k] == results[k])
    print(f'MATCH ({len(ref)} cases, {exact} of them bit-identical, the rest within tolerance)')
    return 0


if __name__ == '__main__':
    sys.exit(main())
