#!/usr/bin/env python
"""Differential test for property C10 (line crops sample the band around the baseline).

No arguments.  Imports pero_ocr from PYTHONPATH.

First run (on the clean tree): writes reference.json next to this file and prints REFERENCE WRITTEN.
Later runs: recompute everything and compare against reference.json with explicit tolerances:
  * shapes / dtypes / "did it fall back" flags: exact
  * sampling coordinates (float32, pixels): |new - ref| <= 1e-6 * max(|ref|, 1)
  * float64 helper outputs (reverse_line_mapping): |new - ref| <= 1e-9 * max(|ref|, 1)
  * crop pixels (uint8): identical wherever the float32 sampling coordinates are bit-identical;
    where a coordinate moved by round-off (within the tolerance above) the pixel may move by the
    bilinear weight quantisation of cv2.remap (1/32 px in x and y -> at most 2*ceil(255/32) = 16 levels)
prints MATCH (exit 0) or DIFFERENT: <what> (exit 1).
"""
import base64
import configparser
import contextlib
import io
import json
import os
import sys
import warnings
import zlib

import numpy as np

warnings.filterwarnings('ignore')

from pero_ocr.core.crop_engine import EngineLineCropper
from pero_ocr.core.layout import TextLine
from pero_ocr.document_ocr.page_parser import LineCropper

HERE = os.path.dirname(os.path.abspath(__file__))
REF = os.path.join(HERE, 'reference.json')

RTOL32 = 1e-6
RTOL64 = 1e-9
PIX_SLACK = 16


# ----------------------------------------------------------------------------- case generation
def make_image(rng, h, w, c):
    # smooth-ish + noise so that bilinear sampling is sensitive to the coordinates
    yy, xx = np.mgrid[0:h, 0:w]
    img = np.zeros((h, w, c), dtype=np.float64)
    for k in range(c):
        img[:, :, k] = 127 + 60 * np.sin(xx / (3.0 + k) + rng.uniform(0, 6)) * np.cos(yy / (4.0 + k)) \
                       + rng.uniform(-60, 60, size=(h, w))
    return np.clip(np.round(img), 0, 255).astype(np.uint8)


def random_baseline(rng, img_w, img_h, outside):
    n = int(rng.integers(2, 7))
    length = rng.uniform(14, 70)
    ang = np.deg2rad(rng.uniform(-58, 58))
    t = np.sort(rng.uniform(0, 1, n))
    t[0], t[-1] = 0.0, 1.0
    # keep points well separated
    t = np.linspace(0, 1, n) * 0.7 + t * 0.3
    curv = rng.uniform(-0.04, 0.04) * length
    along = t * length
    perp = curv * np.sin(np.pi * t) + rng.uniform(-0.4, 0.4, n) * (n > 2)
    x = along * np.cos(ang) - perp * np.sin(ang)
    y = along * np.sin(ang) + perp * np.cos(ang)
    if outside:
        ox = rng.choice([rng.uniform(-20, 5), rng.uniform(img_w - length, img_w + 10)])
        oy = rng.choice([rng.uniform(-15, 10), rng.uniform(img_h - 20, img_h + 10)])
    else:
        ox = rng.uniform(45, img_w - 45 - length)
        oy = rng.uniform(75, img_h - 75)
        if ang < 0:
            oy = min(img_h - 45, oy + length * abs(np.sin(ang)) * 0.5)
    pts = np.stack([x + ox, y + oy], axis=1)
    if rng.random() < 0.5:
        pts = np.round(pts)
        # make sure rounding did not merge points
        pts[:, 0] += np.arange(n) * (np.diff(pts[:, 0], prepend=pts[0, 0] - 1) == 0)
    return pts


def build_cases():
    rng = np.random.default_rng(20240610)
    cases = []
    images = {}
    for key, (h, w, c) in {'g': (200, 240, 1), 'c': (200, 240, 3)}.items():
        images[key] = make_image(rng, h, w, c)

    def add(name, img_key, baseline, heights, poly, line_height, scale, shift=None):
        cases.append(dict(name=name, img=img_key, baseline=baseline, heights=heights, poly=poly,
                          line_height=line_height, scale=scale, shift=shift))

    # random, inside and partly outside the page
    for i in range(210):
        outside = (i % 3 == 2)
        img_key = 'c' if i % 5 == 0 else 'g'
        bl = random_baseline(rng, 240, 200, outside)
        lh = int(rng.integers(16, 65))
        sc = float(rng.uniform(0.8, 1.5))
        total = lh / rng.uniform(0.5, 1.6) / sc      # any positive heights; keeps the crops small
        frac = rng.uniform(0.55, 0.85)
        h0, h1 = float(total * frac), float(total * (1 - frac))
        if i % 7 == 0:
            h0, h1 = float(max(1, round(h0))), float(max(1, round(h1)))
        add('rnd%03d' % i, img_key, bl, [h0, h1], int(i % 3), lh, sc)

    # exact / structured baselines: horizontal integer, 3-4-5 slopes, power-of-two sample counts
    k = 0
    for poly in (0, 1, 2):
        for bl in ([[60, 100], [124, 100]],
                   [[60, 100], [80, 100], [100, 100], [125, 100]],
                   [[60, 100], [75, 101], [90, 102], [110, 101], [126, 100]],
                   [[40, 40], [80, 70]],              # 3-4-5, length 50
                   [[40, 160], [60, 145], [80, 130]],  # 3-4-5 upwards
                   [[50, 60], [80, 100]],             # steep 3-4-5 (53 deg)
                   [[100, 50], [105, 50]],            # short but croppable
                   [[30.5, 99.5], [80.25, 99.5]],
                   [[-10, 20], [50, 20]],             # partly outside, horizontal
                   [[200, 190], [260, 196]]):         # partly outside right/bottom
            for heights, lh, sc in (([24, 8], 32, 1.0), ([12.0, 4.0], 32, 1.0), ([15, 5], 48, 1.25),
                                    ([10, 6], 33, 0.8)):
                add('str%03d' % k, 'g', np.array(bl, dtype=np.float64), list(heights), poly, lh, sc)
                k += 1

    # pairs of a baseline and an integer-shifted copy of it
    for i in range(12):
        bl = random_baseline(rng, 240, 200, False)
        sh = [int(rng.integers(-30, 30)), int(rng.integers(-30, 30))]
        lh = int(rng.integers(16, 65))
        sc = float(rng.uniform(0.8, 1.5))
        total = lh / rng.uniform(0.6, 1.4) / sc
        hh = [float(total * 0.7), float(total * 0.3)]
        add('shA%02d' % i, 'g', bl, hh, i % 3, lh, sc)
        add('shB%02d' % i, 'g', bl + np.array(sh, dtype=np.float64), hh, i % 3, lh, sc)

    # degenerate baselines / heights -> blank fallback, never an error
    k = 0
    for poly in (0, 1, 2):
        for bl, heights in (([[100, 50], [100, 120]], [10, 4]),       # vertical
                            ([[100, 120], [100, 50]], [10, 4]),       # vertical upwards
                            ([[100, 50], [100, 50]], [10, 4]),        # single pixel
                            ([[100, 50]], [10, 4]),                   # one point
                            ([[100, 50], [101, 50]], [10, 4]),        # one pixel long
                            ([[100, 50], [102, 51]], [10, 4]),        # very short
                            ([[100.2, 50.3], [100.9, 50.6]], [10, 4]),  # sub-pixel
                            ([[60, 100], [160, 100]], [0, 0]),        # zero heights
                            ([[60, 100], [160, 100]], [0.0, 0.0]),
                            ([[60, 100], [160, 100]], [np.float64(0), np.float64(0)]),
                            ([[60, 100], [160, 130]], [200.0, 100.0]),  # huge heights -> 0..few columns
                            ([[100, 50], [100, 50], [100, 50]], [10, 4])):
            add('deg%03d' % k, 'c' if k % 2 else 'g', np.array(bl, dtype=np.float64), list(heights), poly, 32, 1.0)
            k += 1
    return images, cases


# ----------------------------------------------------------------------------- running
def quiet(fn, *a, **kw):
    buf = io.StringIO()
    with contextlib.redirect_stdout(buf):
        return fn(*a, **kw)


def run_case(images, case):
    img = images[case['img']]
    eng = EngineLineCropper(line_height=case['line_height'], poly=case['poly'], scale=case['scale'])
    out = {}
    try:
        coords = quiet(eng.get_crop_inputs, case['baseline'], case['heights'], case['line_height'])
        out['coords'] = np.asarray(coords)
        out['coords_raised'] = False
    except Exception:
        out['coords'] = None
        out['coords_raised'] = True
    try:
        crop = quiet(eng.crop, img, case['baseline'], case['heights'])
        out['crop'] = np.asarray(crop)
        out['crop_raised'] = False
    except Exception:
        out['crop'] = None
        out['crop_raised'] = True
    return out


def run_line_cropper(images, cases):
    """A few lines through page_parser.LineCropper (both crop_lines and process_page)."""
    res = {}
    for poly in (0, 1, 2):
        cfg = configparser.ConfigParser()
        cfg['LINE_CROPPER'] = {'INTERP': str(poly), 'LINE_SCALE': '1.15', 'LINE_HEIGHT': '40'}
        lc = LineCropper(cfg['LINE_CROPPER'])
        sel = [c for c in cases if c['name'].startswith(('rnd00', 'deg00', 'str00'))]
        lines = [TextLine(id=c['name'], baseline=c['baseline'], heights=c['heights']) for c in sel]
        quiet(lc.crop_lines, images['c'], lines)

        class _Page:
            id = 'p'

            def __init__(self, ls):
                self.ls = ls

            def lines_iterator(self):
                return iter(self.ls)
        lines2 = [TextLine(id=c['name'], baseline=c['baseline'], heights=c['heights']) for c in sel]
        quiet(lc.process_page, images['c'], _Page(lines2))
        for a, b in zip(lines, lines2):
            assert np.array_equal(np.asarray(a.crop), np.asarray(b.crop)), 'crop_lines != process_page'
            res['lc%d_%s' % (poly, a.id)] = np.asarray(a.crop)
    return res


def run_reverse_line_mapping():
    """Direct calls of the helper used for the horizontal sampling positions (float64)."""
    rng = np.random.default_rng(7)
    eng = EngineLineCropper()
    res = {}
    for i in range(60):
        n = int(rng.integers(2, 60))
        seg = rng.uniform(0.2, 2.0, n - 1)
        fm = np.concatenate([np.zeros(1), np.cumsum(seg)])
        sv = np.cumsum(rng.uniform(0.5, 1.5, n)) + rng.uniform(-50, 500)
        m = int(rng.integers(0, 90))
        sp = np.linspace(0, fm[-1], m)
        res['rlm%02d' % i] = np.asarray(eng.reverse_line_mapping(fm, sp, sv), dtype=np.float64)
    # contract corner cases: no samples; one sample; unit steps
    res['rlm_empty'] = np.asarray(eng.reverse_line_mapping(np.zeros(1), np.linspace(0, 0, 0), np.arange(0.0, 0.0)),
                                  dtype=np.float64)
    res['rlm_one'] = np.asarray(eng.reverse_line_mapping(np.array([0.0, 1.0, 2.0]), np.linspace(0, 2.0, 1),
                                                         np.array([5.0, 6.0, 7.0])), dtype=np.float64)
    res['rlm_unit'] = np.asarray(eng.reverse_line_mapping(np.arange(0.0, 100.0), np.linspace(0, 99.0, 257),
                                                          np.arange(60.0, 160.0)), dtype=np.float64)
    # general-contract inputs (first forward value above some samples -> the scan advances)
    fm = np.array([3.0, 2.0, 1.0, 0.5, 0.0])
    sp = np.array([2.5, 1.5, 0.7, 0.2])
    sv = np.array([10.0, 20.0, 30.0, 40.0, 50.0])
    res['rlm_general'] = np.asarray(eng.reverse_line_mapping(fm, sp, sv), dtype=np.float64)
    return res


# ----------------------------------------------------------------------------- (de)serialisation
def enc(a):
    if a is None:
        return None
    a = np.ascontiguousarray(a)
    raw = np.frombuffer(a.tobytes(), dtype=np.uint8).reshape(-1, a.dtype.itemsize).T   # byte-shuffle (lossless)
    return {'dtype': str(a.dtype), 'shape': list(a.shape),
            'data': base64.b64encode(zlib.compress(np.ascontiguousarray(raw).tobytes(), 9)).decode('ascii')}


def dec(d):
    if d is None:
        return None
    dt = np.dtype(d['dtype'])
    raw = np.frombuffer(zlib.decompress(base64.b64decode(d['data'])), dtype=np.uint8).reshape(dt.itemsize, -1).T
    return np.frombuffer(np.ascontiguousarray(raw).tobytes(), dtype=dt).reshape(d['shape']).copy()


# ----------------------------------------------------------------------------- comparison
def close(new, ref, rtol):
    new = new.astype(np.float64)
    ref = ref.astype(np.float64)
    if not (np.isfinite(new) == np.isfinite(ref)).all():
        return False, 'finite mask'
    fin = np.isfinite(ref)
    if not np.array_equal(new[~fin], ref[~fin], equal_nan=True):
        return False, 'non-finite values'
    err = np.abs(new[fin] - ref[fin])
    lim = rtol * np.maximum(np.abs(ref[fin]), 1.0)
    if err.size and (err > lim).any():
        return False, 'max excess %.3g' % float((err / lim).max())
    return True, ''


def compare(name, new, ref, stats):
    for flag in ('coords_raised', 'crop_raised'):
        if new[flag] != ref[flag]:
            return '%s: %s %r -> %r' % (name, flag, ref[flag], new[flag])
    moved = None
    if (new['coords'] is None) != (ref['coords'] is None):
        return '%s: coords presence' % name
    if ref['coords'] is not None:
        a, b = new['coords'], ref['coords']
        if a.shape != b.shape or a.dtype != b.dtype:
            return '%s: coords shape/dtype %s %s -> %s %s' % (name, b.shape, b.dtype, a.shape, a.dtype)
        ok, why = close(a, b, RTOL32)
        if not ok:
            return '%s: coords %s' % (name, why)
        moved = (a != b).any(axis=2) if a.size else np.zeros(a.shape[:2], dtype=bool)
        stats['coord_elems'] += a.size
        stats['coord_moved'] += int((a != b).sum())
    if (new['crop'] is None) != (ref['crop'] is None):
        return '%s: crop presence' % name
    if ref['crop'] is not None:
        a, b = new['crop'], ref['crop']
        if a.shape != b.shape or a.dtype != b.dtype:
            return '%s: crop shape/dtype %s %s -> %s %s' % (name, b.shape, b.dtype, a.shape, a.dtype)
        diff = np.abs(a.astype(int) - b.astype(int))
        if diff.ndim == 3:
            diff = diff.max(axis=2)
        stats['pix'] += diff.size
        stats['pix_moved'] += int((diff > 0).sum())
        if moved is not None and moved.shape == diff.shape:
            if (diff[~moved] > 0).any():
                return '%s: pixels differ where sampling coordinates are identical' % name
            if (diff[moved] > PIX_SLACK).any():
                return '%s: pixel moved by %d levels' % (name, int(diff[moved].max()))
        elif (diff > 0).any():
            return '%s: fallback / unmapped crop differs' % name
    return None


def main():
    images, cases = build_cases()
    results = {c['name']: run_case(images, c) for c in cases}
    lc = run_line_cropper(images, cases)
    rlm = run_reverse_line_mapping()

    # self-checks that do not need the reference (statement clauses), identical on every tree
    n_fallback = 0
    for c in cases:
        r = results[c['name']]
        assert not r['crop_raised'], 'crop() raised for %s' % c['name']
        assert r['crop'].shape[0] == c['line_height'], 'crop height for %s' % c['name']
        if c['name'].startswith('deg') and r['crop'].shape[1] == 32 and not r['crop'].any():
            n_fallback += 1

    if not os.path.exists(REF):
        ref = {'cases': {k: {'coords': enc(v['coords']), 'crop': enc(v['crop']),
                             'coords_raised': v['coords_raised'], 'crop_raised': v['crop_raised']}
                         for k, v in results.items()},
               'line_cropper': {k: enc(v) for k, v in lc.items()},
               'reverse_line_mapping': {k: [float(x) for x in v] for k, v in rlm.items()},
               'n_fallback': n_fallback}
        with open(REF, 'w') as f:
            json.dump(ref, f)
        print('REFERENCE WRITTEN: %d cases (%d blank fallbacks), %d LineCropper crops, %d helper calls -> %s'
              % (len(results), n_fallback, len(lc), len(rlm), REF))
        return 0

    with open(REF) as f:
        ref = json.load(f)
    stats = dict(coord_elems=0, coord_moved=0, pix=0, pix_moved=0, f64=0, f64_moved=0)
    problems = []
    if set(ref['cases']) != set(results):
        problems.append('case set differs')
    for name, new in results.items():
        r = ref['cases'].get(name)
        if r is None:
            continue
        r = dict(coords=dec(r['coords']), crop=dec(r['crop']), coords_raised=r['coords_raised'],
                 crop_raised=r['crop_raised'])
        p = compare(name, new, r, stats)
        if p:
            problems.append(p)
    if n_fallback != ref['n_fallback']:
        problems.append('number of blank fallbacks %d -> %d' % (ref['n_fallback'], n_fallback))
    # LineCropper crops: compare through the engine results' rule is not available (no coords) -> allow
    # only the quantisation slack on a vanishing fraction of pixels
    for name, a in lc.items():
        b = dec(ref['line_cropper'][name])
        if a.shape != b.shape:
            problems.append('%s: shape %s -> %s' % (name, b.shape, a.shape))
            continue
        diff = np.abs(a.astype(np.float64) - b.astype(np.float64))
        if diff.size and (diff.max() > PIX_SLACK or (diff > 0).mean() > 1e-3):
            problems.append('%s: LineCropper crop differs (max %g, frac %g)' % (name, diff.max(), (diff > 0).mean()))
    for name, a in rlm.items():
        b = np.array(ref['reverse_line_mapping'][name], dtype=np.float64)
        if a.shape != b.shape:
            problems.append('%s: shape %s -> %s' % (name, b.shape, a.shape))
            continue
        ok, why = close(a, b, RTOL64)
        stats['f64'] += a.size
        stats['f64_moved'] += int((a != b).sum())
        if not ok:
            problems.append('%s: reverse_line_mapping %s' % (name, why))

    info = ('%d cases; float32 coords moved %d/%d; pixels moved %d/%d; float64 helper values moved %d/%d'
            % (len(results), stats['coord_moved'], stats['coord_elems'], stats['pix_moved'], stats['pix'],
               stats['f64_moved'], stats['f64']))
    if problems:
        print('DIFFERENT: ' + '; '.join(problems[:10]) + (' ... (%d more)' % (len(problems) - 10)
                                                           if len(problems) > 10 else ''))
        print(info)
        return 1
    print('MATCH (' + info + ')')
    return 0


if __name__ == '__main__':
    sys.exit(main())
