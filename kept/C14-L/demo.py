"""Differential demo for change L (shared, vectorised backtracking in sequence_alignment).

Prints a digest of levenshtein_alignment_path / levenshtein_alignment results
(values AND element types) for many symbol sequences and cost settings, and of the
confusion networks (with dict order), pivots, best paths and sorted paths obtained
by adding hypothesis sequences in several orders.
"""
import hashlib
import itertools
import math
import random
import warnings

from pero_ocr.sequence_alignment import levenshtein_alignment_path, levenshtein_alignment
from pero_ocr.decoding.bag_of_hypotheses import BagOfHypotheses
from pero_ocr.decoding.confusion_networks import (
    add_hypothese, normalize_cn, produce_cn_from_boh, best_cn_path, get_pivot, sorted_cn_paths)

warnings.simplefilter('ignore')
h = hashlib.sha256()
n_cases = 0


def feed(*objs):
    for o in objs:
        h.update(repr(o).encode('utf-8'))
        h.update(b'\x00')


def plain(x):
    return x.item() if hasattr(x, 'item') else x


def align_case(source, target, **costs):
    global n_cases
    n_cases += 1
    src_copy, tar_copy = list(source), list(target)
    path = levenshtein_alignment_path(source, target, **costs)
    feed('path', source, target, sorted(costs.items()),
         [(type(d).__name__, float(d)) for d in path])
    alig = levenshtein_alignment(source, target, **costs)
    feed('alig', [(type(a).__name__, plain(a), type(b).__name__, plain(b)) for a, b in alig])
    assert list(source) == src_copy and list(target) == tar_copy
    # the path consumes both sequences completely
    assert sum(1 for d in path if d >= 0) == len(source)
    assert sum(1 for d in path if d <= 0) == len(target)


def cn_repr(cn):
    return [list(pos.items()) for pos in cn]


def readable(cn, transcript):
    """transcript can be read from cn left to right (None arcs may be skipped)."""
    reach = {0}
    for pos in cn:
        nxt = set()
        for k in reach:
            if None in pos:
                nxt.add(k)
            if k < len(transcript) and transcript[k] in pos:
                nxt.add(k + 1)
        reach = nxt
    return len(transcript) in reach


def run_sequence(hyps, with_lm):
    global n_cases
    n_cases += 1
    cn = []
    seen = []
    for transcript, score in hyps:
        if cn == []:
            seen = []    # pre-existing: whatever was added to a still-empty network is forgotten
        cn = add_hypothese(cn, transcript, score)
        seen.append(transcript)
        feed('cn', cn_repr(cn), get_pivot(cn), best_cn_path(cn))
        if cn:
            for t in seen:
                assert readable(cn, t), (cn, t)
    cn = normalize_cn(cn)
    feed('norm', cn_repr(cn), best_cn_path(cn))
    for pos in cn:
        assert abs(sum(pos.values()) - 1.0) < 1e-9
    n_paths = 1
    for pos in cn:
        n_paths *= len(pos)
    if n_paths <= 3000:
        feed('paths', sorted_cn_paths(cn))

    boh = BagOfHypotheses()
    for k, (transcript, score) in enumerate(hyps):
        if with_lm:
            boh.add(transcript, math.log(score), -0.25 * (k + 1))
        else:
            boh.add(transcript, math.log(score))
    cn = produce_cn_from_boh(boh, visual_weight=0.7, lm_weight=1.3)
    feed('boh', cn_repr(cn), best_cn_path(cn))


rng = random.Random(4321)

# --- alignment: exhaustive short strings, default costs (what add_hypothese uses)
short = [''.join(t) for n in range(0, 4) for t in itertools.product('ab', repeat=n)]
for s in short:
    for t in short:
        if t == '':
            continue    # add_hypothese never aligns against an empty pivot
        align_case(list(s), list(t))
        align_case(s, list(t))    # a str source is fine, a str target is not (pre-existing)

# --- alignment: pivots with None symbols (object arrays), as met in add_hypothese
for _ in range(300):
    s = [rng.choice('abc') for _ in range(rng.randint(0, 7))]
    t = [rng.choice(['a', 'b', 'c', None]) for _ in range(rng.randint(1, 8))]
    align_case(s, t)

# --- alignment: other integer costs (vectorised branch) incl. zero and unequal costs
int_costs = [dict(sub_cost=2), dict(ins_cost=2), dict(del_cost=2), dict(sub_cost=3, ins_cost=1, del_cost=2),
             dict(ins_cost=0), dict(sub_cost=0), dict(del_cost=0), dict(sub_cost=1, ins_cost=3, del_cost=1),
             dict(sub_cost=5, ins_cost=2, del_cost=2), dict(ins_cost=True)]
for costs in int_costs:
    for _ in range(60):
        s = ''.join(rng.choice('abcd') for _ in range(rng.randint(0, 9)))
        t = ''.join(rng.choice('abcd') for _ in range(rng.randint(1, 9)))
        align_case(list(s), list(t), **costs)

# --- alignment: float costs (kept on the original loop)
float_costs = [dict(sub_cost=1.0, ins_cost=1.0, del_cost=1.0), dict(sub_cost=0.7, ins_cost=0.3, del_cost=0.45),
               dict(sub_cost=1.5, ins_cost=0.1, del_cost=0.2)]
for costs in float_costs:
    for _ in range(60):
        s = ''.join(rng.choice('abc') for _ in range(rng.randint(0, 8)))
        t = ''.join(rng.choice('abc') for _ in range(rng.randint(1, 8)))
        align_case(list(s), list(t), **costs)

# --- integer symbols and long-ish sequences
for _ in range(60):
    s = [rng.randint(0, 3) for _ in range(rng.randint(0, 30))]
    t = [rng.randint(0, 3) for _ in range(rng.randint(1, 30))]
    align_case(s, t)

# --- confusion networks: corner cases in several orders
corner = [
    ['abc', 'ab', 'a', ''],
    ['', 'a', 'ab', 'abc'],
    ['abc', 'bc', 'c'],
    ['b', 'aaab', 'baaa', 'baaab'],
    ['ac', 'abbbc', 'abc'],
    ['ab', 'xxxab', 'abyyy', 'axxxb'],
    ['abc', 'abc', 'abc'],
    ['abc', 'xyz', 'abz', 'xbc'],
    ['', '', 'a'],
    ['a', '', ''],
    ['ab', 'ba', 'ab', 'ba'],
    ['c', 'abc', 'ababc', 'abababc'],
]
for words in corner:
    for perm in itertools.islice(itertools.permutations(range(len(words))), 8):
        for scores in ([0.5] * len(words),
                       [0.1 * (k + 1) for k in range(len(words))],
                       [2.0 ** -k for k in range(len(words))]):
            hyps = [(words[k], scores[k]) for k in perm]
            run_sequence(hyps, with_lm=False)
            run_sequence(hyps, with_lm=True)

# --- confusion networks: random sequences
for _ in range(300):
    hyps = []
    for _ in range(rng.randint(1, 6)):
        transcript = ''.join(rng.choice('abc') for _ in range(rng.choice([0, 1, 2, 3, 3, 4, 5, 7])))
        hyps.append((transcript, rng.choice([0.25, 0.25, 0.5, 1.0, rng.uniform(0.01, 3.0)])))
    run_sequence(hyps, with_lm=rng.random() < 0.5)

print('cases:', n_cases)
print('digest:', h.hexdigest())
