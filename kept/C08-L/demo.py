"""Differential demo for change L (LMWrapper.initial_h served from a cache).

Prints a digest of
 (a) LMWrapper.initial_h results under repetition, in-place modification of the returned states, in-place weight
     changes, LM / device replacement, an LM in train() mode with dropout, weights created in inference mode,
     plain-tensor and (h, c)-tuple hidden states, unsupported batch sizes;
 (b) beam-search decodings of the same lines repeated and interleaved with other lines on one decoder;
 (c) PageDecoder runs over many sequences (subsets, orders, repetitions) of pages on ONE PageDecoder instance, with
     and without carried LM state, with several confident-line thresholds.
The digest must be identical on the clean and on the patched tree.
"""
import hashlib
import logging

import numpy as np
import scipy.sparse
import torch

from pero_ocr.core.layout import PageLayout, RegionLayout, TextLine
from pero_ocr.decoding.decoders import CTCPrefixLogRawNumpyDecoder, BLANK_SYMBOL
from pero_ocr.decoding.lm_wrapper import LMWrapper, HiddenState
from pero_ocr.document_ocr.page_parser import PageDecoder, PageParser

logging.disable(logging.CRITICAL)
digest = hashlib.sha256()
counts = {'initial_h_calls': 0, 'initial_h_exc': 0, 'lines_decoded': 0, 'pages': 0, 'lm_forward_calls': 0}


def feed(*items):
    for item in items:
        if isinstance(item, torch.Tensor):
            item = item.detach().cpu().numpy()
        if isinstance(item, np.ndarray):
            digest.update(str(item.dtype).encode() + str(item.shape).encode() + np.ascontiguousarray(item).tobytes())
        else:
            digest.update(repr(item).encode())
        digest.update(b'|')


def feed_h(h):
    assert isinstance(h, HiddenState)
    if isinstance(h._h, tuple):
        feed('tuple', *h._h)
    else:
        feed('tensor', h._h)
    parts = h._h if isinstance(h._h, tuple) else (h._h,)
    feed([(p.dtype, tuple(p.shape), str(p.device), p.requires_grad) for p in parts])


class LstmModel(torch.nn.Module):
    """LSTM LM body; the hidden state is a (h, c) tuple as in the real brnolm models."""
    def __init__(self, vocab_size, hidden, dropout=0.0):
        super().__init__()
        self.emb = torch.nn.Embedding(vocab_size, hidden)
        self.drop = torch.nn.Dropout(dropout)
        self.rec = torch.nn.LSTM(hidden, hidden)
        self.hidden = hidden

    def forward(self, xs, hs):
        counts['lm_forward_calls'] += 1
        out, new_h = self.rec(self.drop(self.emb(xs)).transpose(0, 1), hs)      # xs: (batch, time)
        return out, new_h

    def init_hidden(self, bsz):
        ref = self.emb.weight
        return (torch.zeros((1, bsz, self.hidden), dtype=ref.dtype), torch.zeros((1, bsz, self.hidden), dtype=ref.dtype))


class RnnModel(torch.nn.Module):
    """Single-tensor hidden state of width 1 (like the DummyModel of the test-suite)."""
    def __init__(self, vocab_size):
        super().__init__()
        self.emb = torch.nn.Embedding(vocab_size, 1)
        self.rec = torch.nn.Linear(1, 1)
        self.register_buffer('offset', torch.tensor(0.25))

    def forward(self, xs, hs):
        counts['lm_forward_calls'] += 1
        return "unused", torch.tanh(self.emb(xs)[:, :, 0] + self.rec(hs)) + self.offset

    def init_hidden(self, bsz):
        ref = self.emb.weight
        return torch.ones((1, bsz, 1), dtype=ref.dtype) * 0.5


class OutLayer(torch.nn.Module):
    def __init__(self, vocab_size, hidden):
        super().__init__()
        self.out = torch.nn.Linear(hidden, vocab_size)

    def forward(self, hs):
        return torch.log_softmax(self.out(hs), dim=-1)


class Lm(torch.nn.Module):
    def __init__(self, letters, kind='lstm', hidden=5, dropout=0.0):
        super().__init__()
        self.vocab = {'</s>': 0, '<unk>': 1}
        for c in letters:
            self.vocab[c] = len(self.vocab)
        if kind == 'lstm':
            self.model = LstmModel(len(self.vocab), hidden, dropout)
            self.decoder = OutLayer(len(self.vocab), hidden)
        else:
            self.model = RnnModel(len(self.vocab))
            self.decoder = OutLayer(len(self.vocab), 1)
        self._unused_prefix_len = 2
        self.double()
        self.requires_grad_(False)


letters = list('abcde')
symbols = letters + [BLANK_SYMBOL]
torch.manual_seed(11)


def try_initial_h(wrapper, batch_size=1):
    counts['initial_h_calls'] += 1
    try:
        h = wrapper.initial_h(batch_size)
    except Exception as e:
        counts['initial_h_exc'] += 1
        feed('exception', type(e).__name__)
        return None
    feed_h(h)
    return h


# ------------------------------------------------------------------ (a) the wrapper alone
for kind in ['lstm', 'rnn']:
    lm = Lm(letters, kind)
    wrapper = LMWrapper(lm, letters, device='cpu')

    for rep in range(4):                                     # plain repetition
        try_initial_h(wrapper)

    h = try_initial_h(wrapper)                               # the caller ruins what it got, in place
    for part in (h._h if isinstance(h._h, tuple) else (h._h,)):
        part.fill_(123.0)
    h2 = try_initial_h(wrapper)
    other = wrapper.advance_h0(np.asarray([1]), wrapper.initial_h(1))
    h2[[0]] = other                                          # HiddenState.__setitem__ is in place as well
    feed_h(h2)
    h3 = try_initial_h(wrapper)
    h4 = try_initial_h(wrapper)
    for p3, p4 in zip(h3._h if isinstance(h3._h, tuple) else (h3._h,), h4._h if isinstance(h4._h, tuple) else (h4._h,)):
        assert p3.data_ptr() != p4.data_ptr()                # two calls never share memory (true before and after)

    for batch_size in [2, 3, 0, 1, 2, 1]:                    # batch sizes other than 1 (may fail, the same way every time)
        try_initial_h(wrapper, batch_size)

    for rep in range(3):                                     # weights changed in place (as the unit tests do)
        lm.model.emb.weight[0, 0] = 0.1 * (rep + 1)
        try_initial_h(wrapper)
        try_initial_h(wrapper)
        if kind == 'rnn':
            lm.model.offset.add_(0.5)                        # ... and a buffer
            lm.model.rec.bias[0] = -0.3 * rep
        else:
            lm.model.rec.weight_hh_l0.mul_(0.9)
        try_initial_h(wrapper)
    with torch.no_grad():
        for p in lm.parameters():
            p.copy_(p * 1.01)
    try_initial_h(wrapper)

    lm.vocab['</s>'], lm.vocab['<unk>'] = 1, 0               # another start symbol index
    try_initial_h(wrapper)
    try_initial_h(wrapper)
    lm.vocab['</s>'], lm.vocab['<unk>'] = 0, 1
    try_initial_h(wrapper)

    wrapper._lm = Lm(letters, kind)                          # LM replaced behind the wrapper's back
    try_initial_h(wrapper)
    try_initial_h(wrapper)
    wrapper._lm = lm
    try_initial_h(wrapper)
    wrapper._lm_device = torch.device('cpu')                 # device object replaced
    try_initial_h(wrapper)
    try_initial_h(wrapper)

    lm.float()                                               # weights re-created with another dtype
    try_initial_h(wrapper)
    try_initial_h(wrapper)
    lm.double()
    try_initial_h(wrapper)

# an LM that somebody switched to train() mode: dropout makes every call draw fresh random numbers
lm = Lm(letters, 'lstm', dropout=0.5)
wrapper = LMWrapper(lm, letters, device='cpu')
try_initial_h(wrapper)
try_initial_h(wrapper)
lm.train()
torch.manual_seed(5)
for rep in range(5):
    try_initial_h(wrapper)
feed(torch.rand(3, dtype=torch.float64))                     # the RNG has been consumed equally
lm.eval()
try_initial_h(wrapper)
try_initial_h(wrapper)

# weights created in inference mode
with torch.inference_mode():
    lm = Lm(letters, 'lstm')
wrapper = LMWrapper(lm, letters, device='cpu')
for rep in range(3):
    try_initial_h(wrapper)
with torch.inference_mode():
    for rep in range(2):
        try_initial_h(wrapper)
    lm.model.emb.weight[0, 0] = 3.0
    try_initial_h(wrapper)


# ------------------------------------------------------------------ (b) + (c) decoding
def random_logprobs(rng, nb_frames, nb_symbols, peakiness):
    raw = rng.normal(0, peakiness, size=(nb_frames, nb_symbols))
    raw[:, -1] += rng.normal(1.0, 2.0, size=nb_frames)
    for t in range(1, nb_frames):
        if rng.random() < 0.3:
            raw[t] = raw[t - 1] + rng.normal(0, 0.3, size=nb_symbols)
    return raw


def make_page(rng, page_no):
    page = PageLayout(id=f'page{page_no}', page_size=(100, 100))
    for r in range(int(rng.integers(0, 4)) if page_no % 5 else 0):        # every fifth page is empty
        region = RegionLayout(f'r{r}', np.asarray([[0, 0], [10, 0], [10, 10], [0, 10]]))
        for ln in range(int(rng.integers(0, 5))):
            nb_frames = int(rng.choice([1, 2, 4, 7, 12]))
            raw = random_logprobs(rng, nb_frames, len(symbols), float(rng.choice([1.0, 4.0, 12.0])))
            raw[np.abs(raw) < 0.3] = 0.0                     # sparse storage: zeros become -80 when densified
            if rng.random() < 0.15:
                raw[:, :-1] = 0.0                            # an all-blank line
                raw[:, -1] = 5.0
            line = TextLine(id=f'r{r}-l{ln}', logits=scipy.sparse.csc_matrix(raw.astype(np.float32)),
                            characters=letters, transcription=''.join(rng.choice(letters, size=int(rng.integers(0, 5)))))
            if rng.random() < 0.07:
                line.logits = None                           # line that cannot be decoded
            region.lines.append(line)
        page.regions.append(region)
    return page


def clone_page(page):
    new = PageLayout(id=page.id, page_size=page.page_size)
    for region in page.regions:
        new_region = RegionLayout(region.id, region.polygon.copy())
        for line in region.lines:
            new_region.lines.append(TextLine(id=line.id, logits=None if line.logits is None else line.logits.copy(),
                                             characters=line.characters, transcription=line.transcription))
        new.regions.append(new_region)
    return new


rng = np.random.default_rng(31)
pages = [make_page(rng, i) for i in range(12)]
lm = Lm(letters, 'lstm')
wrapper = LMWrapper(lm, letters, device='cpu')

# (b) one decoder, same lines again and again between other lines
decoder = CTCPrefixLogRawNumpyDecoder(symbols, 4, lm=wrapper, lm_scale=0.7, insertion_bonus=0.2)
all_lines = [line for page in pages for line in page.lines_iterator() if line.logits is not None]
for idx in rng.integers(0, len(all_lines), size=120):
    logits = all_lines[idx].get_full_logprobs()
    try:
        boh, h = decoder(logits, return_h=True, model_eos=bool(idx % 2))
        feed_h(h)
        for hyp in boh:
            feed(hyp.transcript, float(hyp.vis_sc), float(hyp.lm_sc))
    except Exception as e:
        feed('exception', type(e).__name__)

# (c) PageDecoder over histories
for conf_no, (carry, threshold, k) in enumerate([(False, None, 3), (True, None, 3), (False, 0.6, 2), (True, 0.6, 5),
                                                 (True, 0.0, 1), (False, float('inf'), 4), (True, 0.95, 8)]):
    decoder = CTCPrefixLogRawNumpyDecoder(symbols, k, lm=wrapper, lm_scale=1.0)
    page_decoder = PageDecoder(decoder, line_confidence_threshold=threshold, carry_h_over=carry)
    for seq_no in range(6):
        length = int(rng.integers(1, 9))
        sequence = rng.integers(0, len(pages), size=length)
        if seq_no == 0:
            sequence = np.asarray([3, 3, 3, 5, 3])                # repetitions
        for page_no in sequence:
            page = page_decoder.process_page(clone_page(pages[page_no]))
            counts['pages'] += 1
            feed(conf_no, seq_no, page.id)
            for line in page.lines_iterator():
                counts['lines_decoded'] += 1
                confidence = None if line.logits is None else float(PageParser.compute_line_confidence(line))
                feed(line.id, line.transcription, confidence)
    feed(page_decoder.lines_examined, page_decoder.lines_decoded)

print({k: v for k, v in counts.items() if k != 'lm_forward_calls'})
print('(LM forward passes: %d - informative only, not part of the digest)' % counts['lm_forward_calls'])
print('DIGEST', digest.hexdigest())
