"""Differential demo for change K (preallocated decoding buffers + vectorised postprocess_decoded in the engine).

Prints a digest of per-step scores / transcriptions / attention maps obtained from small random-weight
transformer recognisers.  The digest must be identical on the clean tree and with L/patch.diff applied.
"""
import contextlib
import hashlib
import io
import sys
import warnings

import numpy as np
import torch
import torchvision

warnings.filterwarnings('ignore')
torch.set_num_threads(1)

from pero_ocr.ocr_engine import transformer
from pero_ocr.ocr_engine.transformer_ocr_engine import TransformerEngineLineOCR

H = hashlib.sha256()
COUNTS = dict(batches=0, steps=0, finished_differently=0, capped=0, errors=0, postprocess_calls=0, empty_lines=0)


def feed(*items):
    for it in items:
        if isinstance(it, torch.Tensor):
            it = it.detach().cpu().contiguous().numpy()
        if isinstance(it, np.ndarray):
            H.update(str((it.dtype, it.shape)).encode())
            H.update(np.ascontiguousarray(it).tobytes())
        else:
            H.update(repr(it).encode())


class _FakeVGG:
    def __init__(self):
        self.features = [
            torch.nn.Conv2d(3, 4, 3, padding=1), torch.nn.ReLU(),
            torch.nn.MaxPool2d(2, 2),
            torch.nn.Conv2d(4, 6, 3, padding=1), torch.nn.ReLU(),
            torch.nn.MaxPool2d(2, 2),
        ] + [torch.nn.Identity()] * 20


class TinyFrontend(torch.nn.Module):
    """Cheap replacement of the VGG front-end (the changed code is in the decoder only)."""
    def __init__(self, dim_model):
        super().__init__()
        self.conv = torch.nn.Conv2d(3, dim_model, kernel_size=(16, 4), stride=(16, 4))

    def forward(self, x):
        return torch.squeeze(torch.tanh(self.conv(x)))


class ScheduledHead(torch.nn.Module):
    """Output projection with a deterministic per-step, per-line bonus, so that random-weight models emit varied
    symbols, ignore symbols, and end their lines at different steps (or never)."""
    def __init__(self, linear, stops, nsym, period):
        super().__init__()
        self.linear = linear
        self.stops = stops
        self.nsym = nsym
        self.period = period
        self.t = 0

    def forward(self, x):
        out = self.linear(x)
        bonus = torch.zeros_like(out)
        for b in range(out.shape[0]):
            stop = self.stops[b % len(self.stops)]
            if stop is not None and self.t >= stop:
                bonus[b, self.nsym] = 1000.0
            elif (self.t + b) % self.period == self.period - 1:
                bonus[b, self.nsym + 1] = 500.0   # ignore symbol
            else:
                bonus[b, (self.t * 3 + b) % self.nsym] = 500.0
        self.t += 1
        return out + bonus


def build(seed, dim_model, heads, dec_layers, enc_layers, nsym, max_seq_len=64, tiny=True):
    torch.manual_seed(seed)
    orig = torchvision.models.vgg16
    torchvision.models.vgg16 = lambda pretrained=True: _FakeVGG()
    try:
        with contextlib.redirect_stdout(io.StringIO()):
            net = transformer.build_net(dict(dim_model=dim_model, dim_ff=2 * dim_model, heads=heads,
                                             encoder_layers=enc_layers, decoder_layers=dec_layers,
                                             conv_subsampling=[4, 4]), 16, 3, nsym, max_seq_len=max_seq_len)
    finally:
        torchvision.models.vgg16 = orig
    if tiny:
        net.encoder_frontend = TinyFrontend(dim_model)
    net.eval()
    eng = object.__new__(TransformerEngineLineOCR)
    eng.net = net
    eng.device = torch.device('cpu')
    eng.characters = [chr(97 + i) for i in range(nsym)] + [u'​', '']
    eng.sentence_boundary_ind = nsym
    eng.ignore_ind = nsym + 1
    return eng


def images(rng, batch, width):
    x = rng.randint(0, 256, size=(batch, 3, 16, width)).astype(np.uint8)
    if batch > 1:
        x[1, :, :, width // 3:] = 0
    if batch > 2:
        x[2] = 255
    return x


def transcribe(eng, x, is_cached):
    buf = io.StringIO()
    with torch.no_grad(), contextlib.redirect_stdout(buf):
        outs, logits = eng.transcribe_batch(x, is_cached=is_cached)
    COUNTS['batches'] += 1
    COUNTS['steps'] += logits.shape[1]
    if 'way too long' in buf.getvalue():
        COUNTS['capped'] += 1
    ends = set()
    for row in logits.argmax(-1):
        pos = (row == eng.sentence_boundary_ind).nonzero().flatten().tolist()
        ends.add(pos[0] if pos else -1)
    if len(ends) > 1:
        COUNTS['finished_differently'] += 1
    COUNTS['empty_lines'] += sum(len(o) == 0 for o in outs)
    feed('T', is_cached, logits, [(o.dtype, o.device.type, tuple(o.shape), o.tolist()) for o in outs], eng.decode(outs), buf.getvalue())
    return outs, logits


def part_engine(rng):
    """Whole-engine decoding: sequences of batches through one model (stale caches), cached and recomputed."""
    configs = [(8, 1, 1), (8, 2, 2), (16, 4, 2), (16, 2, 3), (24, 3, 1), (32, 8, 2)]
    for ci, (dim, heads, layers) in enumerate(configs):
        nsym = 4 + ci
        eng = build(100 + ci, dim, heads, layers, 1, nsym)
        plain_head = eng.net.dec_out_proj
        schedule = [(3, 64), (1, 64), (3, 64), (4, 32), (2, 96), (4, 96), (1, 32), (2, 32), (3, 64)]
        for si, (batch, width) in enumerate(schedule):
            x = images(rng, batch, width)
            for is_cached in (True, False, True):
                eng.net.dec_out_proj = plain_head
                transcribe(eng, x, is_cached)
                for stops, period in (([2, 5, 0, 9], 4), ([None, 3, 7], 3), ([6], 5), ([0, 0, 0, 0], 2)):
                    eng.net.dec_out_proj = ScheduledHead(plain_head, stops, nsym, period)
                    transcribe(eng, x, is_cached)
            eng.net.dec_out_proj = plain_head
    # the real (VGG-like) convolutional front-end, incl. the batch-of-one squeeze path
    eng = build(7, 16, 4, 2, 1, 5, tiny=False)
    for batch, width in ((2, 64), (1, 64), (3, 32)):
        x = images(rng, batch, width)
        transcribe(eng, x, True)
        transcribe(eng, x, False)


def part_postprocess(rng):
    """postprocess_decoded / decode on their own: random symbol matrices with boundary and ignore symbols anywhere."""
    eng = build(1, 8, 1, 1, 1, 5)
    for case in range(400):
        batch = int(rng.randint(1, 6))
        length = int(rng.randint(0, 13))
        nsym = int(rng.randint(1, 6))
        boundary, ignore = nsym, nsym + 1
        if case % 50 == 49:
            ignore = boundary            # degenerate: the same index for both special symbols
        t = rng.randint(0, nsym + 2, size=(length, batch))
        if case % 7 == 0:
            t[:] = ignore                # nothing but ignore symbols
        if case % 11 == 0 and length:
            t[0] = boundary              # finished immediately
        if case % 13 == 0:
            t[t == boundary] = 0         # never finished
        dtype = (torch.long, torch.int32, torch.long)[case % 3]
        transcripts = torch.tensor(t, dtype=dtype).reshape(length, batch).permute(1, 0)
        before = transcripts.clone()
        outs = eng.postprocess_decoded(transcripts, ignore, boundary)
        assert torch.equal(before, transcripts)
        for o in outs:
            assert o.data_ptr() != transcripts.data_ptr() or o.numel() == 0
        COUNTS['postprocess_calls'] += 1
        COUNTS['empty_lines'] += sum(len(o) == 0 for o in outs)
        eng.characters = [chr(65 + i) for i in range(nsym)] + ['|', '']
        feed('P', case, [(o.dtype, o.device.type, tuple(o.shape), o.tolist()) for o in outs], eng.decode(outs))
        for o in outs:
            for sym in o.tolist():
                assert sym != boundary and sym != ignore


def part_run_ocr(rng):
    """run_ocr (padding to 1088 px, cached decoding, conversion to strings), decoder length cap, grad mode."""
    eng = build(11, 16, 2, 2, 1, 6, max_seq_len=300)
    plain_head = eng.net.dec_out_proj
    for batch, width, stops in ((2, 64, [5, 9]), (3, 1088, [0, 30, 12]), (1, 1120, [40]), (4, 96, [None, 2, 2, 7]),
                                (2, 1184, [None, None])):
        x = np.ascontiguousarray(images(rng, batch, width).transpose(0, 2, 3, 1))
        eng.net.dec_out_proj = ScheduledHead(plain_head, stops, 6, 4)
        buf = io.StringIO()
        try:
            with contextlib.redirect_stdout(buf):
                decoded, logits = eng.run_ocr(x)
            feed('R', decoded, logits, buf.getvalue())
            COUNTS['batches'] += 1
            COUNTS['steps'] += logits.shape[1]
        except Exception as e:
            COUNTS['errors'] += 1
            feed('RE', type(e).__name__, buf.getvalue())
    # decoder length cap (max_seq_len) reached before the engine's own cap
    eng = build(12, 8, 2, 1, 1, 4, max_seq_len=10)
    eng.net.dec_out_proj = ScheduledHead(eng.net.dec_out_proj, [None, 3], 4, 3)
    for is_cached in (True, False):
        try:
            with contextlib.redirect_stdout(io.StringIO()):
                eng.transcribe_batch(images(rng, 2, 64), is_cached=is_cached)
            feed('no error')
        except Exception as e:
            COUNTS['errors'] += 1
            feed('CE', type(e).__name__)
    # very narrow lines: cap after the very first step(s)
    eng = build(13, 8, 2, 1, 1, 4)
    plain_head = eng.net.dec_out_proj
    for width in (8, 12, 16, 20):
        for stops in ([None, None], [0, 0], [1, None], [0, None]):
            eng.net.dec_out_proj = ScheduledHead(plain_head, stops, 4, 3)
            transcribe(eng, images(rng, 2, width), True)
            eng.net.dec_out_proj = ScheduledHead(plain_head, stops, 4, 3)
            transcribe(eng, images(rng, 2, width), False)
    # without torch.no_grad()
    eng.net.dec_out_proj = ScheduledHead(plain_head, [3, 6, None], 4, 3)
    with contextlib.redirect_stdout(io.StringIO()):
        outs, logits = eng.transcribe_batch(images(rng, 3, 32), is_cached=True)
    feed('G', logits, [o.tolist() for o in outs], logits.requires_grad)


def main():
    rng = np.random.RandomState(54321)
    part_engine(rng)
    part_postprocess(rng)
    part_run_ocr(rng)
    print('coverage:', COUNTS)
    print('digest:', H.hexdigest())


if __name__ == '__main__':
    main()
    sys.exit(0)
