#!/usr/bin/env python
"""Differential test for property C09 (saved logits restore exactly; saved artefacts
suffice to rebuild outputs).

First run (clean tree): writes reference.json next to this file and prints REFERENCE WRITTEN.
Later runs: recompute everything and compare against reference.json with explicit tolerances
(1e-9 for float64 data, 1e-6 for float32 data, measured relative to the magnitude of the numbers
entering the computation, i.e. max(|value|, max |logit| of the row) -- log-softmax subtracts two
numbers of logit magnitude, so the round-off of the result is relative to that magnitude).
Prints MATCH (exit 0) or DIFFERENT: <what> (exit 1).
"""
import itertools
import json
import os
import re
import sys
import tempfile
import warnings

import numpy as np
import scipy.sparse as sp

from pero_ocr.core.layout import PageLayout, RegionLayout, TextLine
from pero_ocr.document_ocr.page_parser import PageDecoder
from pero_ocr.decoding.decoders import GreedyDecoder, BLANK_SYMBOL

HERE = os.path.dirname(os.path.abspath(__file__))
REF = os.path.join(HERE, 'reference.json')

TOL = {'float32': 1e-6, 'float64': 1e-9}
ALPHABET = list('abcdefghijklmnopqrstuvwxyz ABCDEFGH')


# --------------------------------------------------------------------------- generators
def random_sparse(rng, T, C, dtype, density, scale):
    dense = (rng.standard_normal((T, C)) * scale).astype(dtype)
    dense[dense == 0] = dtype(0.5)              # no stored entry is exactly 0.0
    keep = rng.random((T, C)) < density
    dense = np.where(keep, dense, dtype(0))
    m = sp.csc_matrix(dense)
    assert m.dtype == dtype
    return m


def peaked_sparse(rng, T, C, dtype, peak_hi=25):
    """OCR-like output: one dominant class per frame, a few runners-up, rest pruned."""
    dense = np.zeros((T, C), dtype=dtype)
    for t in range(T):
        k = int(rng.integers(0, C))
        dense[t, k] = dtype(rng.uniform(5, peak_hi))
        for j in rng.choice(C, size=min(C, 2), replace=False):
            if dense[t, j] == 0:
                dense[t, j] = dtype(rng.uniform(-12, 4)) or dtype(-1)
    return sp.csc_matrix(dense)


def make_charset(rng, C):
    """C outputs -> C-1 letters + blank (blank must be last for the decoders)."""
    letters = list(rng.permutation(ALPHABET)[:C - 1])
    return [str(x) for x in letters] + [BLANK_SYMBOL]


def make_line(rng, line_id, T, C, dtype, kind, y):
    if kind == 'peaked':
        # float32 peaks are kept small so that GreedyDecoder's normalisation check (1e-5) is never
        # a knife-edge decision at float32 round-off level
        logits = peaked_sparse(rng, T, C, dtype, peak_hi=12 if dtype == np.float32 else 25)
    else:
        scales = [1.0, 5.0] if dtype == np.float32 else [1.0, 10.0, 60.0]
        logits = random_sparse(rng, T, C, dtype, density=float(rng.choice([0.0, 0.15, 0.5, 1.0])),
                               scale=float(rng.choice(scales)))
    if rng.random() < 0.5 or T == 0:
        coords = [None, None]
    else:
        a = int(rng.integers(0, max(1, T // 3)))
        b = int(rng.integers(a + 1, T + 1))
        coords = [a, b]
    x0, x1 = 20, 20 + 30 * max(T, 1)
    baseline = np.array([[x0, y], [(x0 + x1) // 2, y + 1], [x1, y]], dtype=np.float64)
    heights = [12.0, 5.0]
    polygon = np.array([[x0, y - 12], [x1, y - 12], [x1, y + 5], [x0, y + 5]], dtype=np.float64)
    return TextLine(id=line_id, baseline=baseline, polygon=polygon, heights=heights,
                    logits=logits, characters=make_charset(rng, C), logit_coords=coords,
                    transcription='')


def make_page(rng, page_no):
    n_regions = int(rng.integers(0, 4))
    page = PageLayout(id='page{}.jpg'.format(page_no), page_size=(2000, 1500))
    y = 100
    n = 0
    for r in range(n_regions):
        region = RegionLayout('r{}'.format(r), np.array([[10, y - 20], [1400, y - 20], [1400, y + 400], [10, y + 400]]))
        for _ in range(int(rng.integers(0, 4))):
            dtype = np.float32 if rng.random() < 0.6 else np.float64
            T = int(rng.integers(1, 14))
            C = int(rng.integers(2, 10))
            kind = 'peaked' if rng.random() < 0.7 else 'random'
            region.lines.append(make_line(rng, 'r{}-l{:03d}'.format(r, n), T, C, dtype, kind, y))
            n += 1
            y += 60
        page.regions.append(region)
        y += 80
    return page


# --------------------------------------------------------------------------- helpers
def arr(a):
    a = np.asarray(a)
    return {'dtype': str(a.dtype), 'shape': list(a.shape), 'data': [float(v) for v in a.ravel()]}


def sparse_desc(m):
    if m is None:
        return None
    if isinstance(m, dict):
        return {'dict with keys': sorted(map(str, m.keys()))}
    if not sp.issparse(m):
        return repr(m)
    c = m.tocoo()
    order = np.lexsort((c.col, c.row))
    return {'format': m.format, 'dtype': str(m.dtype), 'shape': list(m.shape),
            'row': [int(v) for v in c.row[order]], 'col': [int(v) for v in c.col[order]],
            'data': [float(v) for v in c.data[order]]}


def line_state(line):
    return {'id': line.id, 'logits': sparse_desc(line.logits), 'characters': line.characters,
            'logit_coords': line.logit_coords}


def greedy(line):
    lp = line.get_full_logprobs()
    am = lp.argmax(axis=1)
    reduced = [g[0] for g in itertools.groupby(am)]
    blank = lp.shape[1] - 1
    return ''.join(line.characters[i] for i in reduced if i != blank)


def alto_text(page):
    with warnings.catch_warnings():
        warnings.simplefilter('ignore')
        s = page.to_altoxml_string()
    lines = []
    for tl in re.findall(r'<TextLine.*?</TextLine>', s, flags=re.S):
        lines.append(re.findall(r'<String[^>]*CONTENT="([^"]*)"', tl))
    return lines


def decode_page(page):
    # charsets differ per line in this demo, so the greedy decoder is built per line
    out = []
    for line in page.lines_iterator():
        dec = PageDecoder(GreedyDecoder(line.characters), line_confidence_threshold=None)
        try:
            out.append(dec.decode_line(line))
        except Exception as e:
            out.append('ERROR ' + type(e).__name__)
        line.transcription = out[-1]
    return out


def rebuild(page, blob):
    new = PageLayout()
    new.from_pagexml_string(page.to_pagexml_string())
    new.load_logits(blob)
    return new


# --------------------------------------------------------------------------- the experiment
def run():
    import logging
    logging.disable(logging.CRITICAL)
    rng = np.random.default_rng(20240909)
    import pickle
    out = {'matrices': [], 'pages': [], 'errors': [], 'internal': []}
    internal = out['internal']

    # (1) dense reconstruction / log-probabilities on stand-alone sparse matrices of any shape
    shapes = [(0, 0), (0, 5), (4, 0), (1, 1), (1, 7), (9, 1)]
    for i in range(260):
        dtype = np.float32 if i % 2 else np.float64
        if i < len(shapes) * 2:
            T, C = shapes[i // 2]
        else:
            T, C = int(rng.integers(0, 13)), int(rng.integers(1, 10))
        if i % 3 == 0:
            m = peaked_sparse(rng, T, C, dtype) if C else random_sparse(rng, T, C, dtype, 0.5, 1.0)
        else:
            m = random_sparse(rng, T, C, dtype, float(rng.choice([0.0, 0.1, 0.5, 1.0])),
                              float(rng.choice([0.5, 10.0, 100.0, 700.0])))
        if i % 7 == 0:
            m = m.tocsr()
        line = TextLine(id='m{}'.format(i), logits=m)
        floor = [-80, -50.0, -1000][i % 3]
        dense = line.get_dense_logits(floor)
        again = line.get_dense_logits(floor)
        if dense is again or np.shares_memory(dense, again):
            internal.append('get_dense_logits returns aliased arrays (case {})'.format(i))
        lp = line.get_full_logprobs(floor)
        rec = {'floor': floor, 'sparse': sparse_desc(m), 'dense': arr(dense), 'logprobs': arr(lp)}
        # statement-level checks, independent of the reference
        stored = m.toarray()
        mask = stored != 0
        if not np.array_equal(dense[mask], stored[mask]):
            internal.append('stored logit changed by dense reconstruction (case {})'.format(i))
        if not np.all(dense[~mask] == floor):
            internal.append('pruned entry is not the floor value (case {})'.format(i))
        if lp.size:
            dev = np.abs(np.log(np.sum(np.exp(lp.astype(np.float64)), axis=1)))
            # round-off of x - logsumexp(x) is relative to the magnitude of the logits
            if dev.max() > 16 * np.finfo(dtype).eps * max(1.0, float(np.abs(dense).max())):
                internal.append('log-probabilities not row-normalised (case {}): {}'.format(i, dev.max()))
        if sparse_desc(line.logits) != rec['sparse']:
            internal.append('reconstruction modified the stored sparse matrix (case {})'.format(i))
        out['matrices'].append(rec)

    # (2) whole pages: save -> (PAGE XML + logits) -> rebuild -> decode -> ALTO
    tmpdir = tempfile.mkdtemp(prefix='c09demo')
    for p in range(70):
        page = make_page(rng, p)
        lines = list(page.lines_iterator())
        path = os.path.join(tmpdir, 'p{}.logits'.format(p))
        page.save_logits(path)
        blob = page.save_logits_bytes()
        with open(path, 'rb') as f:
            import pickle
            on_disk = pickle.load(f)
        in_mem = pickle.loads(blob)
        rec = {'n_lines': len(lines),
               'file_keys': sorted(map(str, on_disk.keys())),       # key ORDER is not fixed by the statement
               'bytes_keys': sorted(map(str, in_mem.keys())),
               'meta_keys': [sorted(on_disk['line_characters']), sorted(on_disk['logit_coords'])]}

        orig_trans = decode_page(page)
        orig_alto = alto_text(page)
        rec['transcriptions'] = orig_trans
        rec['alto'] = orig_alto
        rec['greedy'] = [greedy(l) for l in lines]
        rec['logprobs'] = [arr(l.get_full_logprobs()) for l in lines]
        rec['maxabs'] = [float(np.max(np.abs(l.get_dense_logits()), initial=0)) for l in lines]

        for variant, source in (('path', path), ('bytes', blob)):
            new = rebuild(page, source)
            # transcriptions come from the PAGE XML; they are recomputed below
            new_lines = list(new.lines_iterator())
            if [line_state(l) for l in new_lines] != [line_state(l) for l in lines]:
                internal.append('page {} ({}): restored logits/characters/coords differ'.format(p, variant))
            for a, b in zip(new_lines, lines):
                if a.logits is not None and (a.logits.dtype != b.logits.dtype or a.logits.shape != b.logits.shape):
                    internal.append('page {} ({}): dtype/shape differ'.format(p, variant))
            for l in new_lines:
                l.transcription = None
            if decode_page(new) != orig_trans:
                internal.append('page {} ({}): rebuilt layout decodes differently'.format(p, variant))
            if alto_text(new) != orig_alto:
                internal.append('page {} ({}): rebuilt layout exports different ALTO text'.format(p, variant))

        # partial files: subset / superset of the line ids
        if lines:
            keep = [l for k, l in enumerate(lines) if k % 2 == 0]
            sub = PageLayout(id='sub', page_size=(10, 10))
            reg = RegionLayout('r', np.zeros((4, 2)))
            reg.lines = [TextLine(id=l.id, logits=l.logits, characters=l.characters, logit_coords=l.logit_coords)
                         for l in keep]
            reg.lines.append(TextLine(id='not-in-target', logits=lines[0].logits, characters=['x', BLANK_SYMBOL],
                                      logit_coords=[None, None]))
            sub.regions.append(reg)
            target = PageLayout()
            target.from_pagexml_string(page.to_pagexml_string())
            sentinel = sp.csc_matrix(np.array([[1.5, -2.5]]))
            for l in target.lines_iterator():
                l.logits, l.characters, l.logit_coords = sentinel, ['s', BLANK_SYMBOL], [3, 4]
            target.load_logits(sub.save_logits_bytes())
            states = []
            for k, l in enumerate(target.lines_iterator()):
                if k % 2 == 0:
                    ok = line_state(l) == line_state(lines[k])
                else:
                    ok = l.logits is sentinel and l.characters == ['s', BLANK_SYMBOL] and l.logit_coords == [3, 4]
                if not ok:
                    internal.append('page {}: partial file handled wrongly for line {}'.format(p, l.id))
                states.append(line_state(l))
            rec['partial'] = states

        # old-format files (no character table / no frame windows)
        legacy = {l.id: l.logits for l in lines}
        target = PageLayout()
        target.from_pagexml_string(page.to_pagexml_string())
        target.load_logits(pickle.dumps(legacy))
        rec['legacy'] = [line_state(l) for l in target.lines_iterator()]
        coords_objs = [id(l.logit_coords) for l in target.lines_iterator()]
        rec['legacy_coords_distinct'] = len(set(coords_objs)) == len(coords_objs)
        out['pages'].append(rec)

    # (3) a missing component is reported, not saved silently
    for p in range(40):
        page = make_page(rng, 1000 + p)
        lines = list(page.lines_iterator())
        if not lines:
            continue
        victims = rng.choice(len(lines), size=int(rng.integers(1, len(lines) + 1)), replace=False)
        for v in victims:
            setattr(lines[int(v)], str(rng.choice(['logits', 'characters', 'logit_coords'])), None)
        rec = {'victims': sorted(int(v) for v in victims)}
        for name, call in (('path', lambda: page.save_logits(os.path.join(tmpdir, 'bad.logits'))),
                           ('bytes', lambda: page.save_logits_bytes())):
            try:
                call()
                rec[name] = 'NO ERROR'
                internal.append('missing component saved silently')
            except Exception as e:
                rec[name] = '{}: {}'.format(type(e).__name__, e)
        blob = page.save_logits_bytes(missing_line_logits_ok=True)
        d = pickle.loads(blob)
        rec['ok_keys'] = sorted(map(str, d.keys()))
        rec['ok_none'] = sorted(str(k) for k, v in d.items() if v is None)
        target = PageLayout()
        target.from_pagexml_string(page.to_pagexml_string())
        target.load_logits(blob)
        rec['ok_loaded'] = [line_state(l) for l in target.lines_iterator()]
        out['errors'].append(rec)

    # (4) odd line ids: duplicates, None, ids colliding with the two header keys, shared character tables
    id_sets = [['a', 'a', 'b'], ['a', 'b', 'a', 'a'], [None, 'x'], ['line_characters', 'k1', 'k2'],
               ['k1', 'logit_coords'], ['logit_coords', 'line_characters'], ['k1', 'line_characters', 'k1'], []]
    out['ids'] = []
    for n, ids in enumerate(id_sets):
        for split in range(len(ids) + 1):
            shared = ['q', 'w', BLANK_SYMBOL]
            def build(fill):
                page = PageLayout(id='ids', page_size=(10, 10))
                r1, r2 = RegionLayout('r1', np.zeros((4, 2))), RegionLayout('r2', np.zeros((4, 2)))
                for k, line_id in enumerate(ids):
                    line = TextLine(id=line_id)
                    if fill:
                        line.logits = random_sparse(rng, 3 + k, 3, np.float64, 0.7, 5.0)
                        line.characters = shared
                        line.logit_coords = [k, k + 2]
                    (r1 if k < split else r2).lines.append(line)
                page.regions = [r1, r2]
                return page
            src = build(True)
            rec = {'ids': [str(i) for i in ids], 'split': split}
            saved = {}
            for name, blob in (('bytes', src.save_logits_bytes()),):
                d = pickle.loads(blob)
                saved = d
                rec['saved'] = sorted((str(k), json.dumps(sparse_desc(v), sort_keys=True)) for k, v in d.items())
                rec['saved_chars'] = sorted((str(k), v) for k, v in d['line_characters'].items())
                rec['saved_coords'] = sorted((str(k), v) for k, v in d['logit_coords'].items())
                rec['shared_after_load'] = len({id(v) for v in d['line_characters'].values()}) <= 1
            path = os.path.join(tmpdir, 'ids.logits')
            src.save_logits(path)
            for name, source in (('bytes', src.save_logits_bytes()), ('path', path)):
                dst = build(False)
                try:
                    dst.load_logits(source)
                    rec['load_' + name] = 'ok'
                except Exception as e:
                    rec['load_' + name] = '{}: {}'.format(type(e).__name__, e)
                rec['state_' + name] = [line_state(l) for l in dst.lines_iterator()]
            # half-legacy files: only one of the two headers present
            for drop in ('line_characters', 'logit_coords'):
                d = dict(saved)
                del d[drop]
                dst = build(False)
                try:
                    dst.load_logits(pickle.dumps(d))
                    rec['half_' + drop] = 'ok'
                except Exception as e:
                    rec['half_' + drop] = '{}: {}'.format(type(e).__name__, e)
                rec['half_state_' + drop] = [line_state(l) for l in dst.lines_iterator()]
            out['ids'].append(rec)

    # loading a well-formed file into a layout that has a line named like a header key: the load fails
    # half-way; which lines were already restored at that point must not change either
    for target_ids in (['k1', 'line_characters', 'k2'], ['logit_coords', 'k1'], ['k2', 'k1', 'line_characters']):
        src = PageLayout(id='src', page_size=(10, 10))
        reg = RegionLayout('r', np.zeros((4, 2)))
        reg.lines = [TextLine(id=i, logits=random_sparse(rng, 4, 3, np.float32, 0.6, 3.0),
                              characters=['a', 'b', BLANK_SYMBOL], logit_coords=[None, None]) for i in ('k1', 'k2')]
        src.regions = [reg]
        dst = PageLayout(id='dst', page_size=(10, 10))
        reg = RegionLayout('r', np.zeros((4, 2)))
        reg.lines = [TextLine(id=i) for i in target_ids]
        dst.regions = [reg]
        rec = {'ids': target_ids, 'split': -1}
        try:
            dst.load_logits(src.save_logits_bytes())
            rec['load'] = 'ok'
        except Exception as e:
            rec['load'] = '{}: {}'.format(type(e).__name__, e)
        rec['state'] = [line_state(l) for l in dst.lines_iterator()]
        out['ids'].append(rec)

    for fn in os.listdir(tmpdir):
        os.remove(os.path.join(tmpdir, fn))
    os.rmdir(tmpdir)
    return out


# --------------------------------------------------------------------------- comparison
class Diff(Exception):
    pass


def cmp_arr(where, ref, new, scale=None):
    if ref['dtype'] != new['dtype'] or ref['shape'] != new['shape']:
        raise Diff('{}: dtype/shape {} {} vs {} {}'.format(where, ref['dtype'], ref['shape'], new['dtype'], new['shape']))
    a = np.array(ref['data'], dtype=np.float64).reshape(ref['shape'])
    b = np.array(new['data'], dtype=np.float64).reshape(new['shape'])
    if a.size == 0:
        return
    tol = TOL.get(ref['dtype'], 1e-9)
    if np.isnan(a).any() or np.isnan(b).any() or not np.array_equal(np.isinf(a), np.isinf(b)):
        raise Diff('{}: non-finite values differ'.format(where))
    mag = np.maximum(np.abs(a), np.abs(b))
    if scale is not None:
        mag = np.maximum(mag, scale)
    err = np.abs(a - b)
    bad = err > tol * mag
    if bad.any():
        k = np.unravel_index(np.argmax(err / np.maximum(mag, 1e-300)), a.shape)
        raise Diff('{}: |{!r} - {!r}| exceeds {} relative at index {}'.format(where, a[k], b[k], tol, k))


def compare(ref, new):
    if len(ref['matrices']) != len(new['matrices']):
        raise Diff('number of matrix cases')
    for i, (r, n) in enumerate(zip(ref['matrices'], new['matrices'])):
        if r['sparse'] != n['sparse'] or r['floor'] != n['floor']:
            raise Diff('matrix case {}: generated input differs (demo not deterministic?)'.format(i))
        cmp_arr('matrix case {} dense'.format(i), r['dense'], n['dense'])
        d = np.array(r['dense']['data']).reshape(r['dense']['shape'])
        scale = np.max(np.abs(d), axis=1, keepdims=True) if d.size else None
        cmp_arr('matrix case {} logprobs'.format(i), r['logprobs'], n['logprobs'], scale)
    if len(ref['pages']) != len(new['pages']):
        raise Diff('number of pages')
    for p, (r, n) in enumerate(zip(ref['pages'], new['pages'])):
        for key in r:
            if key == 'logprobs':
                for k, (a, b) in enumerate(zip(r[key], n[key])):
                    cmp_arr('page {} line {} logprobs'.format(p, k), a, b, r['maxabs'][k])
            elif key in ('file_keys', 'bytes_keys'):
                if set(r[key]) != set(n[key]):        # compared as sets: order is left open
                    raise Diff('page {}: {} differ'.format(p, key))
            elif r[key] != n.get(key):
                raise Diff('page {}: {} differ: {!r} vs {!r}'.format(p, key, r[key], n.get(key)))
    if ref.get('ids') != new.get('ids'):
        for k, (a, b) in enumerate(zip(ref['ids'], new['ids'])):
            for key in a:
                if a[key] != b.get(key):
                    raise Diff('odd-id case {} ({}): {}: {!r} vs {!r}'.format(k, a['ids'], key, a[key], b.get(key)))
        raise Diff('odd-id cases')
    if ref['errors'] != new['errors']:
        for k, (a, b) in enumerate(zip(ref['errors'], new['errors'])):
            if a != b:
                raise Diff('missing-component case {}: {!r} vs {!r}'.format(k, a, b))
        raise Diff('missing-component cases')


def main():
    out = run()
    if out['internal']:
        print('DIFFERENT: property violated within this run: ' + '; '.join(out['internal'][:5]))
        return 1
    out = json.loads(json.dumps(out))
    if not os.path.exists(REF):
        with open(REF, 'w') as f:
            json.dump(out, f)
        print('REFERENCE WRITTEN: {} ({} matrices, {} pages, {} missing-component cases)'.format(
            REF, len(out['matrices']), len(out['pages']), len(out['errors'])))
        return 0
    with open(REF) as f:
        ref = json.load(f)
    try:
        compare(ref, out)
    except Diff as e:
        print('DIFFERENT: {}'.format(e))
        return 1
    print('MATCH')
    return 0


if __name__ == '__main__':
    sys.exit(main())
