#!/usr/bin/env python
"""Differential test for the CTC prefix beam search decoder (property C02).

First run (on the clean tree) writes reference.json next to this file.
Later runs compare the current results with the reference using explicit tolerances
and print `MATCH` (exit 0) or `DIFFERENT: <what>` (exit 1).

Comparison rules
  * unnormalised input: both must raise ValueError;
  * otherwise the bag of hypotheses is compared as a mapping transcript -> visual score
    (order of hypotheses with equal score is not fixed by the statement), scores must agree
    to 1e-9 relative (1e-6 for float32 input), and the bag must be sorted by score;
  * if, in some frame, the k-th and (k+1)-th best candidates are tied (to within round-off), the
    statement does not say which of them survives the pruning.  Such runs are detected (on the reference
    run and on the current run) by watching the arguments of `top_k`, and for them only the
    tie-independent part of the statement is checked: distinct transcripts, at most k of them,
    sorted, and no score above the true CTC log-probability of its transcript.
"""
import json
import os
import sys

import numpy as np

import pero_ocr.decoding.decoders as decoders
from pero_ocr.decoding.decoders import CTCPrefixLogRawNumpyDecoder, BLANK_SYMBOL

HERE = os.path.dirname(os.path.abspath(__file__))
REFERENCE = os.path.join(HERE, 'reference.json')

RTOL64 = 1e-9
RTOL32 = 1e-6
TIE_TOL = 1e-9

ALPHABET = ['a', 'b', 'c', 'd', 'e', 'f']


# --------------------------------------------------------------------------------------
# watching the pruning step for ties on the beam boundary
# --------------------------------------------------------------------------------------
class TieWatch:
    def __init__(self, original):
        self.original = original
        self.boundary_tie = False

    def __call__(self, a, k, reverse=False):
        flat = np.sort(np.asarray(a, dtype=np.float64).ravel())
        if reverse:
            flat = flat[::-1]
        k_int = int(k)
        if 0 < k_int < len(flat):
            inside, outside = flat[k_int - 1], flat[k_int]
            if np.isfinite(inside) and np.isfinite(outside):
                if abs(inside - outside) <= TIE_TOL * max(1.0, abs(inside)):
                    self.boundary_tie = True
        return self.original(a, k, reverse=reverse)


# --------------------------------------------------------------------------------------
# selectors
# --------------------------------------------------------------------------------------
def select_all(logits):
    return (np.arange(logits.shape[0]),)


def select_nonzero_prob(logits):
    return np.nonzero(logits > -np.inf)


SELECTORS = {
    'default': decoders.select_relevant_logits,
    'all': select_all,
    'nonzero': select_nonzero_prob,
}


# --------------------------------------------------------------------------------------
# true CTC log-probability of a transcript (standard forward algorithm)
# --------------------------------------------------------------------------------------
def ctc_logprob(logits, labels):
    logits = np.asarray(logits, dtype=np.float64)
    T, C = logits.shape
    blank = C - 1
    ext = [blank]
    for l in labels:
        ext += [l, blank]
    S = len(ext)
    alpha = np.full(S, -np.inf)
    alpha[0] = logits[0, blank]
    if S > 1:
        alpha[1] = logits[0, ext[1]]
    for t in range(1, T):
        new = np.full(S, -np.inf)
        for s in range(S):
            acc = alpha[s]
            if s >= 1:
                acc = np.logaddexp(acc, alpha[s - 1])
            if s >= 2 and ext[s] != blank and ext[s] != ext[s - 2]:
                acc = np.logaddexp(acc, alpha[s - 2])
            new[s] = acc + logits[t, ext[s]]
        alpha = new
    res = alpha[S - 1]
    if S > 1:
        res = np.logaddexp(res, alpha[S - 2])
    return float(res)


# --------------------------------------------------------------------------------------
# inputs
# --------------------------------------------------------------------------------------
def log_rows(probs, dtype=np.float64):
    probs = np.asarray(probs, dtype=np.float64)
    probs = probs / probs.sum(axis=1, keepdims=True)
    with np.errstate(divide='ignore'):
        return np.log(probs).astype(dtype)


def peaked(T, C, path, eps=1e-7):
    # distinct background values, so that the background symbols are not tied with each other
    probs = eps * (1.0 + 0.37 * np.arange(C)[np.newaxis, :] + 0.11 * np.arange(T)[:, np.newaxis])
    for t, c in enumerate(path):
        probs[t, c] = 1.0
    return log_rows(probs)


def make_inputs():
    rng = np.random.RandomState(20260205)
    inputs = []

    # random dense matrices
    for i in range(60):
        T = rng.randint(1, 7)
        C = rng.randint(2, 6)
        conc = [0.3, 1.0, 5.0][i % 3]
        inputs.append(('dirichlet%d' % i, log_rows(rng.dirichlet([conc] * C, size=T))))

    # float32 data
    for i in range(12):
        T = rng.randint(1, 6)
        C = rng.randint(2, 6)
        inputs.append(('float32_%d' % i, log_rows(rng.dirichlet([1.0] * C, size=T), dtype=np.float32)))

    # random matrices with many symbols below the pre-selection threshold
    for i in range(20):
        T = rng.randint(2, 7)
        C = rng.randint(3, 6)
        probs = rng.dirichlet([1.0] * C, size=T)
        mask = rng.rand(T, C) < 0.4
        probs = np.where(mask, probs * 1e-6, probs)
        inputs.append(('sparse%d' % i, log_rows(probs)))

    # exact zeros (-inf log-probabilities)
    for i in range(12):
        T = rng.randint(2, 6)
        C = rng.randint(3, 6)
        probs = rng.dirichlet([1.0] * C, size=T)
        mask = rng.rand(T, C) < 0.3
        mask[np.arange(T), rng.randint(0, C, size=T)] = False
        probs = np.where(mask, 0.0, probs)
        inputs.append(('zeros%d' % i, log_rows(probs)))

    # ties
    for T in (1, 2, 3, 4):
        for C in (2, 3, 4):
            inputs.append(('uniform_T%d_C%d' % (T, C), log_rows(np.ones((T, C)))))
    for i in range(8):
        T = rng.randint(2, 6)
        base = rng.dirichlet([1.0] * 3, size=T)
        probs = np.stack([base[:, 0], base[:, 0], base[:, 1], base[:, 2]], axis=1)  # 'a' and 'b' are twins
        inputs.append(('twins%d' % i, log_rows(probs)))
    inputs.append(('halves', log_rows([[0.5, 0.0, 0.5], [0.5, 0.0, 0.5], [0.25, 0.25, 0.5]])))
    inputs.append(('quarters', log_rows([[0.25, 0.25, 0.5], [0.25, 0.25, 0.5], [0.25, 0.25, 0.5], [0.25, 0.25, 0.5]])))

    # near-deterministic rows; repeated symbols with and without a separating blank
    B = 3
    paths = {
        'a': [0], 'blank': [B], 'aa_no_blank': [0, 0], 'a_blank_a': [0, B, 0], 'ab': [0, 1],
        'aab': [0, 0, 1], 'a_blank_a_a': [0, B, 0, 0], 'abab': [0, 1, 0, 1], 'a_bl_bl_a': [0, B, B, 0],
        'blanks': [B, B, B], 'aaa_bl': [0, 0, 0, B], 'abcabc': [0, 1, 2, 0, 1, 2],
    }
    for name, path in paths.items():
        inputs.append(('peaked_' + name, peaked(len(path), 4, path)))
        inputs.append(('softpeak_' + name, peaked(len(path), 4, path, eps=0.05)))
    inputs.append(('suite_regression', np.asarray([
        [-80.0, -80.0, -80.0, 0.0], [0, -80.0, -80.0, -80.0], [-80.0, -80.0, -80.0, 0.0], [0, -80.0, -80.0, -80.0]])))

    # rows in which every non-blank symbol is below the pre-selection threshold of -10
    low = np.log(1e-6)
    row_low = [low, low + 0.5, low - 0.25, np.log(1 - 1e-6 * (1 + np.exp(0.5) + np.exp(-0.25)))]
    for i in range(8):
        T = rng.randint(2, 6)
        m = log_rows(rng.dirichlet([1.0] * 4, size=T))
        for t in range(T):
            if rng.rand() < 0.5:
                m[t] = row_low
        if i == 0:
            m[:] = row_low
        if i == 1:
            m[0] = row_low
        if i == 2:
            m[-1] = row_low
        inputs.append(('lowrows%d' % i, m))
    # a repeated symbol whose second occurrence is below the threshold
    inputs.append(('low_repeat', log_rows([[0.6, 0.1, 0.3], [1e-6, 1e-6, 1.0], [0.6, 0.1, 0.3], [1e-7, 0.5, 0.5]])))

    # unnormalised inputs: must be rejected
    inputs.append(('unnorm_scaled', log_rows(rng.dirichlet([1.0] * 4, size=3)) + 0.01))
    inputs.append(('unnorm_raw', rng.randn(4, 4)))
    inputs.append(('unnorm_one_row', np.vstack([log_rows(rng.dirichlet([1.0] * 3, size=2)), [[-1.0, -1.0, -1.0]]])))
    inputs.append(('unnorm_tests', np.asarray([[-10.0, -80.0, -80.0, -10.0]])))

    return inputs


def make_cases():
    cases = []
    for name, logits in make_inputs():
        for k in (1, 2, 3, 5, 1000):
            for sel in ('default', 'all', 'nonzero'):
                if name.startswith('unnorm') and (k not in (1, 3) or sel == 'nonzero'):
                    continue
                cases.append(('%s|k=%d|%s' % (name, k, sel), logits, k, sel))
    return cases


# --------------------------------------------------------------------------------------
# running
# --------------------------------------------------------------------------------------
def run_case(logits, k, sel):
    C = logits.shape[1]
    letters = ALPHABET[:C - 1] + [BLANK_SYMBOL]
    decoder = CTCPrefixLogRawNumpyDecoder(letters, k=k, relevant_logits_selector=SELECTORS[sel])

    watch = TieWatch(decoders.top_k)
    decoders.top_k = watch
    try:
        with np.errstate(all='ignore'):
            original = logits.copy()
            try:
                boh = decoder(logits)
            except ValueError:
                return {'raises': 'ValueError'}
            if not np.array_equal(original, logits, equal_nan=True):
                return {'raises': 'INPUT MODIFIED'}
    finally:
        decoders.top_k = watch.original

    hyps = [[h.transcript, float(h.vis_sc)] for h in boh]
    return {'hyps': hyps, 'boundary_tie': bool(watch.boundary_tie)}


def encode(x):
    if x == float('-inf'):
        return '-inf'
    if x == float('inf'):
        return 'inf'
    if x != x:
        return 'nan'
    return x


def decode(x):
    return float(x) if isinstance(x, str) else x


def tie_independent_check(name, res, logits, k, rtol):
    hyps = res['hyps']
    transcripts = [h[0] for h in hyps]
    if len(set(transcripts)) != len(transcripts):
        return '%s: transcripts not distinct: %r' % (name, transcripts)
    if not 1 <= len(hyps) <= k:
        return '%s: %d hypotheses for beam %d' % (name, len(hyps), k)
    for transcript, score in hyps:
        labels = [ALPHABET.index(ch) for ch in transcript]
        bound = ctc_logprob(logits, labels)
        if not score <= bound + rtol * max(1.0, abs(bound)):
            return '%s: score %r of %r exceeds its CTC log-probability %r' % (name, score, transcript, bound)
    return None


def compare(name, ref, cur, logits, k):
    rtol = RTOL32 if logits.dtype == np.float32 else RTOL64

    if ('raises' in ref) or ('raises' in cur):
        if ref.get('raises') != cur.get('raises'):
            return '%s: reference %r, now %r' % (name, ref.get('raises', 'returns'), cur.get('raises', 'returns'))
        return None

    scores = [s for _, s in cur['hyps']]
    for s0, s1 in zip(scores, scores[1:]):
        if not s0 >= s1:
            return '%s: bag not sorted by visual score' % name

    if ref['boundary_tie'] or cur['boundary_tie']:
        return tie_independent_check(name, cur, logits, k, rtol)

    ref_map = {t: decode(s) for t, s in ref['hyps']}
    cur_map = {t: s for t, s in cur['hyps']}
    if len(cur_map) != len(cur['hyps']):
        return '%s: transcripts not distinct' % name
    if set(ref_map) != set(cur_map):
        return '%s: transcripts %r, reference %r' % (name, sorted(cur_map), sorted(ref_map))
    for t in ref_map:
        a, b = ref_map[t], cur_map[t]
        if a == b:
            continue
        if not (np.isfinite(a) and np.isfinite(b)) or abs(a - b) > rtol * max(1.0, abs(a)):
            return '%s: score of %r is %r, reference %r' % (name, t, b, a)
    return None


def main():
    cases = make_cases()
    results = {}
    for name, logits, k, sel in cases:
        assert name not in results
        results[name] = run_case(logits, k, sel)

    if not os.path.exists(REFERENCE):
        serial = {}
        for name, res in results.items():
            if 'hyps' in res:
                res = {'hyps': [[t, encode(s)] for t, s in res['hyps']], 'boundary_tie': res['boundary_tie']}
            serial[name] = res
        with open(REFERENCE, 'w') as f:
            json.dump(serial, f, indent=0, sort_keys=True)
        nb_ties = sum(1 for r in results.values() if r.get('boundary_tie'))
        nb_raise = sum(1 for r in results.values() if 'raises' in r)
        print('reference written: %d cases (%d with a tie on the beam boundary, %d rejected inputs) -> %s'
              % (len(results), nb_ties, nb_raise, REFERENCE))
        return 0

    with open(REFERENCE) as f:
        reference = json.load(f)

    if set(reference) != set(results):
        print('DIFFERENT: the set of cases differs from the reference')
        return 1

    max_dev = 0.0
    nb_loose = 0
    for name, logits, k, sel in cases:
        ref, cur = reference[name], results[name]
        problem = compare(name, ref, cur, logits, k)
        if problem:
            print('DIFFERENT: ' + problem)
            return 1
        if 'hyps' in ref and 'hyps' in cur:
            if ref['boundary_tie'] or cur['boundary_tie']:
                nb_loose += 1
            else:
                ref_map = {t: decode(s) for t, s in ref['hyps']}
                for t, s in cur['hyps']:
                    if np.isfinite(s) and np.isfinite(ref_map[t]):
                        max_dev = max(max_dev, abs(s - ref_map[t]) / max(1.0, abs(s)))

    print('MATCH (%d cases, %d of them with an open tie on the beam boundary compared tie-independently; '
          'largest relative score deviation %.3g)' % (len(cases), nb_loose, max_dev))
    return 0


if __name__ == '__main__':
    sys.exit(main())
