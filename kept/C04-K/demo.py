"""Differential demo for change K (greedy_decode_ctc in pytorch_ocr_engine.py).

Prints a digest of the decoded texts of a few hundred score tensors; the digest must be
identical on the clean tree and with K applied.
"""
import hashlib
import itertools

import numpy as np
import torch

from pero_ocr.ocr_engine.pytorch_ocr_engine import greedy_decode_ctc

H = hashlib.sha256()


def record(*items):
    for it in items:
        H.update(repr(it).encode('utf-8'))
        H.update(b'\x00')


def reference(scores, chars):
    """Plain CTC collapse of the per-frame arg-max path (first maximal index wins)."""
    out = []
    blank = scores.shape[1] - 1
    for line in scores:
        path = [int(np.argmax(line[:, t])) for t in range(line.shape[1])]
        out.append(''.join(chars[c] for c, _ in itertools.groupby(path) if c != blank))
    return out


def one_hot_scores(paths, C, dtype=torch.float32):
    N, T = len(paths), len(paths[0])
    s = torch.full((N, C, T), -5.0, dtype=dtype)
    for n, p in enumerate(paths):
        for t, c in enumerate(p):
            s[n, c, t] = 3.0
    return s


def run(scores, chars, check_reference=True):
    before = scores.clone()
    out = greedy_decode_ctc(scores, chars)
    assert isinstance(out, list) and all(isinstance(o, str) for o in out)
    # the input tensor must not be modified by the call
    assert torch.equal(before, scores) or bool(torch.isnan(before).any())
    assert before.dtype == scores.dtype and before.shape == scores.shape
    if check_reference:
        assert out == reference(scores.numpy(), chars), (out, reference(scores.numpy(), chars))
    record(tuple(scores.shape), str(scores.dtype), out)
    return out


chars5 = list('abcd') + [u'​']   # C = 5, blank = 4
B = 4

# --- hand-made corner cases ------------------------------------------------------------------
corner = [
    [B, B, 0, 0, B, B],       # leading / trailing blanks
    [B, B, B, B, B, B],       # all blank
    [0, 0, B, 0, 0, B],       # repeats split by blank
    [1, 1, 1, 2, 2, 3],       # first frame already non-blank
    [3, B, 3, B, B, 3],       # last symbol class adjacent to blank
    [3, 3, B, B, 3, 3],
    [B, 3, 3, 3, 3, B],
    [0, 1, 0, 1, 0, 1],
    [0, 0, 0, 0, 0, 0],
    [B, 0, B, 0, B, 0],
]
for dtype in (torch.float32, torch.float64):
    run(one_hot_scores(corner, 5, dtype), chars5)            # a batch with different content
    for p in corner:
        run(one_hot_scores([p], 5, dtype), chars5)           # the same lines alone
    run(one_hot_scores(corner[::-1], 5, dtype), chars5)

# every path of length 1..4 over 3 symbols (2 letters + blank), singly and as one batch
chars3 = ['x', 'y', u'​']
for T in range(1, 5):
    paths = [list(p) for p in itertools.product(range(3), repeat=T)]
    run(one_hot_scores(paths, 3), chars3)
    for p in paths:
        run(one_hot_scores([p], 3), chars3)

# only a blank class / one letter + blank
run(torch.zeros((3, 1, 4)), [u'​'])
run(one_hot_scores([[0, 1, 0, 0, 1]], 2), ['q', u'​'])

# chars given as a str and as a tuple, longer multi-character symbols
run(one_hot_scores(corner, 5), 'abcd​')
run(one_hot_scores(corner, 5), ('ab', '', 'c', 'dd', '<B>'))

# empty batch
run(torch.zeros((0, 5, 7)), chars5)

# --- random tensors -----------------------------------------------------------------------------
rng = np.random.RandomState(1234)
for i in range(300):
    N = int(rng.randint(1, 6))
    C = int(rng.randint(2, 9))
    T = int(rng.randint(1, 25))
    chars = [chr(ord('a') + k) for k in range(C - 1)] + [u'​']
    kind = i % 5
    if kind == 0:
        s = rng.randn(N, C, T)
    elif kind == 1:      # small integers: many exact ties inside a frame
        s = rng.randint(0, 3, size=(N, C, T)).astype(np.float64)
    elif kind == 2:      # blank-heavy log-probs
        s = rng.randn(N, C, T)
        s[:, -1, :] += 2.0
        s = s - np.log(np.exp(s).sum(axis=1, keepdims=True))
    elif kind == 3:      # long runs: repeat every frame a few times
        s = np.repeat(rng.randn(N, C, max(1, T // 3)), 3, axis=2)
    else:                # huge magnitudes and infinities
        s = rng.randn(N, C, T) * 1e4
        s[rng.rand(N, C, T) < 0.1] = -np.inf
        s[rng.rand(N, C, T) < 0.02] = np.inf
    dtype = torch.float32 if i % 2 else torch.float64
    t = torch.from_numpy(np.ascontiguousarray(s)).to(dtype)
    if i % 7 == 0:       # non-contiguous view (as produced by a permute in the net)
        t = t.permute(0, 2, 1).contiguous().permute(0, 2, 1)
    run(t, chars)

# NaN scores: no reference, only record what happens
s = torch.randn((2, 4, 6), generator=torch.Generator().manual_seed(5))
s[0, 1, 2] = float('nan')
s[1, 3, 0] = float('nan')
run(s, ['a', 'b', 'c', u'​'], check_reference=False)

# inputs outside the N x C x T domain: record only the exception class
for bad in (torch.zeros((5, 7)), torch.zeros((2, 5, 0))):
    try:
        res = greedy_decode_ctc(bad, chars5)
        record('no exception', res)
    except Exception as e:  # noqa
        record(type(e).__name__)

print('K-digest', H.hexdigest())
