"""Differential demo for change K (hash-indexed prefix joining in the CTC prefix beam search).

Prints a digest of (a) direct calls of adjust_for_prefix_joining on random beams (incl. empty prefix only,
no joinable prefix, duplicate prefixes -> AssertionError, -inf cells, float32) and (b) full beam-search
decodings (with / without LM, with carried LM state, many beam sizes, empty and all-blank lines).
The digest must be identical on the clean and on the patched tree.
"""
import hashlib
import numpy as np
import torch

from pero_ocr.decoding import decoders
from pero_ocr.decoding.decoders import CTCPrefixLogRawNumpyDecoder, BLANK_SYMBOL, adjust_for_prefix_joining
from pero_ocr.decoding.lm_wrapper import LMWrapper

digest = hashlib.sha256()
counts = {'in_decoder_calls': 0, 'in_decoder_joins': 0, 'direct': 0, 'direct_exc': 0, 'decoded': 0, 'decode_exc': 0, 'joined_cells': 0}


def feed(*items):
    for item in items:
        if isinstance(item, np.ndarray):
            digest.update(str(item.dtype).encode() + str(item.shape).encode() + np.ascontiguousarray(item).tobytes())
        else:
            digest.update(repr(item).encode())
        digest.update(b'|')


# ---------------------------------------------------------------- (a) direct calls
def random_beam(rng, nb_chars):
    """A beam like the decoder builds it: unique lists of np.int64 symbols, closed under nothing in particular."""
    kind = rng.integers(0, 6)
    if kind == 0:
        return [decoders.EMPTY_PREFIX]
    pool = [[]]
    for _ in range(rng.integers(1, 12)):
        parent = pool[rng.integers(0, len(pool))]
        pool.append(parent[:] + [np.int64(rng.integers(0, nb_chars))])
    uniq = []
    for p in pool:
        if p not in uniq:
            uniq.append(p)
    order = rng.permutation(len(uniq))
    beam = [uniq[i] for i in order[:rng.integers(1, len(uniq) + 1)]]
    if kind == 1 and len(beam) > 1:      # duplicate prefix somewhere -> the assert may fire
        beam.append(beam[rng.integers(0, len(beam))][:])
    if kind == 2:                        # plain python ints instead of numpy ints
        beam = [[int(c) for c in p] for p in beam]
    return beam


rng = np.random.default_rng(2024)
for case in range(400):
    nb_chars = int(rng.integers(1, 6))
    beam = random_beam(rng, nb_chars)
    dtype = np.float32 if case % 5 == 0 else np.float64
    P = rng.normal(-5, 3, size=(len(beam), nb_chars + 2)).astype(dtype)
    P[rng.random(P.shape) < 0.2] = -np.inf
    # like reduced_last_chars: index into the reduced alphabet, or the 'impossible' column nb_chars
    last_chars = np.asarray([int(rng.integers(0, nb_chars + 1)) for _ in beam])
    P_before = P.copy()
    beam_before = [list(p) for p in beam]
    try:
        ret = adjust_for_prefix_joining(P, beam, last_chars)
        feed('ok', ret)
        counts['direct'] += 1
    except AssertionError:
        feed('assert')
        counts['direct_exc'] += 1
    feed(P)
    counts['joined_cells'] += int(np.sum(P != P_before) - np.sum(np.isnan(P) & np.isnan(P_before)))
    assert [list(p) for p in beam] == beam_before      # the beam itself is never modified


# ---------------------------------------------------------------- (b) whole decoder
class TinyModel(torch.nn.Module):
    """LSTM LM body; the hidden state is a (h, c) tuple as in the real brnolm models."""
    def __init__(self, vocab_size, hidden):
        super().__init__()
        self.emb = torch.nn.Embedding(vocab_size, hidden)
        self.rec = torch.nn.LSTM(hidden, hidden)
        self.hidden = hidden

    def forward(self, xs, hs):
        out, new_h = self.rec(self.emb(xs).transpose(0, 1), hs)      # xs: (batch, time)
        return out, new_h

    def init_hidden(self, bsz):
        return (torch.zeros((1, bsz, self.hidden), dtype=torch.float64),
                torch.zeros((1, bsz, self.hidden), dtype=torch.float64))


class TinyDecoder(torch.nn.Module):
    def __init__(self, vocab_size, hidden):
        super().__init__()
        self.out = torch.nn.Linear(hidden, vocab_size)

    def forward(self, hs):
        return torch.log_softmax(self.out(hs), dim=-1)


class TinyLm(torch.nn.Module):
    def __init__(self, letters, hidden=5):
        super().__init__()
        self.vocab = {'</s>': 0, '<unk>': 1}
        for c in letters:
            self.vocab[c] = len(self.vocab)
        self.model = TinyModel(len(self.vocab), hidden)
        self.decoder = TinyDecoder(len(self.vocab), hidden)
        self._unused_prefix_len = 2
        self.double()
        self.requires_grad_(False)


def random_logits(rng, nb_frames, nb_symbols, peakiness):
    raw = rng.normal(0, peakiness, size=(nb_frames, nb_symbols))
    raw[:, -1] += rng.normal(1.0, 2.0, size=nb_frames)            # blank is often strong
    repeat = rng.random(nb_frames) < 0.35                          # repeated frames -> joins / continued letters
    for t in range(1, nb_frames):
        if repeat[t]:
            raw[t] = raw[t - 1] + rng.normal(0, 0.3, size=nb_symbols)
    return raw - np.logaddexp.reduce(raw, axis=1)[:, np.newaxis]


_original_adjust = decoders.adjust_for_prefix_joining


def counting_adjust(P_visual, A_prev, last_chars):      # only counts, the real function does the work
    before = P_visual.copy()
    ret = _original_adjust(P_visual, A_prev, last_chars)
    counts['in_decoder_calls'] += 1
    counts['in_decoder_joins'] += int(np.any((P_visual != before) & ~(np.isnan(P_visual) & np.isnan(before))))
    feed(P_visual)
    return ret


decoders.adjust_for_prefix_joining = counting_adjust

torch.manual_seed(7)
letters = list('abcdef')
symbols = letters + [BLANK_SYMBOL]
lm = LMWrapper(TinyLm(letters), letters, device='cpu')

rng = np.random.default_rng(99)
for case in range(260):
    nb_letters = int(rng.integers(1, len(letters) + 1))
    use_lm = case % 3 != 0
    k = int(rng.choice([1, 2, 3, 4, 7, 16, 50]))
    nb_frames = int(rng.choice([0, 1, 1, 2, 3, 5, 8, 13, 20, 30]))
    peakiness = float(rng.choice([0.5, 2.0, 6.0, 15.0]))
    if use_lm:      # the LM speaks the whole alphabet
        cur_symbols = symbols
    else:
        cur_symbols = letters[:nb_letters] + [BLANK_SYMBOL]
    logits = random_logits(rng, nb_frames, len(cur_symbols), peakiness)
    if case % 11 == 0 and nb_frames > 0:        # an all-blank line
        logits[:, :-1] = -80.0
        logits[:, -1] = 0.0
    if case % 7 == 0:
        logits = logits.astype(np.float32)

    decoder = CTCPrefixLogRawNumpyDecoder(
        cur_symbols, k,
        lm=lm if use_lm else None,
        lm_scale=float(rng.choice([0.0, 0.3, 1.0])),
        insertion_bonus=float(rng.choice([0.0, 0.5])),
    )
    try:
        if use_lm and case % 2 == 0:
            boh, h = decoder(logits, max_unnormalization=1e-3, return_h=True, model_eos=(case % 4 == 0))
            h = lm.add_line_end(h)
            boh2 = decoder(logits[::-1].copy(), max_unnormalization=1e-3, init_h=h)
            bohs = [boh, boh2]
            feed(h._h[0].numpy(), h._h[1].numpy())
        else:
            bohs = [decoder(logits, max_unnormalization=1e-3)]
        for boh in bohs:
            feed(boh.best_hyp(), len(boh))
            for hyp in boh:
                feed(hyp.transcript, float(hyp.vis_sc), float(hyp.lm_sc))
        counts['decoded'] += 1
    except Exception as e:      # e.g. the (pre-existing) top_k corner case for beams wider than the search space
        feed('exception', type(e).__name__)
        counts['decode_exc'] += 1

print(counts)
print('DIGEST', digest.hexdigest())
