#!/usr/bin/env python
"""Differential demo for change M (BagOfHypotheses posterior / confidence numerics).

First run (no reference.json next to this file; must be the CLEAN tree): writes reference.json.
Later runs: recompute and compare with tolerances, print MATCH (exit 0) or DIFFERENT: ... (exit 1).

Tolerances: scores, probabilities and confidences 1e-9 relative (1e-6 for float32 bags);
log-posteriors are differences of O(|score|) numbers, so they are compared with an absolute
tolerance of 1e-9 * max(1, max|score|) (their exp() -- the actual posterior -- is compared
at 1e-9 relative).  A best transcript may differ only if both candidates are tied (within
tolerance) in the reference; the statement leaves the resolution of exact ties open.
"""
import json
import math
import os
import sys

import numpy as np

from pero_ocr.decoding.decoders import CTCPrefixLogRawNumpyDecoder, GreedyDecoder, BLANK_SYMBOL
from pero_ocr.decoding.bag_of_hypotheses import BagOfHypotheses

HERE = os.path.dirname(os.path.abspath(__file__))
REF = os.path.join(HERE, 'reference.json')
MOD = (1 << 61) - 1


class HashLM:
    """Toy history-dependent LM: the state is a hash of the whole prefix."""
    def __init__(self, nb_chars, salt):
        self.nb_chars = nb_chars
        self.salt = salt

    def initial_h(self, n):
        return np.full((n,), 7919 + self.salt, dtype=np.int64)

    def advance_h0(self, c_inds, h):
        return np.asarray([(int(s) * 1000003 + int(c) + 1 + self.salt) % MOD for s, c in zip(h, c_inds)],
                          dtype=np.int64).reshape((len(c_inds),))

    def _score(self, s, c):
        x = (int(s) * 2654435761 + (c + 1) * 40503 + self.salt) % 1000003
        return -(0.05 + 6.0 * x / 1000003.0)

    def log_probs(self, h):
        return np.asarray([[self._score(s, c) for c in range(self.nb_chars)] for s in h], dtype=np.float64)

    def eos_scores(self, h):
        return np.asarray([self._score(s, self.nb_chars + 3) for s in h], dtype=np.float64)

    def score_transcript(self, inds, h0, bonus, eos):
        h = np.asarray(h0, dtype=np.int64).reshape((1,))
        total = 0.0
        for c in inds:
            total = total + self.log_probs(h)[0, c] + bonus
            h = self.advance_h0(np.asarray([c]), h)
        if eos:
            total = total + self.eos_scores(h)[0]
        return float(total), int(h[0])


def log_softmax(x):
    x = x - x.max(axis=1, keepdims=True)
    return x - np.log(np.exp(x).sum(axis=1, keepdims=True))


def make_logits(rng, T, C, kind):
    if kind == 'uniform':
        return np.full((T, C), -math.log(C))
    if kind == 'peaky':
        x = rng.normal(size=(T, C)) * 8.0
    elif kind == 'blanky':
        x = rng.normal(size=(T, C))
        x[:, -1] += 14.0
        x[rng.random(T) < 0.4, -1] -= 14.0
    else:
        x = rng.normal(size=(T, C)) * rng.choice([0.5, 1.5, 3.0])
    return log_softmax(x)


def decoder_cases():
    rng = np.random.default_rng(20240303)
    cases = []
    kinds = ['plain', 'plain', 'peaky', 'blanky', 'uniform']
    for i in range(260):
        C = int(rng.integers(3, 7))
        T = int(rng.integers(1, 9))
        kind = kinds[i % len(kinds)]
        logits = make_logits(rng, T, C, kind)
        if i % 7 == 3:
            logits = logits.astype(np.float32)
        k = int(rng.choice([1, 1, 2, 3, 5, 8]))
        scale = float(rng.choice([0.0, 0.3, 1.0, 1.7, 3.0]))
        bonus = float(rng.choice([0.0, 0.0, 0.5, 2.0]))
        use_lm = (i % 6 != 5)
        eos = bool(use_lm and rng.random() < 0.5)
        init = int(rng.integers(1, 10**9)) if (use_lm and rng.random() < 0.5) else None
        cases.append(dict(i=i, C=C, logits=logits, k=k, scale=scale, bonus=bonus, use_lm=use_lm, eos=eos, init=init))
    return cases


def bag_record(boh):
    post = boh.posteriors()
    return dict(
        hyps=[[h.transcript, float(h.vis_sc), None if h.lm_sc is None else float(h.lm_sc)] for h in boh],
        totals=[float(s) for s in boh.total_scores()],
        posteriors=[float(p) for p in post],
        confidence=float(boh.confidence()),
        best=boh.best_hyp(),
        tconf=[float(boh.transcript_confidence(h.transcript)) for h in boh],
        tconf_missing=float(boh.transcript_confidence('\x00 not there')),
    )


def run_decoder_case(case):
    C = case['C']
    letters = [chr(ord('a') + j) for j in range(C - 1)] + [BLANK_SYMBOL]
    lm = HashLM(C - 1, salt=case['i']) if case['use_lm'] else None
    dec = CTCPrefixLogRawNumpyDecoder(letters, case['k'], lm=lm, lm_scale=case['scale'], insertion_bonus=case['bonus'])
    kwargs = dict(max_unnormalization=1e-4)
    if lm is not None:
        if case['init'] is not None:
            kwargs['init_h'] = np.asarray([case['init']], dtype=np.int64)
        boh, h = dec(case['logits'], model_eos=case['eos'], return_h=True, **kwargs)
        rec = bag_record(boh)
        rec['h'] = [int(v) for v in np.asarray(h).ravel()]
        h0 = case['init'] if case['init'] is not None else int(lm.initial_h(1)[0])
        own = [lm.score_transcript([letters.index(ch) for ch in hyp.transcript], h0, case['bonus'], case['eos']) for hyp in boh]
        rec['lm_own'] = [o[0] for o in own]
        rec['h_own'] = [o[1] for o in own]
    else:
        boh = dec(case['logits'], **kwargs)
        rec = bag_record(boh)
    rec['f32'] = False   # decoder scores are accumulated in float64 even for float32 logits
    if case['logits'].shape[0] > 0:
        g = GreedyDecoder(letters)(case['logits'], max_unnormalization=1e-4)
        rec['greedy'] = bag_record(g)
        rec['greedy']['f32'] = bool(case['logits'].dtype == np.float32)
    return rec


def manual_bags():
    rng = np.random.default_rng(77)
    out = []

    def mk(w, items, f32=False):
        boh = BagOfHypotheses(w)
        for t, v, l in items:
            boh.add(t, v, l)
        rec = bag_record(boh)
        rec['f32'] = f32
        out.append(rec)

    mk(1.0, [('a', -3.0, None)])
    mk(1.0, [('a', -3.0, -1.0)])
    mk(0.0, [('a', -3.0, -1.0), ('b', -3.0, -100.0)])                 # exact tie at scale 0
    mk(1.0, [('a', -3.0, -1.0), ('b', -3.0, -1.0), ('c', -3.0, -1.0)])  # exact three-way tie
    mk(1.0, [('a', -3.0, None), ('b', -4.0, None)])                   # LM-free bag (TypeError fallback path)
    mk(2.0, [('a', -1000.0, -2.0), ('b', -200.0, -3.0), ('c', -1800.0, 0.0)])  # exp underflow of the losers
    mk(0.5, [('a', -1e5, -7.0), ('b', -1e5 - 1e-3, -7.0)])            # big magnitude, close scores
    mk(1.0, [('x', -2.0, -1.0), ('x', -2.5, -1.5), ('y', -9.0, 0.0)])   # duplicate transcript: first one counts
    mk(1.0, [('a', np.float32(-3.25), None), ('b', np.float32(-1.5), None)], f32=True)
    mk(3, [('a', -3.0, 0), ('b', -2.0, 0)])                          # int weight, int LM scores (no-LM decoder bags)
    for n in range(60):
        m = int(rng.integers(1, 12))
        spread = float(rng.choice([1e-3, 1.0, 30.0, 400.0]))
        off = float(rng.choice([0.0, -50.0, -700.0]))
        w = float(rng.choice([0.0, 0.7, 3.0]))
        mk(w, [('t%d' % j, off + spread * rng.normal(), spread * rng.normal()) for j in range(m)])
    return out


def compute():
    return dict(decoder=[run_decoder_case(c) for c in decoder_cases()], manual=manual_bags())


def close(a, b, rtol, atol=0.0):
    if a is None or b is None:
        return a is None and b is None
    if math.isnan(a) or math.isnan(b):
        return math.isnan(a) and math.isnan(b)
    if math.isinf(a) or math.isinf(b):
        return a == b
    return abs(a - b) <= atol + rtol * max(abs(a), abs(b))


def compare_bag(ref, new, where):
    rtol = 1e-6 if ref.get('f32') else 1e-9
    if len(ref['hyps']) != len(new['hyps']):
        return '%s: number of hypotheses %d vs %d' % (where, len(ref['hyps']), len(new['hyps']))
    scale = max([1.0] + [abs(t) for t in ref['totals'] if math.isfinite(t)])
    # hypotheses are matched by position among those of the same transcript (order of the bag is by vis_sc)
    for j, (hr, hn) in enumerate(zip(ref['hyps'], new['hyps'])):
        if hr[0] != hn[0]:
            return '%s: hypothesis %d transcript %r vs %r' % (where, j, hr[0], hn[0])
        if not close(hr[1], hn[1], rtol) or not close(hr[2], hn[2], rtol):
            return '%s: hypothesis %d scores %r vs %r' % (where, j, hr, hn)
    for key in ('totals', 'tconf'):
        for j, (a, b) in enumerate(zip(ref[key], new[key])):
            if not close(a, b, rtol, atol=1e-300):
                return '%s: %s[%d] %r vs %r' % (where, key, j, a, b)
    for j, (a, b) in enumerate(zip(ref['posteriors'], new['posteriors'])):
        if not close(a, b, 0.0, atol=rtol * scale):
            return '%s: log-posterior[%d] %r vs %r' % (where, j, a, b)
        if not close(math.exp(a), math.exp(b), rtol, atol=1e-300):
            return '%s: posterior[%d] %r vs %r' % (where, j, math.exp(a), math.exp(b))
    if not close(ref['confidence'], new['confidence'], rtol):
        return '%s: confidence %r vs %r' % (where, ref['confidence'], new['confidence'])
    if not close(new['confidence'], math.exp(max(new['posteriors'])), rtol):
        return '%s: confidence %r is not the best posterior %r' % (where, new['confidence'], math.exp(max(new['posteriors'])))
    if ref['tconf_missing'] != new['tconf_missing']:
        return '%s: confidence of a missing transcript %r vs %r' % (where, ref['tconf_missing'], new['tconf_missing'])
    if ref['best'] != new['best']:
        tied = {h[0] for h, t in zip(ref['hyps'], ref['totals']) if close(t, max(ref['totals']), rtol)}
        if new['best'] not in tied:
            return '%s: best transcript %r vs %r (not a tie)' % (where, ref['best'], new['best'])
    return None


def compare(ref, new):
    if len(ref['decoder']) != len(new['decoder']) or len(ref['manual']) != len(new['manual']):
        return 'number of cases'
    for i, (r, n) in enumerate(zip(ref['decoder'], new['decoder'])):
        msg = compare_bag(r, n, 'decoder case %d' % i)
        if msg:
            return msg
        if ('greedy' in r) != ('greedy' in n):
            return 'decoder case %d: greedy presence' % i
        if 'greedy' in r:
            msg = compare_bag(r['greedy'], n['greedy'], 'greedy case %d' % i)
            if msg:
                return msg
        if ('h' in r) != ('h' in n):
            return 'decoder case %d: LM state presence' % i
        if 'h' in r:
            for j, (a, b) in enumerate(zip(r['lm_own'], n['lm_own'])):
                if not close(a, b, 1e-9):
                    return 'decoder case %d: own LM score %d' % (i, j)
            if r['h'] != n['h']:
                # acceptable only if the new state is that of a transcript tied for the best total
                tied = {ho for ho, t in zip(r['h_own'], r['totals']) if close(t, max(r['totals']), 1e-9)}
                if len(n['h']) != 1 or n['h'][0] not in tied:
                    return 'decoder case %d: returned LM state %r vs %r' % (i, r['h'], n['h'])
    for i, (r, n) in enumerate(zip(ref['manual'], new['manual'])):
        msg = compare_bag(r, n, 'manual bag %d' % i)
        if msg:
            return msg
    return None


def main():
    new = compute()
    if not os.path.exists(REF):
        with open(REF, 'w') as f:
            json.dump(new, f)
        print('reference.json written (%d decoder cases, %d manual bags); run again to compare' %
              (len(new['decoder']), len(new['manual'])))
        return 0
    with open(REF) as f:
        ref = json.load(f)
    msg = compare(ref, new)
    if msg:
        print('DIFFERENT: ' + msg)
        return 1
    print('MATCH')
    return 0


if __name__ == '__main__':
    sys.exit(main())
