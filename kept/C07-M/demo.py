# -*- coding: utf-8 -*-
"""Differential test for property C07 (batched line recognition).

No arguments.  The first run (on the clean tree) writes reference.json next to
this file; later runs recompute everything and compare against the reference
with explicit tolerances:
  * strings, shapes, dtypes, frame windows: exact
  * float32 data: |a-b| <= 1e-6*|b| + 1e-37   (1e-37: float32 subnormal range)
  * float64 data: |a-b| <= 1e-9*|b| + 1e-300
  * sparse storage: an entry may differ from the reference only if the exact
    (float64) posterior of that entry lies within 1e-5 relative of the 1e-4
    threshold (the statement cannot fix the decision there, the posterior is
    only known up to float32 round-off) and then it has to be either 0 or the
    unchanged dense logit.
Prints MATCH (exit 0) or DIFFERENT: <what> (exit 1).
"""
import base64
import io
import json
import os
import sys
import tempfile
import zlib
import contextlib

import numpy as np
import torch
from scipy import sparse

from pero_ocr.ocr_engine.softmax import softmax
from pero_ocr.ocr_engine.line_ocr_engine import BaseEngineLineOCR
from pero_ocr.ocr_engine.pytorch_ocr_engine import PytorchEngineLineOCR

HERE = os.path.dirname(os.path.abspath(__file__))
REFERENCE = os.path.join(HERE, 'reference.json')

LINE_HEIGHT = 16
CHARS = list('abcdefg')  # + zero-width blank appended by the engine -> 8 classes
THRESHOLD = 1e-4


# ----------------------------------------------------------------------------
# (de)serialisation of arrays
def enc(a):
    a = np.ascontiguousarray(a)
    return {'dtype': str(a.dtype), 'shape': list(a.shape), 'zb64': base64.b64encode(zlib.compress(a.tobytes(), 9)).decode('ascii')}


def dec(d):
    return np.frombuffer(zlib.decompress(base64.b64decode(d['zb64'])), dtype=np.dtype(d['dtype'])).reshape(d['shape'])


def close(cur, ref):
    """tolerant comparison; returns boolean array of entries that are NOT close"""
    if ref.dtype == np.float32:
        rtol, atol = 1e-6, 1e-37
    else:
        rtol, atol = 1e-9, 1e-300
    c = cur.astype(np.float64)
    r = ref.astype(np.float64)
    with np.errstate(invalid='ignore'):
        bad = ~(np.abs(c - r) <= rtol * np.abs(r) + atol)
    bad &= ~((c == r) | (np.isnan(c) & np.isnan(r)))  # identical infinities / nans are fine
    return bad


# ----------------------------------------------------------------------------
# stub network: every output frame depends only on its own 4 input columns
class StubNet(torch.nn.Module):
    def __init__(self, nb_classes, seed, spread):
        super().__init__()
        g = torch.Generator().manual_seed(seed)
        self.w = torch.randn(nb_classes, 3 * LINE_HEIGHT, generator=g) * spread
        self.b = torch.randn(nb_classes, generator=g)
        self.b[-1] += 2.0

    def forward(self, x):  # N, 3, H, W  ->  N, C, W // 4
        n, ch, h, w = x.shape
        cols = x.reshape(n, ch * h, w)
        pooled = torch.nn.functional.avg_pool1d(cols, 4)
        centred = (pooled - 0.5) * (pooled != 0)
        return torch.einsum('cf,nft->nct', self.w, centred) + self.b[None, :, None]


class StubCTCEngine(PytorchEngineLineOCR):
    stub_seed = 0
    stub_spread = 1.0

    def _load_exported_model(self):
        self.model = StubNet(len(self.characters), self.stub_seed, self.stub_spread)


class StubTransformerEngine(BaseEngineLineOCR):
    """transformer-type engine: one character per 8 columns, logits one row per character (+2 spare rows)"""

    def __init__(self, json_def, device, batch_size=4):
        super().__init__(json_def, device, batch_size=batch_size, model_type='transformer')
        self.net_subsampling = 4

    def run_ocr(self, batch_data):
        n, h, w, _ = batch_data.shape
        feats = batch_data.astype(np.float64).mean(axis=(1, 3))  # n, w
        transcriptions, logits = [], []
        nb_rows = w // 8 + 2
        for row in feats:
            used = np.flatnonzero(row > 0)
            length = 0 if used.size == 0 else max(0, (used[-1] + 1 - self.line_padding_px) // 8)
            length = int(min(length, nb_rows - 2))
            cells = row[self.line_padding_px:self.line_padding_px + 8 * length].reshape(length, 8).mean(axis=1)
            ids = (cells // 24).astype(int) % len(self.characters)
            transcriptions.append(''.join(self.characters[i] for i in ids))
            lg = np.full((nb_rows, len(self.characters)), -3.0, dtype=np.float32)
            lg[np.arange(length), ids] = (cells / 16.0).astype(np.float32)
            logits.append(lg)
        return transcriptions, np.stack(logits) if logits else np.zeros((0, nb_rows, len(self.characters)), np.float32)


def make_engine(cls, tmpdir, batch_size, extra=None, **attrs):
    config = {'line_px_height': LINE_HEIGHT, 'line_vertical_scale': 1.0, 'checkpoint': 'stub.pt',
              'characters': CHARS, 'net_name': 'stub'}
    config.update(extra or {})
    path = os.path.join(tmpdir, 'ocr_%s_%d.json' % (cls.__name__, batch_size))
    with open(path, 'w', encoding='utf8') as f:
        json.dump(config, f)
    for k, v in attrs.items():
        setattr(cls, k, v)
    return cls(path, torch.device('cpu'), batch_size=batch_size)


def make_line(rng, width):
    # values >= 1 so that a line never looks like padding to the stub
    return rng.integers(1, 256, size=(LINE_HEIGHT, width, 3), dtype=np.uint8)


# ----------------------------------------------------------------------------
def softmax_cases():
    rng = np.random.default_rng(7)
    cases = []
    for i in range(260):
        rows = int(rng.integers(0, 9)) if i % 13 else 0
        classes = int(rng.integers(1, 40))
        spread = [0.1, 1.0, 4.0, 12.0, 40.0][i % 5]
        x = rng.normal(size=(rows, classes)) * spread
        if i % 7 == 3 and rows:
            x[rng.integers(0, rows), rng.integers(0, classes)] = -np.inf
        if i % 11 == 5 and rows:
            x[0] = x[0, 0]  # constant row
        dtype = np.float32 if i % 3 else np.float64
        cases.append(('2d_%d' % i, x.astype(dtype), dict(axis=1)))
    for i in range(40):
        x = (rng.normal(size=int(rng.integers(2, 30))) * 5).astype(np.float32 if i % 2 else np.float64)
        cases.append(('1d_%d' % i, x, dict()))
        cases.append(('1d_theta_%d' % i, x, dict(theta=0.5)))
    for i in range(20):
        x = (rng.normal(size=(int(rng.integers(2, 6)), int(rng.integers(2, 6)))) * 3).astype(np.float32)
        cases.append(('axis0_%d' % i, x, dict(axis=0)))
        cases.append(('axisnone_%d' % i, x, dict()))
        cases.append(('theta_%d' % i, x, dict(theta=2.5, axis=1)))
    cases.append(('int_input', np.arange(12).reshape(3, 4), dict(axis=1)))
    cases.append(('thresholdish', np.log(np.array([[0.5, 0.4997, 2e-4, 1e-4 * 1.01], [0.9, 0.0998, 1e-4 * 0.99, 1.01e-4]])).astype(np.float32), dict(axis=1)))
    return cases


def run_softmax_part(out):
    for name, x, kwargs in softmax_cases():
        x_before = x.copy()
        with np.errstate(all='ignore'):
            p = softmax(x, **kwargs)
        assert np.array_equal(x, x_before, equal_nan=True), 'softmax modified its input'
        out['softmax/' + name] = {'kind': 'array', 'value': enc(p)}


def dense_of(logits):
    if sparse.issparse(logits):
        return np.asarray(logits.todense())
    return np.asarray(logits)


def run_engine_part(out, tmpdir):
    rng = np.random.default_rng(11)
    case_id = 0
    for batch_size in (1, 2, 3, 5, 8, 16):
        for spread in ((2.0, 5.0) if batch_size <= 2 else (3.5,)):
            engine = make_engine(StubCTCEngine, tmpdir, batch_size, stub_seed=batch_size, stub_spread=spread)
            max_px = engine.max_input_horizontal_pixels
            pools = [
                [],
                [1],
                [7, 7, 7, 7, 7, 7, 7, 7, 7, 7, 7],
                [1, 2, 3, 4, 5, 31, 32, 33, 63, 64, 65],
                ([max_px - 64, max_px - 33, max_px - 32, max_px - 31, max_px, max_px + 5, max_px + 200, 40, 40, 3]
                 if batch_size <= 3 else [max_px + 5, 40, 40, 3]),
                [int(w) for w in rng.integers(1, 260, size=10)],
                [int(w) for w in rng.integers(1, 90, size=19)],
            ]
            for widths in pools:
                lines = [make_line(rng, w) for w in widths]
                orders = [list(range(len(lines)))]
                if len(lines) > 1:
                    orders.append(orders[0][::-1])
                    orders.append([int(i) for i in rng.permutation(len(lines))])
                for order in orders:
                    ordered = [lines[i] for i in order]
                    copies = [l.copy() for l in ordered]
                    rec = {'kind': 'engine', 'widths': [widths[i] for i in order]}
                    with contextlib.redirect_stdout(io.StringIO()):
                        t_dense, l_dense, c_dense = engine.process_lines(ordered, sparse_logits=False)
                        # dense results are views into the batch output; copy them before the next call
                        l_dense = [np.array(l) for l in l_dense]
                        t_sparse, l_sparse, c_sparse = engine.process_lines(ordered)
                        t_tight, l_tight, c_tight = engine.process_lines(ordered, tight_crop_logits=True)
                        t_tight_d, l_tight_d, c_tight_d = engine.process_lines(ordered, sparse_logits=False, tight_crop_logits=True)
                        l_tight_d = [np.array(l) for l in l_tight_d]
                        t_none, l_none, c_none = engine.process_lines(ordered, no_logits=True)
                    assert all(np.array_equal(a, b) for a, b in zip(ordered, copies)), 'input lines modified'
                    assert all(sparse.isspmatrix_csc(l) for l in l_sparse + l_tight), 'sparse logits not csc'
                    rec['transcriptions'] = [t_dense, t_sparse, t_tight, t_tight_d, t_none]
                    rec['coords'] = [c_dense, c_sparse, c_tight, c_tight_d, c_none]
                    rec['none_logits'] = [l is None for l in l_none]
                    rec['dense'] = [enc(l) for l in l_dense]
                    rec['sparse'] = [enc(dense_of(l)) for l in l_sparse]
                    rec['tight_dense'] = [enc(l) for l in l_tight_d]
                    rec['tight_sparse'] = [enc(dense_of(l)) for l in l_tight]
                    out['engine/%03d_bs%d' % (case_id, batch_size)] = rec
                    case_id += 1

    # transformer-type base engine (line splitting + merging), dense and sparse
    for batch_size in (1, 4):
        engine = make_engine(StubTransformerEngine, tmpdir, batch_size, extra={'max_line_width': 96})
        for widths in ([], [5], [96, 97, 200, 16, 300, 95, 168, 169, 40], [int(w) for w in rng.integers(1, 420, size=9)]):
            lines = [make_line(rng, w) for w in widths]
            with contextlib.redirect_stdout(io.StringIO()):
                t_dense, l_dense, c_dense = engine.process_lines(lines, sparse_logits=False)
                l_dense = [np.array(l) for l in l_dense]
                t_sparse, l_sparse, c_sparse = engine.process_lines(lines)
                t_none, l_none, c_none = engine.process_lines(lines, no_logits=True)
            rec = {'kind': 'engine', 'widths': widths,
                   'transcriptions': [t_dense, t_sparse, t_none], 'coords': [c_dense, c_sparse, c_none],
                   'none_logits': [l is None for l in l_none],
                   'dense': [enc(l) for l in l_dense], 'sparse': [enc(dense_of(l)) for l in l_sparse],
                   'tight_dense': [], 'tight_sparse': []}
            out['engine/%03d_transformer_bs%d' % (case_id, batch_size)] = rec
            case_id += 1


def compute():
    torch.set_num_threads(1)
    out = {}
    run_softmax_part(out)
    with tempfile.TemporaryDirectory() as tmpdir:
        run_engine_part(out, tmpdir)
    return out


# ----------------------------------------------------------------------------
def compare_arrays(name, cur, ref):
    if cur.dtype != ref.dtype:
        return '%s: dtype %s != %s' % (name, cur.dtype, ref.dtype)
    if cur.shape != ref.shape:
        return '%s: shape %s != %s' % (name, cur.shape, ref.shape)
    bad = close(cur, ref)
    if bad.any():
        idx = tuple(int(i) for i in np.argwhere(bad)[0])
        return '%s: %d entries out of tolerance, first at %s: %r vs reference %r' % (name, int(bad.sum()), idx, cur[idx], ref[idx])
    return None


def compare_sparse(name, cur, ref, dense):
    """cur/ref: densified sparse logits; dense: the dense logits of the same frames (reference run)"""
    if cur.dtype != ref.dtype:
        return '%s: dtype %s != %s' % (name, cur.dtype, ref.dtype)
    if cur.shape != ref.shape:
        return '%s: shape %s != %s' % (name, cur.shape, ref.shape)
    bad = close(cur, ref)
    if not bad.any():
        return None
    d = dense.astype(np.float64)
    e = np.exp(d - d.max(axis=1, keepdims=True))
    post = e / e.sum(axis=1, keepdims=True)
    open_decision = np.abs(post - THRESHOLD) <= 1e-5 * THRESHOLD
    allowed = open_decision & ((cur == 0) | ~close(cur, dense))
    bad &= ~allowed
    if bad.any():
        idx = tuple(int(i) for i in np.argwhere(bad)[0])
        return '%s: %d stored logits differ, first at %s: %r vs reference %r (posterior %.9g)' % (
            name, int(bad.sum()), idx, cur[idx], ref[idx], post[idx])
    return None


def compare(cur, ref):
    if sorted(cur) != sorted(ref):
        return 'different set of cases'
    nb_open = 0
    for key in sorted(ref):
        c, r = cur[key], ref[key]
        if r['kind'] == 'array':
            msg = compare_arrays(key, dec(c['value']), dec(r['value']))
            if msg:
                return msg
            continue
        for field in ('widths', 'transcriptions', 'coords', 'none_logits'):
            if json.loads(json.dumps(c[field])) != r[field]:
                return '%s: %s differ: %r vs reference %r' % (key, field, c[field], r[field])
        for field in ('dense', 'tight_dense'):
            if len(c[field]) != len(r[field]):
                return '%s: number of %s logits differs' % (key, field)
            for i, (a, b) in enumerate(zip(c[field], r[field])):
                msg = compare_arrays('%s/%s[%d]' % (key, field, i), dec(a), dec(b))
                if msg:
                    return msg
        for field, dense_field in (('sparse', 'dense'), ('tight_sparse', 'tight_dense')):
            if len(c[field]) != len(r[field]):
                return '%s: number of %s logits differs' % (key, field)
            for i, (a, b) in enumerate(zip(c[field], r[field])):
                msg = compare_sparse('%s/%s[%d]' % (key, field, i), dec(a), dec(b), dec(r[dense_field][i]))
                if msg:
                    return msg
    return None


def main():
    cur = compute()
    if not os.path.exists(REFERENCE):
        with open(REFERENCE, 'w', encoding='utf8') as f:
            json.dump(cur, f)
        nb_lines = sum(len(v['widths']) for v in cur.values() if v['kind'] == 'engine')
        print('reference.json written (%d cases, %d recognised lines)' % (len(cur), nb_lines))
        print('MATCH')
        return 0
    with open(REFERENCE, 'r', encoding='utf8') as f:
        ref = json.load(f)
    msg = compare(cur, ref)
    if msg:
        print('DIFFERENT: ' + msg)
        return 1
    print('MATCH')
    return 0


if __name__ == '__main__':
    sys.exit(main())
