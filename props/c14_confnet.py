"""C14 - Confusion networks keep every hypothesis as an ordered path.

Space (operation sequences on a live object): state = confusion network, events = add_hypothese(h, score) for every
string h over {a,b} with |h| <= 3 (15, incl. the empty one) and score in {1.0, 0.5}; ALL histories up to depth D.
A case is a history; it is replayed on a fresh network and the oracle is evaluated on its last step (every prefix of
a history is a case of its own, so every step of every history is checked), then on the final network.

Oracle: language inclusion L(before) <= L(after) decided semantically (subset construction over the after-network
while walking the before-network), membership of the new hypothesis, an order-preserving embedding of the old
positions into the new network with exactly one arc gaining the score, normalisation, and the complete product
enumeration for sorted_cn_paths.
"""
import copy
import itertools
import math

ID = 'C14'

def nabs(x):
    """abs() for tolerance tests: a NaN counts as an infinite difference (a result that is not a number equals nothing)"""
    x = abs(x)
    return float('inf') if x != x else x


MANIFEST = dict(
    technique='explicit-state exploration of all add_hypothese histories on the real confusion-network code; semantic language-inclusion and weight-conservation oracles per transition',
    text='Bounded exhaustive: every history of up to 3 (quick) / 4 (thorough) add_hypothese events over 15 strings x 2 scores (27 930 / 837 930 histories), each step checked for language inclusion (decided by subset construction, not by re-running the algorithm), readability of the new hypothesis in order, conservation of weight through an order-preserving embedding, and the final network for normalisation, complete/sorted path enumeration and single-hypothesis read-back; produce_cn_from_boh on bags with and without LM scores. Added sub-sweeps: one empty start list shared by all cases of a worker, histories containing hypotheses with scores 1e-18 and 1e-200 (absorbed by 1.0 / underflowing products), and hypotheses of 130-300 symbols. Normalisation must keep every arc (weights down to 1e-310 next to 1.0); hypotheses with single, double, leading and trailing spaces. Wave 10: bags mixing hypotheses with and without an LM score; every single failing array allocation while a hypothesis is added.',
    note='Alphabet {a,b}, hypotheses up to length 3, histories up to depth 4; scores from {1.0,0.5}.',
    ref='3/C14')

STRINGS = [''.join(p) for n in range(0, 4) for p in itertools.product('ab', repeat=n)]
SCORES = [1.0, 0.5]
EVENTS = [(h, s) for h in STRINGS for s in SCORES]
N_MAIN = len(EVENTS)
TINY = 1e-18                                      # a hypothesis ~41 nats below the best one: its arcs vanish next to 1.0 in float64
TINY2 = 1e-200                                    # ~460 nats below: products of two such arcs underflow to exactly 0.0
TINY3 = 1e-310                                    # a subnormal weight: still positive, still to be normalised
EVENTS += [(h, TINY) for h in STRINGS] + [(h, TINY2) for h in STRINGS] + [(h, TINY3) for h in STRINGS]     # only used by the 'extreme' sub-sweep
SPACED = ['a  b', '  ', ' a', 'a ', ' ', 'a b  ']     # hypotheses with single, double, leading and trailing spaces (the space is an ordinary symbol)
EVENTS += [(h, 1.0) for h in SPACED]                  # ('extreme' sub-sweep as well)
BOUNDS = {'quick': dict(depth=3), 'thorough': dict(depth=4)}
BOUNDS['replay'] = BOUNDS['quick']
EPS = 1e-9
START = []


def setup(tier):
    pass


def shards(tier):
    d = BOUNDS[tier]['depth']
    out = [{'first': None}]      # histories of length 1
    out.append({'long': True})
    out.append({'faults': True})
    for spec in MANY_PATHS:
        out.append({'many_paths': list(spec)})
    for i in range(N_MAIN, len(EVENTS)):
        out.append({'extreme': i})
    for i in range(N_MAIN):
        for j in (range(len(EVENTS)) if d >= 4 else [None]):
            out.append({'first': i, 'second': j})
    return out


def run_shard(shard, ctx, tier):
    from mc.core import guarded_check
    import sys
    mod = sys.modules[__name__]
    d = BOUNDS[tier]['depth']
    n = N_MAIN
    if 'many_paths' in shard:
        guarded_check(mod, {'many_paths': shard['many_paths']}, ctx)
        return
    if 'faults' in shard:
        for i in range(0, N_MAIN, 2):
            for j in range(1, N_MAIN, 2):
                guarded_check(mod, {'faults': [i, j]}, ctx)
        return
    if 'long' in shard:
        for n in (130, 260, 300):
            for var in range(len(LONG_VARIANTS)):
                guarded_check(mod, {'long': n, 'var': var}, ctx)
        guarded_check(mod, {'long': 1200, 'var': 1}, ctx)          # a line of more than 1000 symbols (beyond the default recursion depth)
        return
    if 'extreme' in shard:
        # histories that contain a hypothesis with a vanishing score: the tiny event at any position of a history of length <= d - 1
        t = shard['extreme']
        guarded_check(mod, {'hist': [t]}, ctx)
        for L in range(2, d):
            for rest in itertools.product(range(len(EVENTS)), repeat=L - 1):
                for pos in range(L):
                    hist = list(rest[:pos]) + [t] + list(rest[pos:])
                    if pos == 0 or all(x < N_MAIN for x in rest[:pos]):      # each history once: t is its first tiny event
                        guarded_check(mod, {'hist': hist}, ctx)
        return
    if shard['first'] is None:
        for i in range(n):
            guarded_check(mod, {'hist': [i]}, ctx)
        guarded_check(mod, {'boh': True}, ctx)
        return
    i = shard['first']
    if shard['second'] is None:
        for L in range(2, d + 1):
            for rest in itertools.product(range(n), repeat=L - 1):
                guarded_check(mod, {'hist': [i] + list(rest)}, ctx)
    else:
        j = shard['second']
        guarded_check(mod, {'hist': [i, j]}, ctx) if True else None
        for L in range(3, d + 1):
            for rest in itertools.product(range(n), repeat=L - 2):
                guarded_check(mod, {'hist': [i, j] + list(rest)}, ctx)


# ---------------------------------------------------------------- reference: languages of sausage automata
def skippable(pos):
    return None in pos


def step(cn, S, c):
    """positions reachable after reading symbol c from any position in S (skipping skippable positions)"""
    out = set()
    for j in S:
        k = j
        while k < len(cn):
            if c in cn[k]:
                out.add(k + 1)
            if not skippable(cn[k]):
                break
            k += 1
    return frozenset(out)


def accepts_end(cn, S):
    for j in S:
        k = j
        while k < len(cn) and skippable(cn[k]):
            k += 1
        if k == len(cn):
            return True
    return False


def member(cn, s):
    S = frozenset([0])
    for c in s:
        S = step(cn, S, c)
        if not S:
            return False
    return accepts_end(cn, S)


def included(A, B):
    """L(A) subset of L(B)?  returns (True, None) or (False, witness string)"""
    seen = set()
    stack = [(0, frozenset([0]), '')]
    while stack:
        i, S, w = stack.pop()
        if (i, S) in seen:
            continue
        seen.add((i, S))
        if i == len(A):
            if not accepts_end(B, S):
                return False, w
            continue
        for sym in A[i]:
            if sym is None:
                stack.append((i + 1, S, w))
            else:
                S2 = step(B, S, sym)
                if not S2:
                    # w+sym may still be a dead prefix in A only if A cannot complete -- A always can (pick any arcs)
                    return False, w + sym + '...'
                stack.append((i + 1, S2, w + sym))
    return True, None


def embedding_ok(before, after, score, transcript):
    """order-preserving injection of before's positions into after's such that each image equals the original with
    exactly one arc increased by `score` (or created with `score`), and every other position of `after` is new:
    it has a None arc and carries a transcript symbol with weight `score`."""
    n, m = len(before), len(after)

    def same_plus_one(b, a):
        if set(a) - set(b):
            extra = list(set(a) - set(b))
            if len(extra) != 1 or set(b) - set(a):
                return False
            if nabs(a[extra[0]] - score) > EPS:
                return False
            return all(abs(a[k] - b[k]) <= EPS for k in b)
        if set(b) - set(a):
            return False
        diffs = [k for k in b if nabs(a[k] - b[k]) > EPS]
        if not diffs and score <= EPS:
            return True                     # a vanishing score is absorbed by the float sum; nothing observable has to change
        return len(diffs) == 1 and abs(a[diffs[0]] - b[diffs[0]] - score) <= EPS

    def is_new(a):
        syms = [k for k in a if k is not None]
        return None in a and len(syms) == 1 and nabs(a[syms[0]] - score) <= EPS and a[None] > 0 and syms[0] in transcript

    # DP: ok[i][j] = before[i:] embeds into after[j:]
    ok = [[False] * (m + 2) for _ in range(n + 2)]
    for j in range(m, -1, -1):
        ok[n][j] = all(is_new(after[x]) for x in range(j, m))
    for i in range(n - 1, -1, -1):
        for j in range(m - 1, -1, -1):
            r = False
            if same_plus_one(before[i], after[j]) and ok[i + 1][j + 1]:
                r = True
            elif is_new(after[j]) and ok[i][j + 1]:
                r = True
            ok[i][j] = r
    return ok[0][0]


def canon(cn):
    return tuple(tuple(sorted(((k if k is not None else '\0'), round(v, 9)) for k, v in pos.items())) for pos in cn)


def check_boh(ctx):
    from pero_ocr.decoding.confusion_networks import produce_cn_from_boh, add_hypothese, normalize_cn, best_cn_path
    from pero_ocr.decoding.bag_of_hypotheses import BagOfHypotheses
    VIS = [-0.5, -2.0]
    LMS = [None, -1.0, -0.25]
    for hs in itertools.chain(itertools.permutations(['ab', 'abb', 'b', ''], 1), itertools.permutations(['ab', 'abb', 'b', ''], 2),
                              itertools.permutations(['ab', 'abb', 'b', ''], 3)):
        for vis in itertools.product(VIS, repeat=len(hs)):
            # every hypothesis has its own LM score or none (a bag may hold hypotheses that the LM has scored next to ones it has not)
            for lms in itertools.product(LMS, repeat=len(hs)):
                lm = lms[0] if len(set(lms)) == 1 else lms
                for vw, lw in ((1.0, 1.0), (0.5, 2.0)):
                    boh = BagOfHypotheses()
                    for h, v, l_ in zip(hs, vis, lms):
                        boh.add(h, v, l_)
                    cn = produce_cn_from_boh(boh, visual_weight=vw, lm_weight=lw, normalize=False)
                    ctx.executed()
                    ref = []
                    for h, v, l_ in zip(hs, vis, lms):
                        ref = add_hypothese(ref, h, math.exp(vw * v + (lw * l_ if l_ is not None else 0.0)))
                    if len({l_ is None for l_ in lms}) == 2:
                        ctx.tag('bag-with-and-without-lm-scores')
                    ctx.state(('boh', canon(cn)))
                    if canon(cn) != canon(ref):
                        ctx.violation('built-from-bag', f'{ID}/produce_cn_from_boh/weights',
                                      f'bag {list(zip(hs, vis))} lm={lm} weights ({vw},{lw}): {cn} != fold of add_hypothese with exp(score) {ref}',
                                      {'boh': True})
                    cnn = produce_cn_from_boh(boh, visual_weight=vw, lm_weight=lw, normalize=True)
                    ctx.executed()
                    for pos in cnn:
                        if nabs(sum(pos.values()) - 1) > EPS:
                            ctx.violation('normalised-sums-to-one', f'{ID}/produce_cn_from_boh/not-normalised', f'{cnn}', {'boh': True})
                    for n0, h in enumerate(hs):
                        if not member(cnn, h):
                            if h == '' and n0 == 0:
                                ctx.violation('new-hypothesis-readable', f'{ID}/add/empty-hypothesis-added-to-empty-network-lost',
                                              f"bag {hs}: '' (first hypothesis, added to the empty network) not readable from {cnn}", {'boh': True})
                                continue
                            ctx.violation('new-hypothesis-readable', f'{ID}/produce_cn_from_boh/hypothesis-lost',
                                          f'bag {hs}: {h!r} not readable from {cnn}', {'boh': True})
                    if len(hs) == 1 and best_cn_path(cnn) != hs[0]:
                        ctx.violation('single-hypothesis-reads-back', f'{ID}/produce_cn_from_boh/single', f'{hs} -> {best_cn_path(cnn)!r}', {'boh': True})
                    if lm is not None:
                        ctx.nontrivial(('boh', hs, vis, lm, vw), 'bag-with-lm-scores')


LONG_VARIANTS = ['same', 'one-substitution', 'insertion-at-the-end', 'two-insertions', 'deletion-in-the-middle', 'insertion-at-position-255']


def long_history(n, var):
    """two or three hypotheses of more than 127 / 255 symbols (sizes at which narrow integer types overflow)"""
    base = ''.join('ab'[(i // 3 + i) % 2] for i in range(n))
    v = LONG_VARIANTS[var]
    if v == 'same':
        other = base
    elif v == 'one-substitution':
        other = base[:n // 2] + ('a' if base[n // 2] == 'b' else 'b') + base[n // 2 + 1:]
    elif v == 'insertion-at-the-end':
        other = base + 'ab'
    elif v == 'two-insertions':
        other = 'b' + base[:n // 3] + 'a' + base[n // 3:]
    elif v == 'deletion-in-the-middle':
        other = base[:n // 2] + base[n // 2 + 2:]
    else:
        k = min(255, n - 1)
        other = base[:k] + ('a' if base[k] == 'b' else 'b') + base[k:]
    return [(base, 1.0), (other, 0.5), (base, 0.5)]


def check_case(case, ctx):
    from pero_ocr.decoding.confusion_networks import add_hypothese, normalize_cn, sorted_cn_paths, best_cn_path
    if case.get('boh'):
        return check_boh(ctx)
    if 'faults' in case:
        return check_faults(case, ctx)
    if 'many_paths' in case:
        return check_many_paths(case, ctx)
    if 'long' in case:
        hist = long_history(case['long'], case['var'])
        ctx.tag('hypotheses-longer-than-255')
        for cut in (2, 3):
            check_history(dict(case, hist=[0] * cut), ctx, hist[:cut])
        return
    check_history(case, ctx, [EVENTS[i] for i in case['hist']])


# networks with very many paths: hypotheses that disagree in every position (n positions x a arcs -> a**n paths), on both sides of 2**16, 10**5, 2**17
MANY_PATHS = [(15, 2), (16, 2), (17, 2), (10, 3), (11, 3)]


def check_many_paths(case, ctx):
    from pero_ocr.decoding.confusion_networks import add_hypothese, normalize_cn, sorted_cn_paths
    n, a = case['many_paths']
    hyps = ['a' * n, 'b' * n, 'c' * n][:a]
    scores = [1.0, 0.5, 0.25][:a]
    cn = []
    for h, sc in zip(hyps, scores):
        cn = add_hypothese(cn, h, sc)
    fin = normalize_cn(copy.deepcopy(cn))
    with ctx.time_limit(300):
        paths = sorted_cn_paths(copy.deepcopy(fin))
    ctx.executed(a + 2)
    ctx.state(('many_paths', n, a))
    want = a ** n
    desc = f'{a} hypotheses of {n} symbols that disagree everywhere ({want} arc combinations)'
    texts = {st for st, _ in paths}
    total = math.fsum(p for _, p in paths)
    if len(fin) != n or any(len(pos) != a for pos in fin):
        ctx.violation('paths-are-all-arc-combinations', f'{ID}/many-paths/network-shape', f'{desc}: network {fin[:2]}...')
        return
    if len(paths) != want or len(texts) != want:
        ctx.violation('paths-are-all-arc-combinations', f'{ID}/sorted_cn_paths/not-the-product/more-than-65536-paths',
                      f'{desc}: {len(paths)} paths enumerated, {len(texts)} distinct')
        return
    if not (nabs(total - 1.0) <= 1e-9):
        ctx.violation('paths-sum-to-one', f'{ID}/sorted_cn_paths/sum', f'{desc}: the path probabilities sum to {total}')
        return
    if any(not (paths[i][1] >= paths[i + 1][1] - 1e-15) for i in range(len(paths) - 1)):
        ctx.violation('paths-non-increasing', f'{ID}/sorted_cn_paths/order', f'{desc}: probabilities are not non-increasing')
        return
    if any(h not in texts for h in hyps):
        ctx.violation('new-hypothesis-readable', f'{ID}/sorted_cn_paths/hypothesis-not-among-the-paths', f'{desc}')
        return
    ctx.outcome(('many_paths', want))
    ctx.nontrivial(('many_paths', n, a), 'network-with-more-than-65536-paths' if want > 65536 else 'network-with-many-paths')


def check_faults(case, ctx):
    """environment answers (mc/faults.py): every single failing array allocation while a hypothesis is added (the alignment with the pivot).  The call
    may report the failure; a network it returns nevertheless holds the earlier hypothesis and the new one, with the weights of a proper addition"""
    from pero_ocr.decoding.confusion_networks import add_hypothese
    from mc import faults
    (h1, s1), (h2, s2) = [EVENTS[i] for i in case['faults']]
    ctx.state(('faults', tuple(case['faults'])))
    inj = faults.Injector(faults.numpy_allocators(), faults.memory_error)
    base = add_hypothese([], h1, s1)
    want = add_hypothese(copy.deepcopy(base), h2, s2)
    for kk, site, (what, val) in inj.explore(lambda: add_hypothese(copy.deepcopy(base), h2, s2)):
        ctx.executed()
        if kk is None:
            if what != 'ok':
                raise val
            continue
        ctx.tag('fault-points')
        if what == 'raised':
            ctx.tag('failure-reported')
            continue
        ctx.nontrivial(('fault', tuple(case['faults']), kk), 'network-returned-despite-a-failed-allocation')
        if canon(val) != canon(want) and not (member(val, h2) and (member(val, h1) or h1 == '') and (not base or embedding_ok(base, val, s2, h2))):
            ctx.violation('new-hypothesis-readable', f'{ID}/add/network-returned-after-a-failed-allocation',
                          f'{h2!r} (score {s2}) added to the network of {h1!r}: with the allocation #{kk} ({site[2]} in {site[0]}:{site[1]}) raising MemoryError '
                          f'add_hypothese returned {val}; a proper addition gives {want}')
            return


def check_history(case, ctx, hist):
    from pero_ocr.decoding.confusion_networks import add_hypothese, normalize_cn, sorted_cn_paths, best_cn_path
    cn = START                      # every network is started from the SAME empty list object; it has to stay empty
    for h, s in hist[:-1]:
        cn = add_hypothese(cn, h, s)
    before = copy.deepcopy(cn)
    h, s = hist[-1]
    after = add_hypothese(cn, h, s)
    ctx.executed(len(hist))
    if START:
        leaked = list(START)
        del START[:]
        ctx.violation('single-hypothesis-reads-back', f'{ID}/add/empty-start-network-modified-in-place',
                      f'history {hist}: the empty list passed as the start network now holds {leaked}; the next network built from it inherits that')
        return
    ctx.state(canon(after))
    desc = f'history {hist}: before={before} after={after}'
    if any(sc in (TINY, TINY2, TINY3) for _, sc in hist):
        ctx.tag('vanishing-score-hypothesis')

    inc, w = included(before, after) if before else (True, None)
    if not inc:
        ctx.violation('keeps-readable-strings', f'{ID}/add/string-lost', f'{w!r} was readable before but not after; {desc}')
    if not member(after, h):
        ctx.violation('new-hypothesis-readable', f'{ID}/add/new-hypothesis-not-readable-in-order',
                      f'{h!r} cannot be read (in its symbol order) after being added; {desc}')
    for n0, (h0, _) in enumerate(hist[:-1]):
        if not member(after, h0):
            if h0 == '' and all(x == '' for x, _ in hist[:n0]):
                # the empty hypothesis was added to a still empty network, which cannot represent it ([] stays [])
                ctx.violation('keeps-readable-strings', f'{ID}/add/empty-hypothesis-added-to-empty-network-lost',
                              f"'' was added while the network was empty and is not readable once a non-empty hypothesis follows; {desc}")
                continue
            ctx.violation('keeps-readable-strings', f'{ID}/add/earlier-hypothesis-lost', f'{h0!r} no longer readable; {desc}')
            break
    if before:
        if not embedding_ok(before, after, s, h):
            ctx.violation('no-weight-lost', f'{ID}/add/weights',
                          f'existing positions must each gain exactly {s} on one arc and new positions carry the new symbol '
                          f'with weight {s} and a skip arc; {desc}')
        if len(after) > len(before):
            ctx.tag('insertion')
            if len(after) >= len(before) + 2:
                ctx.nontrivial(case['hist'], 'several-insertions-in-one-add')
    # final network
    fin = normalize_cn(copy.deepcopy(after))
    ctx.executed()
    for pos in fin:
        if nabs(sum(pos.values()) - 1) > EPS:
            ctx.violation('normalised-sums-to-one', f'{ID}/normalize/position-sum', f'{pos} in {fin}; {desc}')
            break
    # normalisation rescales the arcs of a position, it neither drops nor adds any (every hypothesis stays a path of the normalised network)
    if len(fin) != len(after) or any(set(a) != set(b) for a, b in zip(fin, after)):
        ctx.violation('paths-are-all-arc-combinations', f'{ID}/normalize/arcs-changed',
                      f'normalize_cn turns {after} into {fin}: the arc sets differ; {desc}')
    elif any(s_ in (TINY, TINY2, TINY3) for _, s_ in hist) and any(len(p) > 1 for p in fin):
        ctx.tag('normalised-position-with-a-vanishing-arc')
    if any(' ' in h_ for h_, _ in hist):
        ctx.tag('hypotheses-with-spaces')
    n_comb = 1
    for pos in fin:
        n_comb *= len(pos)
    if n_comb <= 4000:
        paths = sorted_cn_paths(copy.deepcopy(fin))
        ctx.executed()
        if fin:
            ref = []
            for arcs in itertools.product(*[list(p.items()) for p in fin]):
                st, pr = '', 1.0
                for c, p in arcs:
                    if c is not None:
                        st += c
                    pr *= p
                ref.append((st, pr))
            got = sorted((st, round(p, 9)) for st, p in paths)
            want = sorted((st, round(p, 9)) for st, p in ref)
            if got != want:
                ctx.violation('paths-are-all-arc-combinations', f'{ID}/sorted_cn_paths/not-the-product',
                              f'{len(paths)} paths for {n_comb} arc combinations; {fin}')
            elif any(paths[i][1] < paths[i + 1][1] - 1e-12 for i in range(len(paths) - 1)):
                ctx.violation('paths-sorted', f'{ID}/sorted_cn_paths/order', f'{paths[:6]}')
            elif nabs(sum(p for _, p in paths) - 1) > 1e-9:
                ctx.violation('paths-sum-to-one', f'{ID}/sorted_cn_paths/sum', f'{sum(p for _, p in paths)}')
            ctx.outcome(len(paths))
        elif paths != []:
            ctx.violation('paths-are-all-arc-combinations', f'{ID}/sorted_cn_paths/empty', f'{paths}')
    else:
        ctx.tag('sorted-paths-skipped-too-many-combinations')
    if len(hist) == 1:
        got = best_cn_path(normalize_cn(copy.deepcopy(after)))
        ctx.executed()
        if got != h:
            ctx.violation('single-hypothesis-reads-back', f'{ID}/best_cn_path/single', f'{h!r} reads back as {got!r}')
    if len(case['hist']) == 2 and 'long' not in case:
        ctx.sample({'history': hist, 'network': [{str(k): v for k, v in p.items()} for p in after]})


def describe(tier):
    return {
        'rule': 'all histories of add_hypothese events (15 strings over {a,b} of length<=3, incl. empty, x scores {1,0.5}) up to '
                'the depth bound; state = canonical network (sorted arcs, weights rounded to 1e-9); oracle on the last step of '
                'every history and on the final network. Non-trivial: an add that inserted >= 2 new positions at once.',
        'bounds': BOUNDS[tier], 'alphabets': {'strings': STRINGS, 'scores': SCORES},
        'assumptions': ['sorted_cn_paths is compared with the full product only when the product has <= 4000 paths (counter reports skips)'],
        'min_nontrivial': 20, 'required_tags': ['normalised-position-with-a-vanishing-arc', 'hypotheses-with-spaces', 'hypotheses-longer-than-255', 'vanishing-score-hypothesis', 'insertion', 'several-insertions-in-one-add', 'bag-with-lm-scores', 'bag-with-and-without-lm-scores', 'fault-points', 'failure-reported', 'network-with-more-than-65536-paths'],
    }
