"""C16 - Every reported confidence is a probability derived from normalised posteriors.

Space: (a) input tree of logit matrices (T <= Tmax rows over a 9-row alphabet: one-hot rows with margin 40, peaky, diffuse,
ties, rows stored sparsely whose missing entries take the -80 floor) x ALL alignable transcriptions of each matrix;
per-frame shifts c in {-5, +3.3} applied to EVERY subset of frames (T <= Tshift); a threshold grid containing 0, 1, inf
and the probabilities that occur.  (b) operation histories on a live BagOfHypotheses: add(transcript, vis, lm),
assign lm_weight, query - all histories up to depth D.

Oracle: range [0,1], sum of posteriors = 1, equality with the soft-max of vis + weight*lm, shift invariance (1e-9),
one-hot => 1, monotonicity of the confident-line test in its threshold.

(c) what the SYSTEM reports for a line of a page: PageParser.process_page -> line.transcription_confidence -> conf= in PAGE XML, and
PageLayout.to_altoxml_string -> line.transcription_confidence, WC= of the words.  Space: every matrix with T <= Texport rows x every
alignable transcription x the state in which the exporter finds the companions of the logits (characters / logit_coords given, window
open, no characters, no window, window narrower than the text, text longer than the line - the last four make the exporter's alignment
unavailable, and it then reports a fall-back value) x every subset of frames shifted.  The root of the input tree - the matrix with NO
frame - is a node like any other.  (d) histories of load_logits on one long-lived PageLayout: files in the current format (characters +
logit window) and in the older format (matrices only), of different shapes, one-hot and peaky, every history up to load_depth; after
every load the export must report what a fresh page that loaded only the last file reports (and 1 for one-hot posteriors).
"""
import itertools
import math

import numpy as np

ID = 'C16'

MANIFEST = dict(
    technique='explicit-state enumeration of the logit-matrix input tree x all alignable transcriptions x all frame-shift subsets x threshold grid, and of all operation histories on a live BagOfHypotheses; real confidence code vs range/normalisation/invariance oracles',
    text='Bounded exhaustive: every logit matrix with T <= 4 rows over a 9-row alphabet (C=3) with every alignable transcription, every subset of frames shifted by -5 / +3.3 (T <= 3), a threshold grid incl. 0, 1, inf and the occurring probabilities, through get_line_confidence, get_letter_confidence, PageParser.compute_line_confidence and line_confident_enough; and every history (depth <= 3 quick / 4 thorough) of add / set-lm_weight / query events on one BagOfHypotheses, whose posteriors must be the soft-max of vis + weight*lm after every event. Added sub-sweeps: frame shifts of +800, thresholds from -inf to inf, logits re-assigned on a live TextLine, float32 logits, caller-supplied log-probabilities passed twice, the cropped-window call of the ALTO exporter, and lines of more than 1000 frames. Frames shifted by -120 (below the floor given to pruned entries) where every class is stored. Page level: the matrix without frames (root of the tree), and for every matrix with T <= 2 (3 thorough) x every alignable transcription x 6 states of the line\'s characters / logit window (alignment available or not: the exporter\'s fall-back value is a reported confidence too) x every shifted subset of frames, what PageParser.process_page, to_altoxml_string (line confidence, WC) and to_pagexml_string (conf) report; and every history of <= 2 (3 thorough) load_logits calls on one live PageLayout over 16 files (current / older format without window and characters, two shapes, padded or not, one-hot / peaky), exported after every load and compared with a fresh page. Ownership of results: at every query point of a bag history the caller edits the list posteriors() gave it back (exp in place / reversed / emptied) and asks the same bag again (all answers unchanged), and a list held from an earlier query still reads the same after later events and queries. Tied frame shifts: for every ordered pair of frames (T <= 3) constants that compensate each other - frame masses 1.5 + 0.5 with the other frames at mass 1 (total mass stays T), and log-masses +2 / -2 (their sum stays 0) - through all four confidence functions, and the row-normalised log-posteriors themselves handed to line_confident_enough.',
    note='Real-valued logits outside the alphabet are not explored; word confidences in ALTO are checked under C06.',
    ref='3/C16')

ROWS = [
    [20.0, -20.0, -20.0], [-20.0, 20.0, -20.0], [-20.0, -20.0, 20.0],    # one-hot a / b / blank (margin 40)
    [2.0, 0.5, 1.0], [0.5, 2.0, 1.0],                                     # peaky but diffuse
    [1.0, 1.0, 1.0], [1.5, 1.5, -1.0],                                    # ties
    [3.0, None, None], [None, None, 4.0],                                 # sparse rows: None = not stored -> floor -80
]
ONEHOT = {0, 1, 2}
SHIFTS = [-5.0, 3.3]
# log-masses given to a pair of frames that compensate each other: masses 1.5 + 0.5 = 2 (arithmetic mean 1), log-masses +2 - 2 = 0 (geometric mean 1)
TIED_T = 3      # ... on every ordered pair of frames of the matrices with at most this many frames
COMP_PAIRS = [(math.log(1.5), math.log(0.5)), (2.0, -2.0)]
BOUNDS = {'quick': dict(T=4, Tshift=3, bag_depth=3, Texport=2, Texport_shift=2, load_depth=2, Ttied_labels=2),
          'thorough': dict(T=5, Tshift=4, bag_depth=4, Texport=3, Texport_shift=2, load_depth=3, Ttied_labels=3)}
BOUNDS['replay'] = BOUNDS['quick']
BASE_T = [float('-inf'), -1.0, -1e-9, 0.0, 1e-6, 0.1, 1 / 3, 0.5, 0.9, 0.99, 1.0, 2.0, float('inf')]
TOL = 1e-9

BAG_TR = ['a', 'b']
BAG_VIS = [-0.1, -2.0, -30.0]
BAG_LM = [None, -0.5, -4.0]
BAG_W = [0.0, 0.5, 1.0, 3.0]
BAG_EVENTS = [('add', t, v, l) for t in BAG_TR for v in BAG_VIS for l in BAG_LM] + [('w', w) for w in BAG_W]
BAG_EDITS = ['exp-in-place', 'reversed', 'emptied']     # what a caller does with the list posteriors() gave it

CHARS = ['a', 'b', '\u200b']
# the state in which the ALTO exporter finds the companions of a line's logits; the first two let it align the transcription, with the others
# its alignment is not available (TypeError / ValueError inside the exporter, which it handles by reporting a fall-back confidence)
EXPORT_STATES = ['window-given', 'window-open', 'no-characters', 'no-window', 'window-narrower-than-text', 'text-longer-than-line']
EXPORT_ALIGNS = {'window-given', 'window-open'}
# .logits files: (format, frames per character, blank frames of padding on either side, posteriors)
LOAD_CHARS = ['a', 'b', ' ', '\u200b']
LOAD_TEXT = 'ab a'
LOAD_FILES = [(fmt, fpc, pad, kind) for fmt in ('current', 'older') for fpc in (1, 2) for pad in (0, 3) for kind in ('one-hot', 'peaky')]


def setup(tier):
    from pero_ocr.core.force_alignment import force_align
    force_align(np.asarray([[0.1, 2.0], [2.0, 0.1]]), [0], 1)
    export_page('window-given', [0, 2, 1], [0, 1]).to_altoxml_string()      # warm-up (compiled helpers of the exporter) before the workers fork


def shards(tier):
    b = BOUNDS[tier]
    out = []
    R = len(ROWS)
    for t in range(0, b['T'] + 1):          # T = 0: the root of the input tree, the matrix without frames
        if t <= 2:
            out.append({'kind': 'mat', 'T': t, 'prefix': []})
        else:
            for p in itertools.product(range(R), repeat=2):
                out.append({'kind': 'mat', 'T': t, 'prefix': list(p)})
    for i in range(len(BAG_EVENTS)):
        out.append({'kind': 'bag', 'first': i})
    out.append({'kind': 'long'})
    for r in range(R):
        out.append({'kind': 'export', 'first': r})
    for i in range(len(LOAD_FILES)):
        out.append({'kind': 'loads', 'first': i})
    return out


def run_shard(shard, ctx, tier):
    from mc.core import guarded_check
    import sys
    mod = sys.modules[__name__]
    b = BOUNDS[tier]
    if shard['kind'] == 'long':
        for T in (499, 501, 999, 1001, 1100, 2100):
            for place in ('start', 'middle', 'end'):
                for n in (1, 2, 4):
                    guarded_check(mod, {'long': [T, place, n]}, ctx)
        return
    if shard['kind'] == 'export':
        for T in range(1, b['Texport'] + 1):
            for rest in itertools.product(range(len(ROWS)), repeat=T - 1):
                for labels in labels_for(T):
                    guarded_check(mod, {'export': [shard['first']] + list(rest), 'labels': labels, 'shifts': T <= b['Texport_shift']}, ctx)
        return
    if shard['kind'] == 'loads':
        for L in range(1, b['load_depth'] + 1):
            for rest in itertools.product(range(len(LOAD_FILES)), repeat=L - 1):
                guarded_check(mod, {'loads': [shard['first']] + list(rest)}, ctx)
        return
    if shard['kind'] == 'mat':
        T, prefix = shard['T'], shard['prefix']
        for rest in itertools.product(range(len(ROWS)), repeat=T - len(prefix)):
            case = {'rows': prefix + list(rest), 'shifts': T <= b['Tshift']}
            if case['shifts'] and T > b['Ttied_labels']:
                case['tied'] = 'line'
            guarded_check(mod, case, ctx)
    else:
        i = shard['first']
        n = len(BAG_EVENTS)
        if BAG_EVENTS[i][0] != 'add':
            return   # a history starts with an add (an empty bag has no posteriors)
        for L in range(1, b['bag_depth'] + 1):
            for rest in itertools.product(range(n), repeat=L - 1):
                guarded_check(mod, {'bag': [i] + list(rest)}, ctx)


def make_line(rows, shift=None, dtype=np.float64):
    from scipy import sparse
    from pero_ocr.core.layout import TextLine
    T = len(rows)
    M = np.zeros((T, 3), dtype=dtype)
    for t, r in enumerate(rows):
        for c, v in enumerate(ROWS[r]):
            if v is not None:
                M[t, c] = v + (shift[t] if shift is not None else 0.0)
    line = TextLine(id='l', logits=sparse.csc_matrix(M), characters=['a', 'b', '​'], logit_coords=[0, T])
    return line


def storable(rows, shift):
    """a sparse logit matrix cannot hold a logit of exactly 0 (0 = not stored, takes the floor): such a shifted matrix exists as a dense array only"""
    return not any(v is not None and v + shift[t] == 0.0 for t, r in enumerate(rows) for v in ROWS[r])


def dense_ref(rows, shift=None):
    T = len(rows)
    M = np.full((T, 3), -80.0)
    for t, r in enumerate(rows):
        for c, v in enumerate(ROWS[r]):
            if v is not None:
                M[t, c] = v + (shift[t] if shift is not None else 0.0)
    return M


def labels_for(T):
    for L in range(1, T + 1):
        for lab in itertools.product((0, 1), repeat=L):
            need = L + sum(1 for a, b in zip(lab, lab[1:]) if a == b)
            if need <= T:
                yield list(lab)


def in01(x):
    x = np.asarray(x, dtype=float)
    return bool(np.all(np.isfinite(x)) and np.all(x >= -1e-12) and np.all(x <= 1 + 1e-12))


def far(a, b, tol=TOL):
    """NaN-aware 'differs by more than tol' (a NaN on either side counts as far; uninitialised memory is handed out as NaN)"""
    with np.errstate(invalid='ignore'):
        d = np.abs(np.asarray(a, dtype=float) - np.asarray(b, dtype=float))
    return not bool(np.all(d <= tol))


def check_matrix(case, ctx):
    from pero_ocr.core.confidence_estimation import get_line_confidence, get_letter_confidence
    from pero_ocr.core.force_alignment import force_align, align_text
    from pero_ocr.document_ocr.page_parser import PageParser, line_confident_enough
    rows = case['rows']
    T = len(rows)
    ctx.state(tuple(rows))
    K = f'{ID}'
    line = make_line(rows)
    dense = dense_ref(rows)
    logp = dense - np.logaddexp.reduce(dense, axis=1)[:, None]
    onehot = all(r in ONEHOT for r in rows)
    subsets = []
    tied = set()

    tied_per_label = case.get('tied', 'all') == 'all'       # 'line': tied shifts go through the two line-level functions only

    def shift_class(sh):
        return 'compensating-shifts' if tuple(sh) in tied else 'shift'
    if case.get('shifts'):
        for c in SHIFTS + ([800.0] if T <= 2 else []):      # +800: beyond the overflow limit of a naive exp() in float64
            for m in range(1, 2 ** T):
                subsets.append([c if (m >> t) & 1 else 0.0 for t in range(T)])
        # -120: the whole frame ends up far BELOW the floor that pruned entries are given (-80); only frames in which every class is stored can
        # be shifted that far (a pruned entry stays at the floor, so the frame would not be shifted as a whole)
        full = [t for t, r in enumerate(rows) if all(v is not None for v in ROWS[r])]
        for m in range(1, 2 ** len(full)):
            subsets.append([-120.0 if t in full and (m >> full.index(t)) & 1 else 0.0 for t in range(T)])
            ctx.tag('frame-shifted-below-the-floor-of-pruned-entries')
        # compensating shifts: constants on two frames that are TIED to each other so that an aggregate of the whole matrix keeps the value it has
        # for row-normalised input, although neither frame is normalised - the total probability mass stays T (frame masses f and 2 - f), or the
        # sum of the log-masses stays 0 (+c and -c).  Every shift here moves frame t to log-mass COMP[..][t], whatever its mass was before.
        lse = np.logaddexp.reduce(dense, axis=1)
        for i, j in itertools.permutations(range(T if T <= TIED_T else 0), 2):
            for ci, cj in COMP_PAIRS:
                subsets.append([float(-lse[t] + (ci if t == i else cj if t == j else 0.0)) for t in range(T)])
                tied.add(tuple(subsets[-1]))
                ctx.tag('compensating-frame-shifts')

    # ---- page-level line confidence and the confident-line test
    clc = float(PageParser.compute_line_confidence(line))
    ctx.executed()
    if not in01(clc):
        ctx.violation('in-unit-interval', f'{K}/compute_line_confidence/range', f'rows {rows}: {clc}')
    if onehot and far(clc, 1):
        ctx.violation('one-hot-gives-1', f'{K}/compute_line_confidence/one-hot', f'rows {rows}: {clc}')
    worst = float(np.exp(np.min(np.max(logp, axis=1))))
    grid = sorted(set(BASE_T + [worst, worst * (1 - 1e-7), worst * (1 + 1e-7), clc]))
    prev = None
    res = []
    for t in grid:
        r = bool(line_confident_enough(dense.copy(), t))
        ctx.executed()
        res.append(r)
        if prev is not None and r and not prev[1]:
            ctx.violation('confident-test-monotone-in-threshold', f'{K}/line_confident_enough/not-monotone',
                          f'rows {rows}: confident at threshold {t} but not at the lower threshold {prev[0]} '
                          f'(worst best-posterior {worst})')
            break
        prev = (t, r)
    ctx.outcome((round(clc, 6), tuple(res)))
    if True in res and False in res:
        ctx.tag('threshold-grid-splits')
    # the caller hands in posteriors that ARE row-normalised already (what PageDecoder does): the same answers as for the raw logits
    ts = [t for t in grid if not abs(t - worst) <= 1e-6]      # a threshold equal to the probability is decided by round-off
    rn = [bool(line_confident_enough(logp.copy(), t)) for t in ts]
    ctx.executed(len(ts))
    if rn != [r for t, r in zip(grid, res) if t in ts] and len(res) == len(grid):
        ctx.violation('invariant-to-per-frame-shift', f'{K}/line_confident_enough/row-normalised-input',
                      f'rows {rows}: thresholds {ts}: {rn} for the row-normalised log-posteriors, {res} (grid {grid}) for the logits they come from')
    ctx.tag('row-normalised-input')
    ts = [t for t in BASE_T if not abs(t - worst) <= 1e-6]      # a threshold equal to the probability is decided by round-off
    r1 = [bool(line_confident_enough(dense.copy(), t)) for t in ts] if subsets else []
    ctx.executed(len(r1))
    for sh in subsets:
        c2 = clc
        if storable(rows, sh):
            l2 = make_line(rows, sh)
            c2 = float(PageParser.compute_line_confidence(l2))
            ctx.executed()
        if far(c2, clc):
            ctx.violation('invariant-to-per-frame-shift', f'{K}/compute_line_confidence/{shift_class(sh)}',
                          f'rows {rows}, shift {sh}: {clc} -> {c2}')
            break
        d2 = dense_ref(rows, sh)
        r2 = [bool(line_confident_enough(d2.copy(), t)) for t in ts]
        ctx.executed(len(ts))
        if r1 != r2:
            ctx.violation('invariant-to-per-frame-shift', f'{K}/line_confident_enough/{shift_class(sh)}', f'rows {rows}, shift {sh}: {r1} -> {r2}')
            break

    # ---- the logits as the engines store them (float32, sparse): same confidences, and the stored logits are only read
    l32 = make_line(rows, dtype=np.float32)
    keep = l32.logits.toarray().copy()
    c32 = float(PageParser.compute_line_confidence(l32))
    c32b = float(PageParser.compute_line_confidence(l32))
    ctx.executed(2)
    if far(c32, clc, 1e-5) or not c32b == c32:
        ctx.violation('computed-from-the-lines-own-posteriors', f'{K}/compute_line_confidence/float32',
                      f'rows {rows}: float32 logits give {c32} (again: {c32b}), float64 logits {clc}')
        return
    for labels in ([0], [1], [0, 1]):
        if len(labels) > T:
            continue
        try:
            # one alignment for both (with tied alignments float32 round-off may legitimately pick another optimum)
            al = None if T == len(labels) else align_text(-logp, np.asarray(labels), 2)
            g32 = np.asarray(get_line_confidence(l32, np.asarray(labels), aligned_letters=al), dtype=float)
            g64 = np.asarray(get_line_confidence(line, np.asarray(labels), aligned_letters=al), dtype=float)
        except ValueError:
            continue
        ctx.executed(2)
        if g32.shape != g64.shape or far(g32, g64, 1e-5):
            ctx.violation('computed-from-the-lines-own-posteriors', f'{K}/get_line_confidence/float32',
                          f'rows {rows}, labels {labels}: float32 logits give {g32}, float64 logits {g64}')
            return
    c32c = float(PageParser.compute_line_confidence(l32))
    ctx.executed()
    if not c32c == c32:
        ctx.violation('computed-from-the-lines-own-posteriors', f'{K}/compute_line_confidence/changes-after-other-confidence-calls',
                      f'rows {rows}: line confidence {c32} before and {c32c} after the per-character confidences of the same line were computed '
                      f'(stored logits modified: {not np.array_equal(l32.logits.toarray(), keep)})')
        return
    ctx.tag('float32-logits')
    # ---- history on one TextLine object: after new logits are assigned, every confidence is computed from the NEW logits
    rows2 = [(r + 1 + t) % len(ROWS) for t, r in enumerate(rows)]
    if rows2 != list(rows):
        fresh = make_line(rows2)
        want2 = float(PageParser.compute_line_confidence(fresh))
        lp2 = fresh.get_full_logprobs()
        line.get_full_logprobs()
        line.get_dense_logits()
        line.logits = make_line(rows2).logits
        got2 = float(PageParser.compute_line_confidence(line))
        lpg = line.get_full_logprobs()
        ctx.executed(6)
        lab1 = np.asarray([0])
        ok = (not far(got2, want2)) and np.array_equal(lpg, lp2)
        if ok and T == 1:
            c_new = np.asarray(get_line_confidence(line, lab1), dtype=float)
            c_ref = np.asarray(get_line_confidence(fresh, lab1), dtype=float)
            ok = c_new.shape == c_ref.shape and not far(c_new, c_ref)
        if not ok:
            ctx.violation('computed-from-the-lines-own-posteriors', f'{K}/stale-after-logits-reassigned',
                          f'rows {rows}: after assigning the logits of rows {rows2} to the same TextLine, confidences are not those of the new logits '
                          f'(line confidence {got2}, fresh line {want2})')
            return
        line.logits = make_line(rows).logits
        ctx.tag('logits-reassigned-on-a-live-line')
    # ---- per-character confidences for every alignable transcription
    for labels in labels_for(T):
        sub = dict(case, labels=labels)
        if 'labels' in case and case['labels'] != labels:
            continue
        lab = np.asarray(labels)
        if T == len(labels):
            aligned = None                 # the "one output per label" path needs no alignment
        else:
            try:
                aligned = align_text(-logp, lab, 2)
            except ValueError:
                continue
        conf = np.asarray(get_line_confidence(line, lab, aligned_letters=aligned), dtype=float)
        ctx.executed()
        if conf.shape != (len(labels),) or not in01(conf):
            ctx.violation('in-unit-interval', f'{K}/get_line_confidence/range', f'rows {rows}, labels {labels}: {conf}', sub)
            continue
        # a caller that holds the log-posteriors itself and scores several transcriptions against them: its second use of the same matrix gives the same confidences
        mine = logp.copy()
        ca = np.asarray(get_line_confidence(line, lab, aligned, mine), dtype=float)
        cb = np.asarray(get_line_confidence(line, lab, aligned, mine), dtype=float)
        ctx.executed(2)
        if ca.shape != conf.shape or cb.shape != conf.shape or far(ca, conf) or far(cb, conf):
            ctx.violation('computed-from-the-lines-own-posteriors', f'{K}/get_line_confidence/caller-supplied-log-probs',
                          f'rows {rows}, labels {labels}: with the log-posteriors passed in by the caller the first call gives {ca}, the second {cb} '
                          f'(without: {conf}); matrix modified: {not np.array_equal(mine, logp)}', sub)
            continue
        path = [int(np.argmax(dense[t])) for t in range(T)]
        col = [k for k, _ in itertools.groupby(path) if k != 2]
        if onehot and col == labels and far(conf, 1):
            ctx.violation('one-hot-gives-1', f'{K}/get_line_confidence/one-hot', f'rows {rows}, labels {labels}: {conf}', sub)
        if onehot and col == labels:
            ctx.tag('one-hot-line')
            if len(labels) >= 2 and len(set(zip(labels, labels[1:])) & {(0, 0), (1, 1)}) == 0:
                # the call the ALTO export makes: a padded line, the log-probs cropped to the frame window, which here holds exactly one
                # frame per character
                from scipy import sparse
                from pero_ocr.core.layout import TextLine
                Mx = np.full((len(labels) + 4, 3), -20.0)
                Mx[:, 2] = 20.0
                for k, l in enumerate(labels):
                    Mx[2 + k] = [-20.0, -20.0, -20.0]
                    Mx[2 + k, l] = 20.0
                pl = TextLine(id='p', logits=sparse.csc_matrix(Mx), characters=['a', 'b', '​'], logit_coords=[2, 2 + len(labels)])
                crop_lp = pl.get_full_logprobs()[2:2 + len(labels)]
                al = align_text(-crop_lp, lab, 2)
                cw = np.asarray(get_line_confidence(pl, lab, al, crop_lp), dtype=float)
                ctx.executed(2)
                if cw.shape != (len(labels),) or far(cw, 1):
                    ctx.violation('one-hot-gives-1', f'{K}/get_line_confidence/one-hot-cropped-window',
                                  f'padded one-hot line for labels {labels}, log-probs cropped to its frame window [2,{2 + len(labels)}]: {cw}', sub)
                    return
                ctx.tag('cropped-window-call')
        if T > len(labels):
            ctx.nontrivial((tuple(rows), tuple(labels)), 'aligned-ctc-line')
            ali = force_align(-logp, labels, 2)
            lc = np.exp(np.asarray(get_letter_confidence(dense.copy(), ali, 2), dtype=float))
            ctx.executed(2)
            if lc.shape != (len(labels),) or not in01(lc):
                ctx.violation('in-unit-interval', f'{K}/get_letter_confidence/range', f'rows {rows}, labels {labels}: {lc}', sub)
            elif onehot and col == labels and far(lc, 1):
                ctx.violation('one-hot-gives-1', f'{K}/get_letter_confidence/one-hot', f'rows {rows}, labels {labels}: {lc}', sub)
        else:
            ali = None
            ctx.tag('one-frame-per-label-line')
        for sh in subsets:
            if tuple(sh) in tied and not tied_per_label:
                continue
            c2 = conf
            if storable(rows, sh):
                l2 = make_line(rows, sh)
                c2 = np.asarray(get_line_confidence(l2, lab, aligned_letters=aligned), dtype=float)
                ctx.executed()
            if c2.shape != conf.shape or far(c2, conf):
                ctx.violation('invariant-to-per-frame-shift', f'{K}/get_line_confidence/{shift_class(sh)}',
                              f'rows {rows}, labels {labels}, shift {sh}: {conf} -> {c2}', sub)
                break
            if ali is not None:
                lc2 = np.exp(np.asarray(get_letter_confidence(dense_ref(rows, sh), ali, 2), dtype=float))
                ctx.executed()
                if lc2.shape != lc.shape or far(lc2, lc):
                    ctx.violation('invariant-to-per-frame-shift', f'{K}/get_letter_confidence/{shift_class(sh)}',
                                  f'rows {rows}, labels {labels}, shift {sh}: {lc} -> {lc2}', sub)
                    break
    if T == 2:
        ctx.sample({'rows': [ROWS[r] for r in rows], 'compute_line_confidence': clc})


def bag_answers(boh):
    """[posteriors (a copy), confidence, transcript confidences] as the bag reports them now"""
    return [list(boh.posteriors()), float(boh.confidence())] + [float(boh.transcript_confidence(t)) for t in BAG_TR]


def check_bag(case, ctx):
    from pero_ocr.decoding.bag_of_hypotheses import BagOfHypotheses
    evs = [BAG_EVENTS[i] for i in case['bag']]
    first_w = next((e[1] for e in evs if e[0] == 'w'), None)
    boh = BagOfHypotheses() if (first_w is None or len(evs) % 2) else BagOfHypotheses(lm_weight=1.0)
    model, w = [], boh.lm_weight
    K = f'{ID}/bag'
    held = None         # (the list an earlier posteriors() call returned, which the caller still holds; its content at that time; the history then)
    for n, e in enumerate(evs):
        if e[0] == 'add':
            boh.add(e[1], e[2], e[3])
            model.append((e[1], e[2], e[3]))
        else:
            boh.lm_weight = e[1]
            w = e[1]
        ctx.executed()
        if n < len(evs) - 1 and n % 2 == 1:
            continue        # query after the first, third ... and always after the last event
        if held is not None:
            # the caller kept the result of an earlier query while the bag went on (events, further queries): what it holds is still that result
            boh.posteriors()
            boh.confidence()
            ctx.executed(2)
            if len(held[0]) != len(held[1]) or far(held[0], held[1], 0.0):
                ctx.violation('posteriors-from-normalised-scores', f'{K}/held-result-changed-by-later-use-of-the-bag',
                              f'posteriors() after history {held[2]} returned {held[1]}; after the further events {evs[len(held[2]):n + 1]} and queries '
                              f'the list the caller still holds reads {list(held[0])}')
                return
            ctx.tag('bag-result-held-across-events')
        post = np.exp(np.asarray(boh.posteriors(), dtype=float))
        conf = boh.confidence()
        ctx.executed(2)
        desc = f'history {evs[:n + 1]}'
        if post.shape != (len(model),) or not in01(post) or far(post.sum(), 1):
            ctx.violation('posteriors-sum-to-1', f'{K}/posteriors-not-a-distribution', f'{desc}: exp(posteriors) = {post}, sum {post.sum()}')
            return
        if not in01(conf) or far(conf, post.max()):
            ctx.violation('in-unit-interval', f'{K}/confidence', f'{desc}: confidence {conf}, posteriors {post}')
            return
        if all(l is not None for _, _, l in model) or all(l is None for _, _, l in model):
            tot = np.asarray([v + (w * l if l is not None else 0.0) for _, v, l in model])
            ref = np.exp(tot - np.logaddexp.reduce(tot))
            if far(ref, post):
                ctx.violation('posteriors-from-normalised-scores', f'{K}/posteriors-differ-from-softmax',
                              f'{desc}: exp(posteriors) = {post}, soft-max of vis + {w}*lm = {ref}')
                return
        for t in BAG_TR + ['zz']:
            tc = boh.transcript_confidence(t)
            ctx.executed()
            if not in01(tc) or (t == 'zz' and not tc == 0.0):
                ctx.violation('in-unit-interval', f'{K}/transcript_confidence', f'{desc}: transcript_confidence({t!r}) = {tc}')
                return
        # the caller does something with the list it was GIVEN BACK (it is the caller's: converting log-posteriors to probabilities in place,
        # reordering, emptying it) and asks the same bag again: every answer is still that of the bag's hypotheses
        first = bag_answers(boh)
        for edit in (BAG_EDITS if n == len(evs) - 1 else BAG_EDITS[:1]):      # every prefix of a history is a history: all edits at its end
            mine = boh.posteriors()
            if edit == 'exp-in-place':
                for k in range(len(mine)):
                    mine[k] = math.exp(mine[k])
            elif edit == 'reversed':
                mine.reverse()
            else:
                del mine[:]
            again = bag_answers(boh)
            ctx.executed(2 * (2 + len(BAG_TR)) + 1)
            if len(again[0]) != len(first[0]) or far(again[0], first[0]) or far(again[1:], first[1:]) or not in01(again[1:]):
                ctx.violation('posteriors-from-normalised-scores', f'{K}/answers-change-after-caller-edits-the-returned-posteriors',
                              f'{desc}: the caller edits the list posteriors() returned ({edit}); before: posteriors {first[0]}, confidence {first[1]}, '
                              f'transcript confidences {first[2:]}; the same bag afterwards: posteriors {again[0]}, confidence {again[1]}, '
                              f'transcript confidences {again[2:]}')
                return
        ctx.tag('bag-caller-edits-returned-posteriors')
        lst = boh.posteriors()
        held = (lst, list(lst), evs[:n + 1])
    ctx.state(('bag', tuple(model), w))
    ctx.outcome(('bag', round(float(conf), 6)))
    if any(e[0] == 'w' for e in evs[1:]) and any(l is not None for _, _, l in model):
        ctx.nontrivial(tuple(case['bag']), 'bag-weight-changed-between-queries')


def check_long(case, ctx):
    """very long lines (more frames than any fixed sentinel): per-character confidences are still probabilities"""
    from scipy import sparse
    from pero_ocr.core.layout import TextLine
    from pero_ocr.core.confidence_estimation import get_line_confidence
    from pero_ocr.document_ocr.page_parser import PageParser
    T, place, n = case['long']
    M = np.full((T, 3), -6.0)
    M[:, 2] = 6.0
    first = {'start': 2, 'middle': T // 2 - n, 'end': T - 2 * n - 3}[place]
    labels = [i % 2 for i in range(n)]
    for i, l in enumerate(labels):
        M[first + 2 * i, l] = 9.0
    line = TextLine(id='l', logits=sparse.csc_matrix(M), characters=['a', 'b', '​'], logit_coords=[0, T])
    ctx.state(('long', T, place, n))
    conf = np.asarray(get_line_confidence(line, np.asarray(labels)), dtype=float)
    clc = float(PageParser.compute_line_confidence(line))
    ctx.executed(2)
    if conf.shape != (n,) or not in01(conf) or not in01(clc):
        ctx.violation('in-unit-interval', f'{ID}/long-line/range', f'{T} frames, {n} characters near the {place}: {conf}, line confidence {clc}')
        return
    if far(conf, conf[0], 1e-6):
        ctx.violation('computed-from-the-lines-own-posteriors', f'{ID}/long-line/position-dependent',
                      f'{T} frames, {n} identically shaped characters near the {place}: confidences differ {conf}')
        return
    ctx.outcome(('long', round(float(conf[0]), 6)))
    if T > 1000:
        ctx.nontrivial(('long', T, place, n), 'lines-with-more-than-1000-frames')


# ------------------------------------------------------------------ (c) what the system reports for a line of a page
_PARSER = []


def page_parser():
    """a real PageParser that runs no engine: process_page only (re)computes the line confidences"""
    if not _PARSER:
        import configparser
        from pero_ocr.document_ocr.page_parser import PageParser
        config = configparser.ConfigParser()
        config['PAGE_PARSER'] = {}
        _PARSER.append(PageParser(config))
    return _PARSER[0]


def page_of(line_id, text, logits, characters, logit_coords):
    from pero_ocr.core.layout import PageLayout, RegionLayout, TextLine
    y = 60.
    line = TextLine(id=line_id, transcription=text, heights=[20., 8.], baseline=np.array([[20., y], [400., y]]),
                    polygon=np.array([[20., y - 20], [400., y - 20], [400., y + 8], [20., y + 8]]),
                    logits=logits, characters=characters, logit_coords=logit_coords)
    layout = PageLayout(id='page', page_size=(300, 500))
    region = RegionLayout('r1', np.array([[10., 10.], [450., 10.], [450., 280.], [10., 280.]]))
    region.lines = [line]
    layout.regions = [region]
    return layout


def min_frames(labels):
    return len(labels) + sum(1 for a, b in zip(labels, labels[1:]) if a == b)


def export_page(state, rows, labels, shift=None, dtype=np.float64):
    T = len(rows)
    text = ''.join('ab'[l] for l in labels)
    chars, coords = list(CHARS), [0, T]
    if state == 'window-open':
        coords = [None, None]                    # what load_logits gives a line whose file has no window
    elif state == 'no-characters':
        chars = None                             # a file without character table, and nobody supplied one
    elif state == 'no-window':
        coords = None                            # a TextLine built without logit_coords
    elif state == 'window-narrower-than-text':
        coords = [0, min_frames(labels) - 1]     # one frame less than the text needs (for a single character: the empty window)
    elif state == 'text-longer-than-line':
        text = text + 'ab' * T                   # e.g. corrected by hand: more characters than the line has frames
    return page_of('l', text, make_line(rows, shift, dtype).logits, chars, coords)


def reported_by_export(layout):
    """(confidence the ALTO export leaves on the line, WC of its words, conf= that a following PAGE XML export writes)"""
    import lxml.etree as ET
    root = ET.fromstring(layout.to_altoxml_string().encode('utf-8'))
    line = next(layout.lines_iterator())
    left = line.transcription_confidence
    wc = [float(e.get('WC')) for e in root.iter('{*}String') if e.get('WC') is not None]
    written = reported_in_page_xml(layout)
    return (None if left is None else float(left)), wc, written


def reported_in_page_xml(layout):
    import lxml.etree as ET
    page = ET.fromstring(layout.to_pagexml_string().encode('utf-8'))
    for tl in page.iter('{*}TextLine'):
        te = tl.find('{*}TextEquiv')
        if te is not None and te.get('conf') is not None:
            return float(te.get('conf'))
    return None


def probabilities(*values):
    """every value that IS reported (None = nothing reported) is a probability"""
    return all(in01(v) for v in values if v is not None)


def check_parser_report(layout, ctx, key, desc):
    """PageParser.process_page -> line.transcription_confidence -> conf= in PAGE XML"""
    page_parser().process_page(None, layout)
    line = next(layout.lines_iterator())
    got = line.transcription_confidence
    written = reported_in_page_xml(layout)
    ctx.executed(2)
    if not probabilities(got, written):
        ctx.violation('in-unit-interval', key, f'{desc}: PageParser.process_page leaves line confidence {got!r}, PAGE XML says conf={written!r}')
        return None
    return got


def check_export(case, ctx):
    rows, labels = case['export'], case['labels']
    T = len(rows)
    K = f'{ID}/export'
    ctx.state(('export', tuple(rows), tuple(labels)))
    dense = dense_ref(rows)
    onehot = all(r in ONEHOT for r in rows)
    path = [int(np.argmax(dense[t])) for t in range(T)]
    spelled = onehot and [k for k, _ in itertools.groupby(path) if k != 2] == list(labels)
    subsets = []
    if case.get('shifts'):
        for c in SHIFTS:
            for m in range(1, 2 ** T):
                subsets.append([c if (m >> t) & 1 else 0.0 for t in range(T)])
    out = []
    for state in EXPORT_STATES:
        if 'state' in case and case['state'] != state:
            continue
        sub = dict(case, state=state)
        aligns = state in EXPORT_ALIGNS
        cls = 'aligned' if aligns else 'alignment-unavailable'
        desc = f'rows {rows}, transcription {labels}, line state {state!r}'
        layout = export_page(state, rows, labels)
        if state == 'window-given':
            if check_parser_report(layout, ctx, f'{K}/page-parser/range', desc) is None:
                continue
        try:
            conf, wc, written = reported_by_export(layout)
        except Exception:  # noqa
            if state != 'text-longer-than-line':
                raise
            ctx.tag('export-refused-unalignable-text')    # outside the quantifier (alignable transcriptions): refusing it is no finding
            continue
        ctx.executed(2)
        out.append((state, None if conf is None else round(conf, 6)))
        if not probabilities(conf, written, *wc):
            ctx.violation('in-unit-interval', f'{K}/{cls}/range',
                          f'{desc}: ALTO export leaves line confidence {conf!r}, WC {wc}, PAGE XML then says conf={written!r}', sub)
            continue
        if aligns:
            ctx.tag('export-aligned')
            if spelled and conf is not None and (far(conf, 1) or far(wc, 1)):
                ctx.violation('one-hot-gives-1', f'{K}/{cls}/one-hot', f'{desc}: one-hot posteriors that spell the transcription, reported line confidence '
                              f'{conf!r}, WC {wc}', sub)
                continue
            if spelled:
                ctx.tag('export-one-hot-line')
        else:
            ctx.nontrivial(('export', tuple(rows), tuple(labels), state), 'export-alignment-unavailable')
            if state == 'window-narrower-than-text' and min_frames(labels) == 1:
                ctx.tag('export-empty-window')
        # shift invariance of what is reported.  With an alignment only where it is forced (one frame per character): elsewhere the exporter
        # aligns the shifted copy itself, and round-off may legitimately resolve a tie between alignments differently
        if aligns and T != len(labels):
            continue
        for sh in subsets:
            c2, wc2, wr2 = reported_by_export(export_page(state, rows, labels, sh))
            ctx.executed(2)
            same = (c2 is None) == (conf is None) and (wr2 is None) == (written is None) and len(wc2) == len(wc)
            if same and conf is not None:
                same = not far(c2, conf)
            if same and written is not None:
                same = not far(wr2, written, 0.0011)           # written with three decimals
            if same and wc:
                same = not far(wc2, wc, 0.011)                 # written with two decimals
            if not same:
                ctx.violation('invariant-to-per-frame-shift', f'{K}/{cls}/shift',
                              f'{desc}, shift {sh}: reported line confidence {conf!r} -> {c2!r}, WC {wc} -> {wc2}, PAGE XML conf {written!r} -> {wr2!r}', sub)
                break
        else:
            if subsets:
                ctx.tag('export-shifted')
    ctx.outcome(('export', tuple(out)))


def check_no_frames(case, ctx):
    """the root of the input tree: a line whose logit matrix has no frame (the engine produces such matrices for crops narrower than one
    output frame).  Such a line may be refused (any exception); a confidence that IS reported for it has to be a probability."""
    from pero_ocr.core.confidence_estimation import get_line_confidence
    from pero_ocr.document_ocr.page_parser import PageParser, line_confident_enough
    K = f'{ID}'
    ctx.state(())
    out = []
    for dtype in (np.float64, np.float32):
        for coords in ([0, 0], [None, None]):
            desc = f'line without frames ({np.dtype(dtype).name} logits of shape (0, 3), logit_coords {coords})'
            line = make_line([], dtype=dtype)
            line.logit_coords = coords
            try:
                clc = PageParser.compute_line_confidence(line)
            except Exception:  # noqa
                clc = None
            ctx.executed()
            if clc is not None:
                ctx.tag('line-without-frames')
                if not in01(clc):
                    ctx.violation('in-unit-interval', f'{K}/compute_line_confidence/range', f'{desc}: {clc!r}')
                    continue
            try:
                conf = np.asarray(get_line_confidence(line, np.asarray([], dtype=int)), dtype=float)
            except Exception:  # noqa
                conf = None
            ctx.executed()
            if conf is not None and (conf.shape != (0,) or not in01(conf)):
                ctx.violation('in-unit-interval', f'{K}/get_line_confidence/range', f'{desc}, no labels: {conf}')
                continue
            # the page: PageParser.process_page, then the exports (a transcription cannot be aligned to no frames: the exporter's fall-back value)
            layout = page_of('l', 'a', make_line([], dtype=dtype).logits, list(CHARS), coords)
            try:
                got = check_parser_report(layout, ctx, f'{K}/export/page-parser/range', desc)
                rep = reported_by_export(layout)
            except Exception:  # noqa
                continue
            ctx.executed(2)
            if got is None:
                continue
            if not probabilities(rep[0], rep[2], *rep[1]):
                ctx.violation('in-unit-interval', f'{K}/export/alignment-unavailable/range',
                              f'{desc}: ALTO export leaves line confidence {rep[0]!r}, WC {rep[1]}, PAGE XML then says conf={rep[2]!r}')
                continue
            ctx.tag('page-with-a-line-without-frames')
            out.append((None if clc is None else round(float(clc), 6), round(float(got), 6), rep[0]))
    # the confident-line test on the matrix without frames: it may refuse; what it answers must be monotone in the threshold
    res = []
    for t in BASE_T:
        try:
            res.append(bool(line_confident_enough(np.zeros((0, 3)), t)))
        except Exception:  # noqa
            res.append(None)
        ctx.executed()
    ans = [(t, r) for t, r in zip(BASE_T, res) if r is not None]
    for (t1, r1), (t2, r2) in zip(ans, ans[1:]):
        if r2 and not r1:
            ctx.violation('confident-test-monotone-in-threshold', f'{K}/line_confident_enough/not-monotone',
                          f'matrix without frames: confident at threshold {t2} but not at the lower threshold {t1}')
            break
    ctx.outcome(('no-frames', tuple(out), tuple(res)))


# ------------------------------------------------------------------ (d) histories of load_logits on one live PageLayout
_LOAD_MEMO = {}


def load_matrix(fpc, pad, kind):
    from scipy import sparse
    blank = len(LOAD_CHARS) - 1
    seq = [blank] * pad
    for ch in LOAD_TEXT:
        seq += [LOAD_CHARS.index(ch)] * fpc + [blank]
    seq += [blank] * pad
    hi, lo = (20.0, -20.0) if kind == 'one-hot' else (3.0, 0.5)
    M = np.full((len(seq), len(LOAD_CHARS)), lo)
    M[np.arange(len(seq)), seq] = hi
    return sparse.csc_matrix(M)


def load_file(i):
    """the bytes of .logits file i: the current format is written by the library itself (save_logits_bytes), the older one is a pickled
    dict of the matrices only"""
    if ('file', i) not in _LOAD_MEMO:
        import pickle
        fmt, fpc, pad, kind = LOAD_FILES[i]
        M = load_matrix(fpc, pad, kind)
        if fmt == 'older':
            data = pickle.dumps({'l1': M}, protocol=4)
        else:
            data = page_of('l1', LOAD_TEXT, M, list(LOAD_CHARS), [pad, M.shape[0] - pad]).save_logits_bytes()
        _LOAD_MEMO[('file', i)] = data
    return _LOAD_MEMO[('file', i)]


def load_and_export(layout, i):
    layout.load_logits(load_file(i))
    if LOAD_FILES[i][0] == 'older':
        for line in layout.lines_iterator():
            line.characters = list(LOAD_CHARS)        # the older format has no character table: its user supplies it
    return reported_by_export(layout)


def fresh_report(i):
    """what a fresh page that loads only file i reports (memo keyed by the file alone: nothing else goes in)"""
    if ('fresh', i) not in _LOAD_MEMO:
        _LOAD_MEMO[('fresh', i)] = load_and_export(page_of('l1', LOAD_TEXT, None, None, None), i)
    return _LOAD_MEMO[('fresh', i)]


def check_loads(case, ctx):
    hist = case['loads']
    K = f'{ID}/load-history'
    layout = page_of('l1', LOAD_TEXT, None, None, None)         # a page as read from PAGE XML: no logits yet
    conf = None
    for n, i in enumerate(hist):
        desc = f'history of load_logits {[LOAD_FILES[j] for j in hist[:n + 1]]}, then ALTO export'
        conf, wc, written = load_and_export(layout, i)
        ctx.executed(3)
        if not probabilities(conf, written, *wc):
            ctx.violation('in-unit-interval', f'{K}/range', f'{desc}: line confidence {conf!r}, WC {wc}, PAGE XML conf={written!r}')
            return
        if LOAD_FILES[i][3] == 'one-hot' and (conf is None or far(conf, 1) or not wc or far(wc, 1)):
            ctx.violation('one-hot-gives-1', f'{K}/one-hot',
                          f'{desc}: the posteriors now on the line are one-hot and spell the transcription, reported line confidence {conf!r}, WC {wc}')
            return
        f_conf, f_wc, f_written = fresh_report(i)
        ctx.executed(3)
        if (conf is None) != (f_conf is None) or len(wc) != len(f_wc) or (conf is not None and far(conf, f_conf)) or (wc and far(wc, f_wc, 0.011)):
            ctx.violation('computed-from-the-lines-own-posteriors', f'{K}/differs-from-fresh-page',
                          f'{desc}: line confidence {conf!r}, WC {wc}; a fresh page that loaded only the last file reports {f_conf!r}, WC {f_wc}')
            return
    ctx.state(('loads', tuple(hist)))
    ctx.outcome(('loads', None if conf is None else round(conf, 6)))
    if len(hist) >= 2 and LOAD_FILES[hist[-1]][:3] != LOAD_FILES[hist[-2]][:3]:
        ctx.nontrivial(('loads', tuple(hist)), 'logits-reloaded-on-a-live-page')
        if LOAD_FILES[hist[-1]][0] == 'older' and LOAD_FILES[hist[-2]][0] == 'current':
            ctx.tag('older-format-loaded-over-current-format')


def check_case(case, ctx):
    if 'long' in case:
        return check_long(case, ctx)
    if 'export' in case:
        return check_export(case, ctx)
    if 'loads' in case:
        return check_loads(case, ctx)
    if 'rows' in case and len(case['rows']) == 0:
        return check_no_frames(case, ctx)
    if 'bag' in case:
        check_bag(case, ctx)
    else:
        check_matrix(case, ctx)


def describe(tier):
    return {
        'rule': 'all matrices with T<=T rows over the 9-row alphabet x all alignable transcriptions over {a,b}; every non-empty subset '
                'of frames shifted by -5 or +3.3 for T<=Tshift; threshold grid = 10 fixed values + the occurring worst-best '
                'probability (+-1e-7) + the line confidence; all bag histories (18 adds + 4 weight assignments) up to bag_depth, '
                'queried after every other event and at the end; at every query point the caller also edits the list posteriors() returned '
                '(3 edits) and asks again, and looks again at the list it kept from the previous query point. For T<=Tshift and T>=2 every ordered '
                'pair of frames x 2 pairs of compensating log-masses. state = distinct matrix / bag content. Non-trivial: a line with more '
                'frames than labels (real alignment), or a bag history that changes lm_weight between queries with LM scores present. '
                'Page level: the matrix without frames; all matrices with T<=Texport x all alignable transcriptions x 6 states of the line\'s characters / '
                'logit window x every non-empty subset of frames shifted (T<=Texport_shift), observed through PageParser.process_page, to_altoxml_string and '
                'to_pagexml_string (non-trivial: the exporter has no alignment and reports its fall-back value); all histories of <= load_depth load_logits '
                'calls over 16 files on one live PageLayout, exported after every load (non-trivial: the last two files differ in format or shape).',
        'bounds': BOUNDS[tier],
        'alphabets': {'rows': [[('floor' if v is None else v) for v in r] for r in ROWS], 'shifts': SHIFTS,
                      'thresholds': [str(t) for t in BASE_T], 'bag_vis': BAG_VIS, 'bag_lm': [str(x) for x in BAG_LM], 'bag_weights': BAG_W,
                      'bag_caller_edits': BAG_EDITS, 'compensating_log_masses_of_a_frame_pair': [list(p) for p in COMP_PAIRS],
                      'export_line_states': EXPORT_STATES, 'logits_files': [list(f) for f in LOAD_FILES]},
        'assumptions': ['tolerance 1e-9 on shift invariance and normalisation', 'alignment is computed once and reused for the shifted copy, '
                        'so that round-off cannot flip a tie in the alignment', 'shift invariance of an ALTO export that aligns the text itself is compared only where the '
                        'alignment is forced (one frame per character); WC / conf are compared at the precision they are written with',
                        'a shifted matrix with a logit of exactly 0 exists only as a dense array (a sparse line cannot store it) and is given to line_confident_enough / '
                        'get_letter_confidence only',
                        'a line without frames, or a text longer than its line, may be refused (exception); a value that is reported must be a probability'],
        'min_nontrivial': 100,
        'required_tags': ['line-without-frames', 'page-with-a-line-without-frames', 'export-aligned', 'export-one-hot-line', 'export-alignment-unavailable', 'export-empty-window',
                          'export-shifted', 'logits-reloaded-on-a-live-page', 'older-format-loaded-over-current-format',
                          'frame-shifted-below-the-floor-of-pruned-entries', 'cropped-window-call', 'float32-logits', 'lines-with-more-than-1000-frames', 'logits-reassigned-on-a-live-line', 'aligned-ctc-line', 'one-hot-line', 'one-frame-per-label-line', 'threshold-grid-splits',
                          'bag-weight-changed-between-queries', 'bag-caller-edits-returned-posteriors', 'bag-result-held-across-events',
                          'compensating-frame-shifts', 'row-normalised-input'],
    }
