"""C16 - Every reported confidence is a probability derived from normalised posteriors.

Space: (a) input tree of logit matrices (T <= Tmax rows over a 9-row alphabet: one-hot rows with margin 40, peaky, diffuse,
ties, rows stored sparsely whose missing entries take the -80 floor) x ALL alignable transcriptions of each matrix;
per-frame shifts c in {-5, +3.3} applied to EVERY subset of frames (T <= Tshift); a threshold grid containing 0, 1, inf
and the probabilities that occur.  (b) operation histories on a live BagOfHypotheses: add(transcript, vis, lm),
assign lm_weight, query - all histories up to depth D.

Oracle: range [0,1], sum of posteriors = 1, equality with the soft-max of vis + weight*lm, shift invariance (1e-9),
one-hot => 1, monotonicity of the confident-line test in its threshold.
"""
import itertools
import math

import numpy as np

ID = 'C16'

MANIFEST = dict(
    technique='explicit-state enumeration of the logit-matrix input tree x all alignable transcriptions x all frame-shift subsets x threshold grid, and of all operation histories on a live BagOfHypotheses; real confidence code vs range/normalisation/invariance oracles',
    text='Bounded exhaustive: every logit matrix with T <= 4 rows over a 9-row alphabet (C=3) with every alignable transcription, every subset of frames shifted by -5 / +3.3 (T <= 3), a threshold grid incl. 0, 1, inf and the occurring probabilities, through get_line_confidence, get_letter_confidence, PageParser.compute_line_confidence and line_confident_enough; and every history (depth <= 3 quick / 4 thorough) of add / set-lm_weight / query events on one BagOfHypotheses, whose posteriors must be the soft-max of vis + weight*lm after every event. Added sub-sweeps: frame shifts of +800, thresholds from -inf to inf, logits re-assigned on a live TextLine, float32 logits, caller-supplied log-probabilities passed twice, the cropped-window call of the ALTO exporter, and lines of more than 1000 frames. Frames shifted by -120 (below the floor given to pruned entries) where every class is stored.',
    note='Real-valued logits outside the alphabet are not explored; word confidences in ALTO are checked under C06.',
    ref='3/C16')

ROWS = [
    [20.0, -20.0, -20.0], [-20.0, 20.0, -20.0], [-20.0, -20.0, 20.0],    # one-hot a / b / blank (margin 40)
    [2.0, 0.5, 1.0], [0.5, 2.0, 1.0],                                     # peaky but diffuse
    [1.0, 1.0, 1.0], [1.5, 1.5, -1.0],                                    # ties
    [3.0, None, None], [None, None, 4.0],                                 # sparse rows: None = not stored -> floor -80
]
ONEHOT = {0, 1, 2}
SHIFTS = [-5.0, 3.3]
BOUNDS = {'quick': dict(T=4, Tshift=3, bag_depth=3), 'thorough': dict(T=5, Tshift=4, bag_depth=4)}
BOUNDS['replay'] = BOUNDS['quick']
BASE_T = [float('-inf'), -1.0, -1e-9, 0.0, 1e-6, 0.1, 1 / 3, 0.5, 0.9, 0.99, 1.0, 2.0, float('inf')]
TOL = 1e-9

BAG_TR = ['a', 'b']
BAG_VIS = [-0.1, -2.0, -30.0]
BAG_LM = [None, -0.5, -4.0]
BAG_W = [0.0, 0.5, 1.0, 3.0]
BAG_EVENTS = [('add', t, v, l) for t in BAG_TR for v in BAG_VIS for l in BAG_LM] + [('w', w) for w in BAG_W]


def setup(tier):
    from pero_ocr.core.force_alignment import force_align
    force_align(np.asarray([[0.1, 2.0], [2.0, 0.1]]), [0], 1)


def shards(tier):
    b = BOUNDS[tier]
    out = []
    R = len(ROWS)
    for t in range(1, b['T'] + 1):
        if t <= 2:
            out.append({'kind': 'mat', 'T': t, 'prefix': []})
        else:
            for p in itertools.product(range(R), repeat=2):
                out.append({'kind': 'mat', 'T': t, 'prefix': list(p)})
    for i in range(len(BAG_EVENTS)):
        out.append({'kind': 'bag', 'first': i})
    out.append({'kind': 'long'})
    return out


def run_shard(shard, ctx, tier):
    from mc.core import guarded_check
    import sys
    mod = sys.modules[__name__]
    b = BOUNDS[tier]
    if shard['kind'] == 'long':
        for T in (499, 501, 999, 1001, 1100, 2100):
            for place in ('start', 'middle', 'end'):
                for n in (1, 2, 4):
                    guarded_check(mod, {'long': [T, place, n]}, ctx)
        return
    if shard['kind'] == 'mat':
        T, prefix = shard['T'], shard['prefix']
        for rest in itertools.product(range(len(ROWS)), repeat=T - len(prefix)):
            guarded_check(mod, {'rows': prefix + list(rest), 'shifts': T <= b['Tshift']}, ctx)
    else:
        i = shard['first']
        n = len(BAG_EVENTS)
        if BAG_EVENTS[i][0] != 'add':
            return   # a history starts with an add (an empty bag has no posteriors)
        for L in range(1, b['bag_depth'] + 1):
            for rest in itertools.product(range(n), repeat=L - 1):
                guarded_check(mod, {'bag': [i] + list(rest)}, ctx)


def make_line(rows, shift=None, dtype=np.float64):
    from scipy import sparse
    from pero_ocr.core.layout import TextLine
    T = len(rows)
    M = np.zeros((T, 3), dtype=dtype)
    for t, r in enumerate(rows):
        for c, v in enumerate(ROWS[r]):
            if v is not None:
                M[t, c] = v + (shift[t] if shift is not None else 0.0)
    line = TextLine(id='l', logits=sparse.csc_matrix(M), characters=['a', 'b', '​'], logit_coords=[0, T])
    return line


def dense_ref(rows, shift=None):
    T = len(rows)
    M = np.full((T, 3), -80.0)
    for t, r in enumerate(rows):
        for c, v in enumerate(ROWS[r]):
            if v is not None:
                M[t, c] = v + (shift[t] if shift is not None else 0.0)
    return M


def labels_for(T):
    for L in range(1, T + 1):
        for lab in itertools.product((0, 1), repeat=L):
            need = L + sum(1 for a, b in zip(lab, lab[1:]) if a == b)
            if need <= T:
                yield list(lab)


def in01(x):
    x = np.asarray(x, dtype=float)
    return bool(np.all(np.isfinite(x)) and np.all(x >= -1e-12) and np.all(x <= 1 + 1e-12))


def check_matrix(case, ctx):
    from pero_ocr.core.confidence_estimation import get_line_confidence, get_letter_confidence
    from pero_ocr.core.force_alignment import force_align, align_text
    from pero_ocr.document_ocr.page_parser import PageParser, line_confident_enough
    rows = case['rows']
    T = len(rows)
    ctx.state(tuple(rows))
    K = f'{ID}'
    line = make_line(rows)
    dense = dense_ref(rows)
    logp = dense - np.logaddexp.reduce(dense, axis=1)[:, None]
    onehot = all(r in ONEHOT for r in rows)
    subsets = []
    if case.get('shifts'):
        for c in SHIFTS + ([800.0] if T <= 2 else []):      # +800: beyond the overflow limit of a naive exp() in float64
            for m in range(1, 2 ** T):
                subsets.append([c if (m >> t) & 1 else 0.0 for t in range(T)])
        # -120: the whole frame ends up far BELOW the floor that pruned entries are given (-80); only frames in which every class is stored can
        # be shifted that far (a pruned entry stays at the floor, so the frame would not be shifted as a whole)
        full = [t for t, r in enumerate(rows) if all(v is not None for v in ROWS[r])]
        for m in range(1, 2 ** len(full)):
            subsets.append([-120.0 if t in full and (m >> full.index(t)) & 1 else 0.0 for t in range(T)])
            ctx.tag('frame-shifted-below-the-floor-of-pruned-entries')

    # ---- page-level line confidence and the confident-line test
    clc = float(PageParser.compute_line_confidence(line))
    ctx.executed()
    if not in01(clc):
        ctx.violation('in-unit-interval', f'{K}/compute_line_confidence/range', f'rows {rows}: {clc}')
    if onehot and abs(clc - 1) > TOL:
        ctx.violation('one-hot-gives-1', f'{K}/compute_line_confidence/one-hot', f'rows {rows}: {clc}')
    worst = float(np.exp(np.min(np.max(logp, axis=1))))
    grid = sorted(set(BASE_T + [worst, worst * (1 - 1e-7), worst * (1 + 1e-7), clc]))
    prev = None
    res = []
    for t in grid:
        r = bool(line_confident_enough(dense.copy(), t))
        ctx.executed()
        res.append(r)
        if prev is not None and r and not prev[1]:
            ctx.violation('confident-test-monotone-in-threshold', f'{K}/line_confident_enough/not-monotone',
                          f'rows {rows}: confident at threshold {t} but not at the lower threshold {prev[0]} '
                          f'(worst best-posterior {worst})')
            break
        prev = (t, r)
    ctx.outcome((round(clc, 6), tuple(res)))
    if True in res and False in res:
        ctx.tag('threshold-grid-splits')
    for sh in subsets:
        l2 = make_line(rows, sh)
        c2 = float(PageParser.compute_line_confidence(l2))
        ctx.executed()
        if abs(c2 - clc) > TOL:
            ctx.violation('invariant-to-per-frame-shift', f'{K}/compute_line_confidence/shift',
                          f'rows {rows}, shift {sh}: {clc} -> {c2}')
            break
        d2 = dense_ref(rows, sh)
        ts = [t for t in BASE_T if abs(t - worst) > 1e-6]      # a threshold equal to the probability is decided by round-off
        r2 = [bool(line_confident_enough(d2.copy(), t)) for t in ts]
        r1 = [bool(line_confident_enough(dense.copy(), t)) for t in ts]
        ctx.executed(2 * len(ts))
        if r1 != r2:
            ctx.violation('invariant-to-per-frame-shift', f'{K}/line_confident_enough/shift', f'rows {rows}, shift {sh}: {r1} -> {r2}')
            break

    # ---- the logits as the engines store them (float32, sparse): same confidences, and the stored logits are only read
    l32 = make_line(rows, dtype=np.float32)
    keep = l32.logits.toarray().copy()
    c32 = float(PageParser.compute_line_confidence(l32))
    c32b = float(PageParser.compute_line_confidence(l32))
    ctx.executed(2)
    if abs(c32 - clc) > 1e-5 or c32b != c32:
        ctx.violation('computed-from-the-lines-own-posteriors', f'{K}/compute_line_confidence/float32',
                      f'rows {rows}: float32 logits give {c32} (again: {c32b}), float64 logits {clc}')
        return
    for labels in ([0], [1], [0, 1]):
        if len(labels) > T:
            continue
        try:
            # one alignment for both (with tied alignments float32 round-off may legitimately pick another optimum)
            al = None if T == len(labels) else align_text(-logp, np.asarray(labels), 2)
            g32 = np.asarray(get_line_confidence(l32, np.asarray(labels), aligned_letters=al), dtype=float)
            g64 = np.asarray(get_line_confidence(line, np.asarray(labels), aligned_letters=al), dtype=float)
        except ValueError:
            continue
        ctx.executed(2)
        if g32.shape != g64.shape or np.abs(g32 - g64).max() > 1e-5:
            ctx.violation('computed-from-the-lines-own-posteriors', f'{K}/get_line_confidence/float32',
                          f'rows {rows}, labels {labels}: float32 logits give {g32}, float64 logits {g64}')
            return
    c32c = float(PageParser.compute_line_confidence(l32))
    ctx.executed()
    if c32c != c32:
        ctx.violation('computed-from-the-lines-own-posteriors', f'{K}/compute_line_confidence/changes-after-other-confidence-calls',
                      f'rows {rows}: line confidence {c32} before and {c32c} after the per-character confidences of the same line were computed '
                      f'(stored logits modified: {not np.array_equal(l32.logits.toarray(), keep)})')
        return
    ctx.tag('float32-logits')
    # ---- history on one TextLine object: after new logits are assigned, every confidence is computed from the NEW logits
    rows2 = [(r + 1 + t) % len(ROWS) for t, r in enumerate(rows)]
    if rows2 != list(rows):
        fresh = make_line(rows2)
        want2 = float(PageParser.compute_line_confidence(fresh))
        lp2 = fresh.get_full_logprobs()
        line.get_full_logprobs()
        line.get_dense_logits()
        line.logits = make_line(rows2).logits
        got2 = float(PageParser.compute_line_confidence(line))
        lpg = line.get_full_logprobs()
        ctx.executed(6)
        lab1 = np.asarray([0])
        ok = abs(got2 - want2) <= TOL and np.array_equal(lpg, lp2)
        if ok and T == 1:
            c_new = np.asarray(get_line_confidence(line, lab1), dtype=float)
            c_ref = np.asarray(get_line_confidence(fresh, lab1), dtype=float)
            ok = np.abs(c_new - c_ref).max() <= TOL
        if not ok:
            ctx.violation('computed-from-the-lines-own-posteriors', f'{K}/stale-after-logits-reassigned',
                          f'rows {rows}: after assigning the logits of rows {rows2} to the same TextLine, confidences are not those of the new logits '
                          f'(line confidence {got2}, fresh line {want2})')
            return
        line.logits = make_line(rows).logits
        ctx.tag('logits-reassigned-on-a-live-line')
    # ---- per-character confidences for every alignable transcription
    for labels in labels_for(T):
        sub = dict(case, labels=labels)
        if 'labels' in case and case['labels'] != labels:
            continue
        lab = np.asarray(labels)
        if T == len(labels):
            aligned = None                 # the "one output per label" path needs no alignment
        else:
            try:
                aligned = align_text(-logp, lab, 2)
            except ValueError:
                continue
        conf = np.asarray(get_line_confidence(line, lab, aligned_letters=aligned), dtype=float)
        ctx.executed()
        if conf.shape != (len(labels),) or not in01(conf):
            ctx.violation('in-unit-interval', f'{K}/get_line_confidence/range', f'rows {rows}, labels {labels}: {conf}', sub)
            continue
        # a caller that holds the log-posteriors itself and scores several transcriptions against them: its second use of the same matrix gives the same confidences
        mine = logp.copy()
        ca = np.asarray(get_line_confidence(line, lab, aligned, mine), dtype=float)
        cb = np.asarray(get_line_confidence(line, lab, aligned, mine), dtype=float)
        ctx.executed(2)
        if ca.shape != conf.shape or cb.shape != conf.shape or np.abs(ca - conf).max() > TOL or np.abs(cb - conf).max() > TOL:
            ctx.violation('computed-from-the-lines-own-posteriors', f'{K}/get_line_confidence/caller-supplied-log-probs',
                          f'rows {rows}, labels {labels}: with the log-posteriors passed in by the caller the first call gives {ca}, the second {cb} '
                          f'(without: {conf}); matrix modified: {not np.array_equal(mine, logp)}', sub)
            continue
        path = [int(np.argmax(dense[t])) for t in range(T)]
        col = [k for k, _ in itertools.groupby(path) if k != 2]
        if onehot and col == labels and np.abs(conf - 1).max() > TOL:
            ctx.violation('one-hot-gives-1', f'{K}/get_line_confidence/one-hot', f'rows {rows}, labels {labels}: {conf}', sub)
        if onehot and col == labels:
            ctx.tag('one-hot-line')
            if len(labels) >= 2 and len(set(zip(labels, labels[1:])) & {(0, 0), (1, 1)}) == 0:
                # the call the ALTO export makes: a padded line, the log-probs cropped to the frame window, which here holds exactly one
                # frame per character
                from scipy import sparse
                from pero_ocr.core.layout import TextLine
                Mx = np.full((len(labels) + 4, 3), -20.0)
                Mx[:, 2] = 20.0
                for k, l in enumerate(labels):
                    Mx[2 + k] = [-20.0, -20.0, -20.0]
                    Mx[2 + k, l] = 20.0
                pl = TextLine(id='p', logits=sparse.csc_matrix(Mx), characters=['a', 'b', '​'], logit_coords=[2, 2 + len(labels)])
                crop_lp = pl.get_full_logprobs()[2:2 + len(labels)]
                al = align_text(-crop_lp, lab, 2)
                cw = np.asarray(get_line_confidence(pl, lab, al, crop_lp), dtype=float)
                ctx.executed(2)
                if cw.shape != (len(labels),) or np.abs(cw - 1).max() > TOL:
                    ctx.violation('one-hot-gives-1', f'{K}/get_line_confidence/one-hot-cropped-window',
                                  f'padded one-hot line for labels {labels}, log-probs cropped to its frame window [2,{2 + len(labels)}]: {cw}', sub)
                    return
                ctx.tag('cropped-window-call')
        if T > len(labels):
            ctx.nontrivial((tuple(rows), tuple(labels)), 'aligned-ctc-line')
            ali = force_align(-logp, labels, 2)
            lc = np.exp(np.asarray(get_letter_confidence(dense.copy(), ali, 2), dtype=float))
            ctx.executed(2)
            if lc.shape != (len(labels),) or not in01(lc):
                ctx.violation('in-unit-interval', f'{K}/get_letter_confidence/range', f'rows {rows}, labels {labels}: {lc}', sub)
            elif onehot and col == labels and np.abs(lc - 1).max() > TOL:
                ctx.violation('one-hot-gives-1', f'{K}/get_letter_confidence/one-hot', f'rows {rows}, labels {labels}: {lc}', sub)
        else:
            ali = None
            ctx.tag('one-frame-per-label-line')
        for sh in subsets:
            l2 = make_line(rows, sh)
            c2 = np.asarray(get_line_confidence(l2, lab, aligned_letters=aligned), dtype=float)
            ctx.executed()
            if c2.shape != conf.shape or np.abs(c2 - conf).max() > TOL:
                ctx.violation('invariant-to-per-frame-shift', f'{K}/get_line_confidence/shift',
                              f'rows {rows}, labels {labels}, shift {sh}: {conf} -> {c2}', sub)
                break
            if ali is not None:
                lc2 = np.exp(np.asarray(get_letter_confidence(dense_ref(rows, sh), ali, 2), dtype=float))
                ctx.executed()
                if np.abs(lc2 - lc).max() > TOL:
                    ctx.violation('invariant-to-per-frame-shift', f'{K}/get_letter_confidence/shift',
                                  f'rows {rows}, labels {labels}, shift {sh}: {lc} -> {lc2}', sub)
                    break
    if T == 2:
        ctx.sample({'rows': [ROWS[r] for r in rows], 'compute_line_confidence': clc})


def check_bag(case, ctx):
    from pero_ocr.decoding.bag_of_hypotheses import BagOfHypotheses
    evs = [BAG_EVENTS[i] for i in case['bag']]
    first_w = next((e[1] for e in evs if e[0] == 'w'), None)
    boh = BagOfHypotheses() if (first_w is None or len(evs) % 2) else BagOfHypotheses(lm_weight=1.0)
    model, w = [], boh.lm_weight
    K = f'{ID}/bag'
    for n, e in enumerate(evs):
        if e[0] == 'add':
            boh.add(e[1], e[2], e[3])
            model.append((e[1], e[2], e[3]))
        else:
            boh.lm_weight = e[1]
            w = e[1]
        ctx.executed()
        if n < len(evs) - 1 and n % 2 == 1:
            continue        # query after the first, third ... and always after the last event
        post = np.exp(np.asarray(boh.posteriors(), dtype=float))
        conf = boh.confidence()
        ctx.executed(2)
        desc = f'history {evs[:n + 1]}'
        if post.shape != (len(model),) or not in01(post) or abs(post.sum() - 1) > TOL:
            ctx.violation('posteriors-sum-to-1', f'{K}/posteriors-not-a-distribution', f'{desc}: exp(posteriors) = {post}, sum {post.sum()}')
            return
        if not in01(conf) or abs(conf - post.max()) > TOL:
            ctx.violation('in-unit-interval', f'{K}/confidence', f'{desc}: confidence {conf}, posteriors {post}')
            return
        if all(l is not None for _, _, l in model) or all(l is None for _, _, l in model):
            tot = np.asarray([v + (w * l if l is not None else 0.0) for _, v, l in model])
            ref = np.exp(tot - np.logaddexp.reduce(tot))
            if np.abs(ref - post).max() > TOL:
                ctx.violation('posteriors-from-normalised-scores', f'{K}/posteriors-differ-from-softmax',
                              f'{desc}: exp(posteriors) = {post}, soft-max of vis + {w}*lm = {ref}')
                return
        for t in BAG_TR + ['zz']:
            tc = boh.transcript_confidence(t)
            ctx.executed()
            if not in01(tc) or (t == 'zz' and tc != 0.0):
                ctx.violation('in-unit-interval', f'{K}/transcript_confidence', f'{desc}: transcript_confidence({t!r}) = {tc}')
                return
    ctx.state(('bag', tuple(model), w))
    ctx.outcome(('bag', round(float(conf), 6)))
    if any(e[0] == 'w' for e in evs[1:]) and any(l is not None for _, _, l in model):
        ctx.nontrivial(tuple(case['bag']), 'bag-weight-changed-between-queries')


def check_long(case, ctx):
    """very long lines (more frames than any fixed sentinel): per-character confidences are still probabilities"""
    from scipy import sparse
    from pero_ocr.core.layout import TextLine
    from pero_ocr.core.confidence_estimation import get_line_confidence
    from pero_ocr.document_ocr.page_parser import PageParser
    T, place, n = case['long']
    M = np.full((T, 3), -6.0)
    M[:, 2] = 6.0
    first = {'start': 2, 'middle': T // 2 - n, 'end': T - 2 * n - 3}[place]
    labels = [i % 2 for i in range(n)]
    for i, l in enumerate(labels):
        M[first + 2 * i, l] = 9.0
    line = TextLine(id='l', logits=sparse.csc_matrix(M), characters=['a', 'b', '​'], logit_coords=[0, T])
    ctx.state(('long', T, place, n))
    conf = np.asarray(get_line_confidence(line, np.asarray(labels)), dtype=float)
    clc = float(PageParser.compute_line_confidence(line))
    ctx.executed(2)
    if conf.shape != (n,) or not in01(conf) or not in01(clc):
        ctx.violation('in-unit-interval', f'{ID}/long-line/range', f'{T} frames, {n} characters near the {place}: {conf}, line confidence {clc}')
        return
    if np.abs(conf - conf[0]).max() > 1e-6:
        ctx.violation('computed-from-the-lines-own-posteriors', f'{ID}/long-line/position-dependent',
                      f'{T} frames, {n} identically shaped characters near the {place}: confidences differ {conf}')
        return
    ctx.outcome(('long', round(float(conf[0]), 6)))
    if T > 1000:
        ctx.nontrivial(('long', T, place, n), 'lines-with-more-than-1000-frames')


def check_case(case, ctx):
    if 'long' in case:
        return check_long(case, ctx)
    if 'bag' in case:
        check_bag(case, ctx)
    else:
        check_matrix(case, ctx)


def describe(tier):
    return {
        'rule': 'all matrices with T<=T rows over the 9-row alphabet x all alignable transcriptions over {a,b}; every non-empty subset '
                'of frames shifted by -5 or +3.3 for T<=Tshift; threshold grid = 10 fixed values + the occurring worst-best '
                'probability (+-1e-7) + the line confidence; all bag histories (18 adds + 4 weight assignments) up to bag_depth, '
                'queried after every other event and at the end. state = distinct matrix / bag content. Non-trivial: a line with more '
                'frames than labels (real alignment), or a bag history that changes lm_weight between queries with LM scores present.',
        'bounds': BOUNDS[tier],
        'alphabets': {'rows': [[('floor' if v is None else v) for v in r] for r in ROWS], 'shifts': SHIFTS,
                      'thresholds': [str(t) for t in BASE_T], 'bag_vis': BAG_VIS, 'bag_lm': [str(x) for x in BAG_LM], 'bag_weights': BAG_W},
        'assumptions': ['tolerance 1e-9 on shift invariance and normalisation', 'alignment is computed once and reused for the shifted copy, '
                        'so that round-off cannot flip a tie in the alignment'],
        'min_nontrivial': 100,
        'required_tags': ['frame-shifted-below-the-floor-of-pruned-entries', 'cropped-window-call', 'float32-logits', 'lines-with-more-than-1000-frames', 'logits-reassigned-on-a-live-line', 'aligned-ctc-line', 'one-hot-line', 'one-frame-per-label-line', 'threshold-grid-splits',
                          'bag-weight-changed-between-queries'],
    }
