"""C01 - PAGE XML export/import preserves the page layout.

Space: page models built from finite field alphabets (first element = default):
 (A) ALL structures of 0..3 regions x 0..2 lines with default fields x ALL reading orders (None, {}, every partial /
     complete assignment of distinct indices to the region ids, + an order naming an unknown id) x both PAGE versions,
     each through the string API and through a file + the PageLayout(file=...) constructor (where a foreign region order
     has to be sorted on load);
 (B) every combination of <= D non-default field values over the structure 2 regions x 2 lines (deviation bounding);
 (C) the complete cartesian product of the line-field alphabets on a single line;
 (U) "any XML-legal Unicode": the complete Char production of XML 1.0 as transcription and region text (blocks of 4096 code points,
     lines of 256), and every boundary code point of the character classes alone / between two letters.

Oracle: reference model of the documented rounding (coordinates np.round -> int, heights %.1f, confidence %.3f, index =
stored or position, text identical incl. absent vs empty), stable order by reading index, and the export fixpoint.
"""
import itertools
import os

import numpy as np

ID = 'C01'

MANIFEST = dict(
    technique='explicit-state enumeration of page models (all structures x all reading orders; deviation-bounded field combinations; full field product on one line) x both PAGE versions; real to_pagexml_string / from_pagexml_string / PageLayout(file=) vs a rounding reference model and the export fixpoint',
    text='Bounded exhaustive: every page of 0-3 regions x 0-2 lines with every reading order (absent, empty, every partial and complete order, unknown ids) in both PAGE versions via string and file/constructor paths; every combination of <= 2 (quick) / 3 (thorough) non-default field values on a 2x2 page; the full product of baseline x polygon x heights x transcription (17 Unicode classes) x confidence x index alphabets on one line. The re-loaded page must equal the reference model (documented rounding, absent vs empty text, order by reading index), and export(import(export(import(export(p))))) must equal export(import(export(p))) modulo timestamps. Added sub-sweeps: point lists held as python lists / int32 / float32 arrays, explicitly closed rings, white-space-only transcriptions, zero and sub-precision heights, a page of 12 regions x 12 lines with reading orders moving r10-r12, a 12-point baseline without stored heights, and a second import after the first one was edited in place. In the quick tier the one-line product is heights x default text fields plus text x confidence x index x two heights; the thorough tier runs the full product. A page that has been exported is exported again after its region list was re-arranged (reading order unchanged). Transcription and region text additionally run over the COMPLETE Char production of XML 1.0 (all 1 112 033 legal code points, 4096 per page / 256 per line, both versions), and every boundary code point (ends of the Char ranges, first / last of every plane incl. the plane-end code points U+nFFFE/U+nFFFF, ends of the control / noncharacter / private-use blocks, every white-space character) also stands alone as the whole text and between two letters; a lost character is reported by its class.',
    note='Every XML-legal character is covered in ascending runs and the boundary characters alone, but arbitrary character sequences beyond the 21-entry transcription alphabet, pages larger than 3x2 and PAGE files of other tools (Point children, legacy heights) are not explored; absent heights are guessed on load with the seeded RNG (presence + fixpoint only).',
    ref='3/C01')

BASELINES = [
    [[10, 50], [100, 50]],
    [[10.5, 50.5], [100.5, 51.5]],                 # halves on both parities (round-half-even vs round-half-up)
    [[10.49, 50.51], [99.5, 49.5]],
    [[-5, -3.5], [20, 7]],                         # negative
    [[100000, 200000], [100050.5, 200000.5]],      # large
    [[10, 50], [55.5, 52.5], [100, 50]],           # 3 points
]
POLYGONS = [
    [[10, 30], [100, 30], [100, 60], [10, 60]],
    [[10.5, 30.5], [100.5, 31.5], [100.5, 60.5], [9.5, 61.5]],
    [[10, 30], [100, 30], [55, 60]],
    [[10, 30], [55, 25.49], [100, 30], [100, 60.51], [10, 60]],
    [[-10, -30.5], [100, -30], [100, 60], [-10.5, 60]],
    [[10, 30], [100, 30], [100, 60], [10, 60], [10, 30]],                 # an explicitly closed ring (as shapely hands them out)
    [[20.2, 40.4], [100, 30], [100, 60], [10, 60], [19.8, 39.6]],         # first and last point coincide only after rounding
]
LONG_BASELINE = [[10 + 8 * k, 50 + (k % 3)] for k in range(12)]                                   # 12 points
WEDGE_POLYGON = [[10, 45], [98, 20], [98, 70], [10, 55]]                                           # line height grows from 10 to 50 px
HEIGHTS = [[10, 3], [7.26, 2.04], [7.25, 2.05], 'f32', None, [0, 0], [0.04, 0.02], [12.5, 0], [14.0, -2.0], [12.3, -0.04]]      # incl. zero / sub-precision / negative heights (present, not absent)
TEXTS = [None, '', 'abc', '<&>"\'', ' lead', 'trail ', 'a  b', 'a\tb', 'a\nb', 'a\rb', 'a b', 'é', 'שלום', 'مرحبا',
         '\U0001F600\U00020000', ']]>', '�\x85 ', ' ', '\u00a0\u3000', ' \t ', '&lt;x&#65;&amp;amp; &nbsp;']      # ... and transcriptions made of white space only
CONFS = [None, 0, 1, 0.12345, 0.9995, 1e-9]
INDEXES = [None, 7, 0]
RTYPES = [None, 'paragraph']
RTEXTS = [None, '', 'abc', '<&>', ' lead ', 'a\nb']
PIDS = ['page.jpg', 'dir/ä b&<.png']
LINE_FIELDS = [('bl', BASELINES), ('poly', POLYGONS), ('h', HEIGHTS), ('t', TEXTS), ('c', CONFS), ('idx', INDEXES)]
REGION_FIELDS = [('type', RTYPES), ('rpoly', POLYGONS), ('rtext', RTEXTS)]
BOUNDS = {'quick': dict(dev=2, max_regions=3), 'thorough': dict(dev=3, max_regions=3)}
# "any XML-legal Unicode": the Char production of XML 1.0 (fifth edition, section 2.2), written down from the standard
XML_CHAR_RANGES = [(0x9, 0xA), (0xD, 0xD), (0x20, 0xD7FF), (0xE000, 0xFFFD), (0x10000, 0x10FFFF)]
CP_BLOCK, CP_LINE = 4096, 256        # code points per page / per line of the complete sweep


def xml_legal(c):
    return any(lo <= c <= hi for lo, hi in XML_CHAR_RANGES)


def boundary_code_points():
    """the legal code points on both sides of every class boundary: the ends of every range of the Char production, the first / last two of
    every plane, the ends of the control / noncharacter / surrogate / private-use / specials blocks, every Unicode White_Space character"""
    cps = set()
    for lo, hi in XML_CHAR_RANGES:
        cps.update((lo, lo + 1, hi - 1, hi))
    for plane in range(17):
        b = plane << 16
        cps.update((b, b + 1, b + 0xFFFC, b + 0xFFFD, b + 0xFFFE, b + 0xFFFF))
    for lo, hi in [(0x7F, 0x9F), (0xFDD0, 0xFDEF), (0xD800, 0xDFFF), (0xE000, 0xF8FF), (0xFFF0, 0xFFFF), (0xFE00, 0xFE0F), (0xF0000, 0xFFFFD),
                   (0x100000, 0x10FFFD), (0xE0000, 0xE007F), (0x2000, 0x200F), (0x2028, 0x202F), (0x205F, 0x2064), (0xFEFF, 0xFEFF)]:
        cps.update((lo - 1, lo, hi, hi + 1))
    cps.update((0x85, 0xA0, 0xAD, 0x1680, 0x180E, 0x3000, 0x061C))
    cps.update(range(0x2000, 0x200B))
    return sorted(c for c in cps if 0 <= c <= 0x10FFFF and xml_legal(c))


def text_of(t, alphabet):
    """a text of the model: an index into the alphabet, or ['cp', lo, hi(, 1)] = every XML-legal code point of [lo, hi) in ascending order"""
    if isinstance(t, (list, tuple)):
        body = ''.join(chr(c) for c in range(t[1], t[2]) if xml_legal(c))
        return 'a' + body + 'b' if len(t) > 3 and t[3] else body             # (optionally between two letters)
    return alphabet[t]


def code_point_class(c):
    import unicodedata
    if (c & 0xFFFF) >= 0xFFFE:
        return 'plane-end-noncharacter'
    if 0xFDD0 <= c <= 0xFDEF:
        return 'bmp-noncharacter'
    return 'category-' + unicodedata.category(chr(c)) + ('-astral' if c > 0xFFFF else '')


def text_difference_class(want, got):
    """the class of the first (lowest) code point of `want` that `got` no longer has as often; 'altered' if none is missing"""
    import collections
    if not isinstance(want, str) or not isinstance(got, str):
        return 'absent'
    missing = collections.Counter(want) - collections.Counter(got)
    if not missing:
        return 'altered'
    return code_point_class(min(ord(ch) for ch in missing))
BOUNDS['replay'] = BOUNDS['quick']


def setup(tier):
    os.makedirs('/verif/.cache/tmp', exist_ok=True)


def default_line():
    return {'bl': 0, 'poly': 0, 'h': 0, 't': 0, 'c': 0, 'idx': 0}


def default_region(nlines):
    return {'type': 0, 'rpoly': 0, 'rtext': 0, 'lines': [default_line() for _ in range(nlines)]}


def reading_orders(ids):
    """None, {}, every assignment of distinct indices to every subset of ids (order matters), + an unknown id"""
    out = [None, []]
    for r in range(1, len(ids) + 1):
        for sub in itertools.permutations(ids, r):
            out.append([[rid, i] for i, rid in enumerate(sub)])
    if ids:
        out.append([['nope', 0], [ids[-1], 1]])
        out.append([[ids[-1], 5], [ids[0], 5]])          # equal indices: stable
    return out


def shards(tier):
    out = []
    for nreg in range(0, BOUNDS[tier]['max_regions'] + 1):
        out.append({'kind': 'A', 'nreg': nreg})
    n_slots = 2 * len(REGION_FIELDS) + 4 * len(LINE_FIELDS) + 1
    for d in range(1, BOUNDS[tier]['dev'] + 1):
        for first in range(n_slots):
            if d < 3:
                out.append({'kind': 'B', 'dev': d, 'first': first})
            else:
                for second in range(first + 1, n_slots):
                    out.append({'kind': 'B', 'dev': d, 'first': first, 'second': second})
    for bl in range(len(BASELINES)):
        for po in range(len(POLYGONS)):
            out.append({'kind': 'C', 'bl': bl, 'poly': po})
    out.append({'kind': 'many'})
    for plane in range(17):
        out.append({'kind': 'chars', 'plane': plane})
    out.append({'kind': 'chars-alone'})
    return out


def slots_2x2():
    """(path, alphabet size) of every field of the 2 regions x 2 lines page (+ page id)"""
    sl = [(('pid',), len(PIDS))]
    for r in range(2):
        for f, al in REGION_FIELDS:
            sl.append((('r', r, f), len(al)))
        for l in range(2):
            for f, al in LINE_FIELDS:
                sl.append((('l', r, l, f), len(al)))
    return sl


def run_shard(shard, ctx, tier):
    from mc.core import guarded_check
    import sys
    mod = sys.modules[__name__]
    if shard['kind'] == 'A':
        n = shard['nreg']
        ids = [f'r{i + 1}' for i in range(n)]
        for counts in itertools.product(range(0, 3), repeat=n):
            regs = [default_region(c) for c in counts]
            for ro in reading_orders(ids):
                for ver in (0, 1):
                    for via in ('string', 'file'):
                        guarded_check(mod, {'pid': 0, 'regions': regs, 'ro': ro, 'ver': ver, 'via': via}, ctx)
    elif shard['kind'] == 'many':
        # more regions / lines than single digits can number: 12 regions (the first with 12 lines), reading orders that move r10..r12
        n = 12
        ids = [f'r{i + 1}' for i in range(n)]
        regs = [default_region(12 if i == 0 else 1) for i in range(n)]
        orders = [None,
                  [[rid, i] for i, rid in enumerate(reversed(ids))],
                  [[rid, i] for i, rid in enumerate(ids[1:] + ids[:1])],
                  [[rid, i] for i, rid in enumerate(ids[9:] + ids[:9])],
                  [['r12', 0]],
                  [[rid, 10 * i] for i, rid in enumerate(ids[::2] + ids[1::2])],
                  [[rid, i] for i, rid in enumerate(ids)]]
        for ro in orders:
            for ver in (0, 1):
                for via in ('string', 'file'):
                    guarded_check(mod, {'pid': 0, 'regions': regs, 'ro': ro, 'ver': ver, 'via': via}, ctx)
        # ids of the form other tools use ('id_...'): they are ids like any other
        for ver in (0, 1):
            for via in ('string', 'file'):
                guarded_check(mod, {'pid': 0, 'regions': [default_region(2), default_region(1)], 'ro': [['id_r2', 0], ['id_r1', 1]], 'ver': ver, 'via': via,
                                    'idp': 'id_'}, ctx)
        # a foreign-tool line: many baseline points, an outline whose height varies along the line, no stored heights
        for ver in (0, 1):
            ln = dict(default_line(), bl=len(BASELINES), poly=len(POLYGONS), h=HEIGHTS.index(None))
            guarded_check(mod, {'pid': 0, 'regions': [{'type': 0, 'rpoly': 0, 'rtext': 0, 'lines': [ln, default_line()]}], 'ro': None,
                                'ver': ver, 'via': 'string'}, ctx)
    elif shard['kind'] == 'chars':
        # the COMPLETE Char production of XML 1.0: every legal code point of the plane, 4096 per page, 256 per line (in ascending order, so
        # that every character also stands next to its neighbours of the same block), the whole block also as the region text
        base = shard['plane'] << 16
        for lo in range(base, base + 0x10000, CP_BLOCK):
            legal = [c for c in range(lo, lo + CP_BLOCK) if xml_legal(c)]
            lines, k = [], 0
            while k < len(legal):
                chunk = legal[k:k + CP_LINE]
                k += CP_LINE
                # (a chunk never spans an illegal gap: cut it there)
                cut = next((j for j in range(1, len(chunk)) if chunk[j] != chunk[j - 1] + 1), None)
                if cut is not None:
                    k -= len(chunk) - cut
                    chunk = chunk[:cut]
                lines.append(dict(default_line(), t=['cp', chunk[0], chunk[-1] + 1]))
            if not lines:
                continue
            for ver in (0, 1):
                guarded_check(mod, {'pid': 0, 'regions': [{'type': 0, 'rpoly': 0, 'rtext': ['cp', lo, lo + CP_BLOCK], 'lines': lines}], 'ro': None,
                                    'ver': ver, 'via': 'string'}, ctx)
    elif shard['kind'] == 'chars-alone':
        # every boundary code point alone as the whole transcription / region text, and between two letters
        for c in boundary_code_points():
            for ver in (0, 1):
                guarded_check(mod, {'pid': 0, 'regions': [{'type': 0, 'rpoly': 0, 'rtext': ['cp', c, c + 1],
                                                           'lines': [dict(default_line(), t=['cp', c, c + 1]),
                                                                     dict(default_line(), t=['cp', c, c + 1, 1])]}], 'ro': None,
                                    'ver': ver, 'via': 'string', 'alone': 1}, ctx)
    elif shard['kind'] == 'B':
        sl = slots_2x2()
        d, first = shard['dev'], shard['first']
        pre = [first] + ([shard['second']] if 'second' in shard else [])
        for rest in itertools.combinations(range(pre[-1] + 1, len(sl)), d - len(pre)):
            chosen = pre + list(rest)
            for vals in itertools.product(*[range(1, sl[i][1]) for i in chosen]):
                case = {'pid': 0, 'regions': [default_region(2), default_region(2)], 'ro': [['r2', 0], ['r1', 1]] if d % 2 else None,
                        'ver': (sum(vals) + d) % 2, 'via': 'string'}
                for i, v in zip(chosen, vals):
                    path = sl[i][0]
                    if path[0] == 'pid':
                        case['pid'] = v
                    elif path[0] == 'r':
                        case['regions'][path[1]][path[2]] = v
                    else:
                        case['regions'][path[1]]['lines'][path[2]][path[3]] = v
                guarded_check(mod, case, ctx)
    else:
        full = itertools.product(range(len(HEIGHTS)), range(len(TEXTS)), range(len(CONFS)), range(len(INDEXES)))
        if tier != 'thorough':
            # quick tier: heights x (default text fields) and (text x confidence x index) x (two heights) instead of the full product
            full = [q for q in full if (q[1] == 0 and q[2] == 0 and q[3] == 0) or q[0] in (0, 5)]
        for h, t, c, ix in full:
            ln = {'bl': shard['bl'], 'poly': shard['poly'], 'h': h, 't': t, 'c': c, 'idx': ix}
            for ver in (0, 1):
                guarded_check(mod, {'pid': 0, 'regions': [{'type': 0, 'rpoly': 0, 'rtext': 0, 'lines': [ln]}], 'ro': None,
                                    'ver': ver, 'via': 'string'}, ctx)
            if t == 0 and c == 0 and ix == 0:
                for cont in (1, 2, 3):       # the same page with its point lists held as python lists / int32 / float32 arrays
                    guarded_check(mod, {'pid': 0, 'regions': [{'type': 0, 'rpoly': shard['poly'], 'rtext': 0, 'lines': [ln]}], 'ro': None,
                                        'ver': h % 2, 'via': 'string', 'cont': cont}, ctx)


# ------------------------------------------------------------------ model <-> real objects
def heights_value(i):
    h = HEIGHTS[i]
    if isinstance(h, str):
        return np.asarray([12.34, 4.56], dtype=np.float32)
    return None if h is None else list(h)


def container(points, kind):
    """the point list as callers hold it: float array (0), python lists (1), integer array of the rounded points (2), float32 array (3)"""
    if kind == 1:
        return [list(map(float, p)) for p in points]
    if kind == 2:
        return np.round(np.asarray(points, dtype=float)).astype(np.int32)
    if kind == 3:
        return np.asarray(points, dtype=np.float32)
    return np.asarray(points, dtype=float)


def build(case):
    from pero_ocr.core.layout import PageLayout, RegionLayout, TextLine
    page = PageLayout(id=PIDS[case['pid']], page_size=(100, 200))
    ck = case.get('cont', 0)
    idp = case.get('idp', '')
    for ri, r in enumerate(case['regions']):
        reg = RegionLayout(f'{idp}r{ri + 1}', container(POLYGONS[r['rpoly']], ck), region_type=RTYPES[r['type']])
        reg.transcription = text_of(r['rtext'], RTEXTS)
        for li, l in enumerate(r['lines']):
            reg.lines.append(TextLine(id=f'{idp}r{ri + 1}-l{li + 1}', baseline=container((BASELINES + [LONG_BASELINE])[l['bl']], ck),
                                      polygon=container((POLYGONS + [WEDGE_POLYGON])[l['poly']], ck), heights=heights_value(l['h']),
                                      transcription=text_of(l['t'], TEXTS), transcription_confidence=CONFS[l['c']], index=INDEXES[l['idx']]))
        page.regions.append(reg)
    if case['ro'] is not None:
        page.reading_order = {k: v for k, v in case['ro']}
    return page


def rnd(points):
    return [[int(np.round(x)), int(np.round(y))] for x, y in points]


def expected(case):
    """reference model of the re-loaded page"""
    regs = []
    for ri, r in enumerate(case['regions']):
        lines = []
        for li, l in enumerate(r['lines']):
            h = heights_value(l['h'])
            t = text_of(l['t'], TEXTS)
            c = CONFS[l['c']]
            lines.append({'id': f'{case.get("idp", "")}r{ri + 1}-l{li + 1}', 'index': INDEXES[l['idx']] if INDEXES[l['idx']] is not None else li,
                          'baseline': rnd((BASELINES + [LONG_BASELINE])[l['bl']]), 'polygon': rnd((POLYGONS + [WEDGE_POLYGON])[l['poly']]),
                          'heights': None if h is None else [float(f'{h[0]:.1f}'), float(f'{h[1]:.1f}')],
                          'text': t, 'conf': None if (c is None or t is None) else float(f'{c:.3f}')})
        regs.append({'id': f'{case.get("idp", "")}r{ri + 1}', 'type': RTYPES[r['type']], 'polygon': rnd(POLYGONS[r['rpoly']]),
                     'text': text_of(r['rtext'], RTEXTS), 'lines': lines})
    if case['ro'] is not None:
        ro = {k: v for k, v in case['ro']}
        regs = sorted(regs, key=lambda g: ro.get(g['id'], float('inf')))     # stable
    return {'id': PIDS[case['pid']], 'size': (100, 200), 'regions': regs}


def observe(page):
    regs = []
    for r in page.regions:
        lines = []
        for l in r.lines:
            lines.append({'id': l.id, 'index': l.index, 'baseline': np.asarray(l.baseline).tolist(),
                          'polygon': None if l.polygon is None else np.asarray(l.polygon).tolist(),
                          'heights': None if l.heights is None else [float(x) for x in l.heights],
                          'text': l.transcription, 'conf': l.transcription_confidence})
        regs.append({'id': r.id, 'type': r.region_type, 'polygon': np.asarray(r.polygon).tolist(), 'text': r.transcription,
                     'lines': lines})
    return {'id': page.id, 'size': tuple(page.page_size), 'regions': regs}


def canon_xml(s):
    import lxml.etree as ET
    root = ET.fromstring(s.encode('utf-8'))
    for el in list(root.iter()):
        tag = el.tag.split('}')[-1] if isinstance(el.tag, str) else ''
        if tag in ('Created', 'LastChange'):
            el.getparent().remove(el)
    return ET.tostring(root, method='c14n')


def first_diff(want, got, path=''):
    if type(want) is dict and type(got) is dict:
        for k in want:
            d = first_diff(want[k], got.get(k, '<missing>'), f'{path}.{k}')
            if d:
                return d
        return None
    if isinstance(want, (list, tuple)) and isinstance(got, (list, tuple)):
        if len(want) != len(got):
            return f'{path}: length {len(got)} instead of {len(want)}', path
        for i, (a, b) in enumerate(zip(want, got)):
            d = first_diff(a, b, f'{path}[{i}]')
            if d:
                return d
        return None
    if want != got or (want is None) != (got is None) or (isinstance(want, str) != isinstance(got, str)):
        return f'{path}: {got!r} instead of {want!r}', path
    return None


def field_of(path):
    import re
    names = re.findall(r'\.([a-z]+)', path)
    return names[-1] if names else 'page'


def check_case(case, ctx):
    from pero_ocr.core.layout import PageLayout, PAGEVersion
    import lxml.etree as ET
    import re
    ver = [PAGEVersion.PAGE_2019_07_15, PAGEVersion.PAGE_2013_07_15][case['ver']]
    page = build(case)
    want = expected(case)
    ctx.state((case['pid'], str(case['regions']), str(case['ro']), case.get('cont', 0)))
    if len(case['regions']) > 9:
        ctx.tag('more-than-nine-regions-and-lines')
    if case.get('cont'):
        ctx.tag('other-point-containers')
    swept = [l['t'] for r in case['regions'] for l in r['lines'] if isinstance(l['t'], list)]
    if swept:
        cps = [c for t in swept if len(t) == 3 for c in range(t[1], t[2]) if xml_legal(c)]
        if case.get('alone'):
            ctx.tag('boundary-code-point-alone-as-the-whole-text')
        else:
            ctx.tag('xml-legal-code-points-swept', len(cps))
        if any(c > 0xFFFF and (c & 0xFFFF) >= 0xFFFE for c in cps):
            ctx.tag('plane-end-code-points-of-the-astral-planes')
    K = f'{ID}'
    desc = f'page {case}'
    s1 = page.to_pagexml_string(version=ver)
    ctx.executed()
    if case['via'] == 'file':
        # a file whose regions are in MODEL order but that carries the reading order: it has to be sorted on load
        plain = build(dict(case, ro=None)).to_pagexml_string(version=ver)
        root = ET.fromstring(plain.encode('utf-8'))
        ns = root.tag.split('}')[0] + '}'
        pg = root.find(ns + 'Page')
        if case['ro'] is not None:
            ro_el = ET.Element(ns + 'ReadingOrder')
            og = ET.SubElement(ro_el, ns + 'OrderedGroup')
            og.set('id', 'reading_order')
            for rid, idx in case['ro']:
                e = ET.SubElement(og, ns + 'RegionRefIndexed')
                e.set('regionRef', rid)
                e.set('index', str(idx))
            pg.insert(0, ro_el)
        path = f'/verif/.cache/tmp/c01-{os.getpid()}.xml'
        with open(path, 'wb') as f:
            f.write(ET.tostring(root, xml_declaration=True, encoding='utf-8'))
        p2 = PageLayout(file=path)
        os.remove(path)
    else:
        p2 = PageLayout()
        p2.from_pagexml_string(s1)
    ctx.executed()
    got = observe(p2)
    # heights absent: the loader guesses them (random sampling) -> only presence is required
    for wr, gr in zip(want['regions'], got['regions']):
        for wl, gl in zip(wr['lines'], gr['lines']):
            if wl['heights'] is None and gl['heights'] is not None and len(gl['heights']) == 2:
                wl['heights'] = gl['heights']
    d = first_diff(want, got)
    if d:
        msg, path = d
        fld = field_of(path)
        if fld in ('regions', 'id') and case['ro'] is not None and [r['id'] for r in got['regions']] != [r['id'] for r in want['regions']] \
                and sorted(r['id'] for r in got['regions']) == sorted(r['id'] for r in want['regions']):
            key = f'{K}/reading-order-not-applied/{case["via"]}'
        else:
            key = f'{K}/reload-differs/{fld}'
        if swept and fld == 'text':
            # which class of characters did not survive: look the two texts up again
            w_, g_ = want, got
            for part in re.findall(r'\.([a-z]+)|\[(\d+)\]', path):
                w_, g_ = (w_[part[0]], g_[part[0]]) if part[0] else (w_[int(part[1])], g_[int(part[1])])
            key = f'{K}/reload-differs/text/{text_difference_class(w_, g_)}'
            msg = f'{path}: ' + (f'{g_!r} instead of {w_!r}' if len(w_) < 40 else
                                 'lost ' + ' '.join(f'U+{ord(ch):04X}' for ch in sorted(set(w_) - set(g_ or ''))[:12]))
            desc = f'page {str(case)[:600]}'
        ctx.violation('reload-yields-the-same-page', key, f'{desc}: {msg}')
        return
    if case['ro'] is not None:
        ro = {k: v for k, v in case['ro']}
        if p2.reading_order != ro:
            ctx.violation('reload-yields-the-same-page', f'{K}/reload-differs/reading_order', f'{desc}: {p2.reading_order} instead of {ro}')
            return
        # written in that order
        root = ET.fromstring(s1.encode('utf-8'))
        ns = root.tag.split('}')[0] + '}'
        written = [e.get('id') for e in root.iter(ns + 'TextRegion')]
        if written != [r['id'] for r in want['regions']]:
            ctx.violation('regions-written-in-reading-order', f'{K}/reading-order-not-applied/written',
                          f'{desc}: regions written as {written}, reading order demands {[r["id"] for r in want["regions"]]}')
            return
        if [r['id'] for r in want['regions']] != [f'r{i + 1}' for i in range(len(want['regions']))]:
            ctx.nontrivial((str(case['regions']), str(case['ro']), case['via']), 'reading-order-permutes')
        # history: the page object that has just been exported has its region list re-arranged (the reading order stays) and is exported again
        if len(page.regions) >= 2 and case['via'] == 'string':
            page.regions = list(page.regions)[::-1]
            sb = page.to_pagexml_string(version=ver)
            ctx.executed()
            written = [e.get('id') for e in ET.fromstring(sb.encode('utf-8')).iter(ns + 'TextRegion')]
            rank = {k: v for k, v in case['ro']}
            rev = [r['id'] for r in want['regions']]          # (the list as it stood after the first export) ...
            rev = rev[::-1]                                    # ... reversed; listed regions by index, the unlisted ones behind them in list order
            demanded = sorted([i for i in rev if i in rank], key=lambda i: rank[i]) + [i for i in rev if i not in rank]
            if len(set(rank.values())) != len(rank):
                demanded = written                              # equal indexes: their mutual order is not determined
            if written != demanded:
                ctx.violation('regions-written-in-reading-order', f'{K}/reading-order-not-applied/second-export-of-a-rearranged-page',
                              f'{desc}: after a first export the region list was reversed (reading order unchanged); the second export writes the '
                              f'regions as {written}, the reading order demands {demanded}')
                return
            if demanded != rev:
                ctx.tag('page-exported-again-after-its-regions-were-rearranged')
    # fixpoint
    s2 = p2.to_pagexml_string(version=ver)
    # history: editing a loaded page in place must not influence a later import of the same document
    if case['via'] == 'string':
        for r in p2.regions:
            r.polygon *= 2
            for l in r.lines:
                l.baseline *= 3
                if l.polygon is not None:
                    l.polygon += 7
        p4 = PageLayout()
        p4.from_pagexml_string(s1)
        ctx.executed()
        got4 = observe(p4)
        for wr, gr in zip(want['regions'], got4['regions']):
            for wl, gl in zip(wr['lines'], gr['lines']):
                if gl['heights'] is not None and wl['heights'] is not None and len(gl['heights']) == 2 and \
                        HEIGHTS[case['regions'][int(wr['id'].split('r')[-1]) - 1]['lines'][int(wl['id'].split('-l')[1]) - 1]['h']] is None:
                    wl['heights'] = gl['heights']      # (that the guess does not depend on earlier imports is a C08 matter and checked there)
        d4 = first_diff(want, got4)
        if d4:
            ctx.violation('reload-yields-the-same-page', f'{K}/import-depends-on-earlier-imports/{field_of(d4[1])}',
                          f'{desc}: after a first import whose arrays were edited in place, importing the same document again gives {d4[0]}')
            return
    p3 = PageLayout()
    p3.from_pagexml_string(s2)
    s3 = p3.to_pagexml_string(version=ver)
    ctx.executed(3)
    if canon_xml(s2) != canon_xml(s3):
        ctx.violation('export-is-a-fixpoint', f'{K}/not-a-fixpoint', f'{desc}: second and third export differ')
        return
    ndev = sum(1 for r in case['regions'] for l in r['lines'] for f, _ in LINE_FIELDS if l[f]) + \
        sum(1 for r in case['regions'] for f, _ in REGION_FIELDS if r[f]) + (1 if case['pid'] else 0)
    if ndev >= 2:
        ctx.nontrivial((case['pid'], str(case['regions']), case['ver']), 'two-or-more-non-default-fields')
    ctx.outcome((len(s1) % 97, ndev))
    if ndev == 1 and case['ver'] == 0 and len(case['regions']) == 1 and case['regions'][0]['lines'] and case['regions'][0]['lines'][0]['t'] == 12:
        ctx.sample({'case': case, 'xml_excerpt': s1[-420:]})


def describe(tier):
    return {
        'rule': '(A) all structures 0..3 regions x 0..2 lines (default fields) x all reading orders x 2 PAGE versions x {string, file+constructor}; '
                '(B) all combinations of <= dev non-default field values on the 2x2 page (25 field slots + page id); (C) full product of the line '
                'field alphabets on one line x 2 versions. state = distinct page model. Non-trivial: a reading order that really permutes the '
                'regions, or a page with >= 2 non-default fields.',
        'bounds': BOUNDS[tier],
        'alphabets': {'baselines': BASELINES, 'polygons': POLYGONS, 'heights': [str(h) for h in HEIGHTS], 'texts': [repr(t) for t in TEXTS],
                      'confidences': [str(c) for c in CONFS], 'indexes': [str(i) for i in INDEXES], 'region_types': [str(t) for t in RTYPES],
                      'region_texts': [repr(t) for t in RTEXTS], 'page_ids': PIDS,
                      'xml_char_ranges': [[hex(a), hex(b)] for a, b in XML_CHAR_RANGES],
                      'boundary_code_points': [f'U+{c:04X}' for c in boundary_code_points()]},
        'assumptions': ['a reading order of None and an empty one are equivalent', 'conf is only stored together with a transcription'],
        'min_nontrivial': 100, 'required_tags': ['xml-legal-code-points-swept', 'boundary-code-point-alone-as-the-whole-text', 'plane-end-code-points-of-the-astral-planes', 'page-exported-again-after-its-regions-were-rearranged', 'more-than-nine-regions-and-lines', 'other-point-containers', 'reading-order-permutes', 'two-or-more-non-default-fields'],
    }
