"""C02 - CTC prefix beam search never over-counts and is exact when unpruned.

Space (input tree): all matrices of T <= Tmax rows over a finite row alphabet (one row per shortcut visible in the
decoder: peaky rows, ties, zero entries, one-hot rows, entries just below / above the -10 pre-selection threshold, a row
whose non-blank symbols are all below it), x beam width k x symbol selector.  Every node of the tree is decoded.

Oracles: (1) brute force over all C^T alignments = the true CTC probability of every transcript;
         (2) textbook frame-synchronous prefix beam search returning every beam reachable under some resolution of
             ties at the beam boundary (mc/refmodels/ctc.py).
"""
import itertools
import math

import numpy as np

from mc.refmodels.ctc import ctc_brute, ref_prefix_beam, lse, NEG

ID = 'C02'

def nabs(x):
    """abs() for tolerance tests: a NaN counts as an infinite difference (a result that is not a number equals nothing)"""
    x = abs(x)
    return float('inf') if x != x else x


MANIFEST = dict(
    technique='explicit-state enumeration of the CTC matrix input tree x beam width x selector; real decoder vs brute-force CTC sum and a reference prefix beam search that explores every tie resolution',
    text='Bounded exhaustive: every matrix with T <= 4 (quick) / 5 (thorough) rows over a 13-row alphabet (C=3; ties, zeros, one-hot rows, entries straddling the pre-selection threshold, all-pruned rows) and T <= 3/4 over 7 rows (C=4), for k in {1,2,3,4,100} and both selectors. Distinctness, the no-over-count bound and exactness are checked against the full alignment sum; the pruned result against a textbook prefix beam search with all boundary-tie resolutions; un-normalised variants must be rejected. Added sub-sweeps: float32 input, one decoder object re-used across lines (and still rejecting un-normalised input), a non-pruning selector returning unsorted indices, lines of 260-520 frames against the forward recursion (validated against enumeration in setup), and the three-symbol matrices embedded in a 33 000-symbol output layer. A third class count (C=5, T<=3/4): frames with more relevant symbols than the beam is wide next to blank-only frames. Wave 10: one un-normalised frame anywhere in lines of 260-1100 frames (block borders, last frames) must be rejected; every single failing array allocation of the decoder on all matrices of up to two rows (the decoder may report the failure, hypotheses it returns must still be distinct and never over-counted). Wave 11 (ownership / lifetime): histories of two lines written into ONE caller-owned array (every pair of one-frame lines; every two-frame line followed by every in-place overwrite of one of its frames; thorough: every pair of two-frame lines), decoded each time by two long-lived decoders (default and non-pruning selector) taking turns - each result must be that of the content at the time of the call (a fresh decoder on a copy, or another boundary-tie resolution of the reference beam search), and a result the caller kept must read the same after the later calls.',
    note='Real-valued matrices outside the alphabet, T > 5 and C > 5 are not explored; scores compared within 1e-9.',
    ref='3/C02')
TH = math.exp(-10)   # 4.54e-5: the default pre-selection keeps logits > -10

ROWS3 = [
    [0.90, 0.05, 0.05], [0.05, 0.90, 0.05], [0.05, 0.05, 0.90],   # peaky a / b / blank
    [0.40, 0.40, 0.20],                                           # tie a = b
    [1 / 3, 1 / 3, 1 / 3],                                        # uniform
    [0.10, 0.10, 0.80],                                           # blank dominant, a = b
    [0.50, 0.00, 0.50],                                           # a zero entry
    [1.00, 0.00, 0.00], [0.00, 0.00, 1.00],                       # one-hot a / one-hot blank
    [0.60, 4.0e-5, 0.40 - 4.0e-5],                                # b just below the threshold
    [0.60, 5.0e-5, 0.40 - 5.0e-5],                                # b just above the threshold
    [2.0e-5, 3.0e-5, 1 - 5.0e-5],                                 # every non-blank below it (shortcut)
    [1.0e-17, 1.0e-18, 1.0],                                      # a saturated frame: the blank's log-probability is exactly 0.0, a and b still possible
]
ROWS4 = [
    [0.85, 0.05, 0.05, 0.05], [0.05, 0.85, 0.05, 0.05], [0.05, 0.05, 0.85, 0.05], [0.05, 0.05, 0.05, 0.85],
    [0.30, 0.30, 0.30, 0.10], [0.50, 4.0e-5, 0.25, 0.25 - 4.0e-5], [0.00, 0.00, 0.00, 1.00],
]
# five classes: frames in which more symbols are relevant than the beam is wide, next to blank-only frames and frames with a single letter
ROWS5 = [
    [0.60, 0.00, 0.00, 0.00, 0.40], [0.00, 0.00, 0.00, 0.00, 1.00], [0.05, 0.20, 0.15, 0.10, 0.50],
    [0.25, 0.25, 0.20, 0.20, 0.10], [0.05, 0.80, 0.05, 0.05, 0.05], [0.10, 0.10, 0.30, 0.30, 0.20],
]
LETTERS = {3: ['a', 'b', '<BLANK>'], 4: ['a', 'b', 'c', '<BLANK>'], 5: ['a', 'b', 'c', 'd', '<BLANK>']}
KS = [1, 2, 3, 4, 100]
SELS = ['default', 'all', 'all_desc']          # 'all_desc': a non-pruning selector that lists the symbols by decreasing score (unsorted indices)
# Tbuf: lines of up to Tbuf frames written into ONE pre-allocated array; Tbuf_full: up to this length EVERY second line follows every first line,
# above it the second line is the first with one frame overwritten in place (every frame x every other row of the alphabet)
BOUNDS = {'quick': dict(T3=4, T4=3, T5=3, Tunnorm=2, Tbuf=2, Tbuf_full=1), 'thorough': dict(T3=5, T4=4, T5=4, Tunnorm=2, Tbuf=2, Tbuf_full=2)}
BOUNDS['replay'] = BOUNDS['quick']
EPS = 1e-9


def rows_for(C):
    return {3: ROWS3, 4: ROWS4, 5: ROWS5}[C]


def to_log(M):
    with np.errstate(divide='ignore'):
        return np.log(np.asarray(M, dtype=float))


def select_all(logits):
    return (np.arange(logits.shape[0]),)


def select_all_desc(logits):
    return (np.argsort(-logits, kind='stable'),)


def selector_kw(sel):
    return {} if sel == 'default' else {'relevant_logits_selector': select_all if sel == 'all' else select_all_desc}


def setup(tier):
    # conformance of the forward-recursion reference (used for long lines only) with the enumeration of all alignments
    from mc.refmodels.ctc import ctc_forward_log, ctc_brute
    import math
    for T in (1, 2, 3):
        for idx in itertools.product(range(len(ROWS3)), repeat=T):
            P = [ROWS3[i] for i in idx]
            with np.errstate(divide='ignore'):
                logP = [[float(x) for x in r] for r in np.log(np.asarray(P, dtype=float))]
            for lab, pr in ctc_brute(P, 2).items():
                got = ctc_forward_log(logP, list(lab), 2)
                if nabs(got - math.log(pr)) > 1e-9:
                    from mc.core import HarnessError
                    raise HarnessError(f'forward recursion disagrees with enumeration on {P} {lab}: {got} vs {math.log(pr)}')


def shards(tier):
    b = BOUNDS[tier]
    out = []
    for C, T in ((3, b['T3']), (4, b['T4']), (5, b['T5'])):
        R = len(rows_for(C))
        for t in range(1, T + 1):
            if t <= 2:
                out.append({'C': C, 'T': t, 'prefix': []})
            else:
                for p in itertools.product(range(R), repeat=2):
                    out.append({'C': C, 'T': t, 'prefix': list(p)})
    out.append({'unnorm': True})
    for T in LONG_T[tier if tier in LONG_T else 'quick']:
        for k in range(len(LONG_KINDS)):
            out.append({'long': T, 'kind': k})
    for first in range(len(ROWS3)):
        out.append({'wide': first})          # an output layer of 33 000 symbols (indices beyond the int16 range)
    for T in LONG_UNNORM_T:
        out.append({'long_unnorm': T})
    for t in (1, 2):
        out.append({'faults': t})
    for t in range(1, b['Tbuf'] + 1):
        if t == 1:
            out.append({'buffer': 1, 'first': None})
        else:
            for first in range(len(ROWS3)):
                out.append({'buffer': t, 'first': first})
    return out


LONG_UNNORM_T = [260, 513, 700, 1100]        # lengths on both sides of 512 / 1024 (block sizes), not multiples of them


WIDE_C = 33000
WIDE_COLS = [100, 32900, WIDE_C - 1]        # 'a', 'b', blank


LONG_T = {'quick': [260, 300], 'thorough': [260, 300, 520]}      # lines with more than 255 frames (forward-recursion reference)
LONG_KINDS = ['two-symbols-unpruned', 'peaky-pruned', 'diffuse-pruned']


def long_matrix(T, kind):
    if kind == 0:       # only 'a' and the blank carry mass: every transcript is a^m, few enough to keep all of them
        return [[0.6, 0.0, 0.4] if (t * 3 + t // 5) % 4 else [0.3, 0.0, 0.7] for t in range(T)]
    if kind == 1:
        pat = [ROWS3[0], ROWS3[2], ROWS3[1], ROWS3[2], ROWS3[2], ROWS3[0], ROWS3[0], ROWS3[1]]
        return [list(pat[(t + t // 11) % len(pat)]) for t in range(T)]
    return [[0.40, 0.35, 0.25] if t % 3 else [0.2, 0.3, 0.5] for t in range(T)]


def run_shard(shard, ctx, tier):
    from mc.core import guarded_check
    import sys
    mod = sys.modules[__name__]
    if 'long_unnorm' in shard:
        T = shard['long_unnorm']
        for pos in sorted({0, 1, T // 2, 255, 256, 511, 512, T - 2, T - 1} & set(range(T))):
            for var in (0, 1, 2):
                guarded_check(mod, {'long_unnorm': T, 'pos': pos, 'var': var}, ctx)
        return
    if 'faults' in shard:
        R = len(rows_for(3))
        for rows in itertools.product(range(R), repeat=shard['faults']):
            for k in (2, 100):
                guarded_check(mod, {'faults': list(rows), 'k': k}, ctx)
        return
    if 'buffer' in shard:
        R = len(rows_for(3))
        t = shard['buffer']
        firsts = [[shard['first']]] if shard['first'] is not None else [[]]
        for head in firsts:
            for rest in itertools.product(range(R), repeat=t - len(head)):
                m1 = head + list(rest)
                if t <= BOUNDS[tier]['Tbuf_full']:
                    seconds = [list(m2) for m2 in itertools.product(range(R), repeat=t)]
                else:
                    seconds = [m1[:pos] + [r] + m1[pos + 1:] for pos in range(t) for r in range(R) if r != m1[pos]]
                for m2 in seconds:
                    guarded_check(mod, {'buffer': [m1, m2]}, ctx)
        return
    if 'long' in shard:
        guarded_check(mod, {'long': shard['long'], 'kind': shard['kind']}, ctx)
        return
    if 'wide' in shard:
        guarded_check(mod, {'wide': [shard['wide']]}, ctx)
        for r2 in range(len(ROWS3)):
            guarded_check(mod, {'wide': [shard['wide'], r2]}, ctx)
            if tier == 'thorough' or r2 in (0, 1, 3):
                for r3 in (0, 1, 3, 4):
                    guarded_check(mod, {'wide': [shard['wide'], r2, r3]}, ctx)
        return
    if shard.get('unnorm'):
        for C in (3, 4):
            R = len(rows_for(C))
            for t in range(1, BOUNDS[tier]['Tunnorm'] + 1):
                for rows in itertools.product(range(R), repeat=t):
                    for pos in range(t):
                        for var in range(3):
                            guarded_check(mod, {'C': C, 'rows': list(rows), 'unnorm': [pos, var]}, ctx)
        return
    C, T, prefix = shard['C'], shard['T'], shard['prefix']
    R = len(rows_for(C))
    for rest in itertools.product(range(R), repeat=T - len(prefix)):
        guarded_check(mod, {'C': C, 'rows': prefix + list(rest)}, ctx)


def decode(C, lp, k, sel):
    from pero_ocr.decoding.decoders import CTCPrefixLogRawNumpyDecoder
    kw = selector_kw(sel)
    dec = CTCPrefixLogRawNumpyDecoder(LETTERS[C], k, **kw)
    boh = dec(lp.copy())
    return [(h.transcript, float(h.vis_sc)) for h in boh]


_WIDE_LETTERS = []


def check_wide(case, ctx):
    """the three-symbol matrices embedded in a 33 000-symbol output layer: 'a' at index 100, 'b' at index 32 900, blank last"""
    from pero_ocr.decoding.decoders import CTCPrefixLogRawNumpyDecoder
    if not _WIDE_LETTERS:
        _WIDE_LETTERS.extend([chr(0x10000 + i) for i in range(WIDE_C - 1)] + ['<BLANK>'])
    M3 = [ROWS3[i] for i in case['wide']]
    T = len(M3)
    P = np.zeros((T, WIDE_C))
    for t in range(T):
        for k, c in enumerate(WIDE_COLS):
            P[t, c] = M3[t][k]
    with np.errstate(divide='ignore'):
        lp = np.log(P)
    truth = {''.join(_WIDE_LETTERS[WIDE_COLS[i]] for i in l): math.log(p) for l, p in ctc_brute(M3, 2).items()}
    ctx.state(('wide', tuple(case['wide'])))
    ctx.tag('output-layer-beyond-int16')
    K = f'{ID}/C33000'
    for k in (1, 2, 100):
        dec = CTCPrefixLogRawNumpyDecoder(_WIDE_LETTERS, k)
        hyps = [(h.transcript, float(h.vis_sc)) for h in dec(lp.copy())]
        ctx.executed()
        name = lambda t: ''.join('ab'[[_WIDE_LETTERS[c] for c in WIDE_COLS[:2]].index(ch)] if ch in (_WIDE_LETTERS[100], _WIDE_LETTERS[32900]) else '?' for ch in t)
        desc = f'rows {M3} on symbols {WIDE_COLS} of {WIDE_C}, k={k}: {[(name(t), round(v, 4)) for t, v in hyps]}'
        if len({t for t, _ in hyps}) != len(hyps):
            ctx.violation('hypotheses-distinct', f'{K}/duplicates', desc)
            return
        bad = [(name(t), v, truth.get(t, NEG_INF)) for t, v in hyps if v > truth.get(t, NEG_INF) + EPS]
        if bad:
            ctx.violation('never-over-counts', f'{K}/over-count', f'{desc}; (transcript, score, true log-probability) {bad}')
            return
        if k == 100 and all(min(x for x in r if x > 0) > 1e-3 for r in M3):
            got = dict(hyps)
            if set(got) != set(truth) or any(nabs(got[t] - truth[t]) > EPS for t in truth):
                ctx.violation('exact-when-unpruned', f'{K}/unpruned-differs', f'{desc}; truth {sorted((name(t), round(v, 4)) for t, v in truth.items())}')
                return
    ctx.outcome(('wide', len(truth)))


def check_long(case, ctx):
    from pero_ocr.decoding.decoders import CTCPrefixLogRawNumpyDecoder
    from mc.refmodels.ctc import ctc_forward_log
    T, kind = case['long'], case['kind']
    M = long_matrix(T, kind)
    lp = to_log(M)
    logP = [[float(x) for x in r] for r in lp]
    ctx.state(('long', T, kind))
    ctx.tag('more-than-255-frames')
    K = f'{ID}/long/{LONG_KINDS[kind]}'
    configs = [(400, 'all')] if kind == 0 else [(1, 'default'), (4, 'default'), (4, 'all'), (20, 'all')]
    memo = {}

    def truth(labels):
        key = tuple(labels)
        if key not in memo:
            memo[key] = ctc_forward_log(logP, list(labels), 2)
        return memo[key]
    for k, sel in configs:
        kw = selector_kw(sel)
        dec = CTCPrefixLogRawNumpyDecoder(LETTERS[3], k, **kw)
        hyps = [(h.transcript, float(h.vis_sc)) for h in dec(lp.copy())]
        ctx.executed()
        desc = f'{T}-frame line ({LONG_KINDS[kind]}), k={k}, selector {sel}'
        if len({t for t, _ in hyps}) != len(hyps) or not hyps:
            ctx.violation('hypotheses-distinct', f'{K}/duplicates-or-empty', f'{desc}: {len(hyps)} hypotheses, {len({t for t, _ in hyps})} distinct')
            return
        for t, v in hyps:
            true = truth(['ab'.index(c) for c in t])
            if not (v <= true + 1e-6):
                ctx.violation('never-over-counts', f'{K}/over-count', f'{desc}: {t[:12]!r}.. (length {len(t)}) scored {v}, true log-probability {true}')
                return
            if kind == 0 and nabs(v - true) > 1e-6:
                ctx.violation('exact-when-unpruned', f'{K}/unpruned-differs', f'{desc}: a^{len(t)} scored {v}, true log-probability {true}')
                return
        if kind == 0:
            possible = [m for m in range(0, T // 2 + 2) if truth([0] * m) > NEG_INF]
            if sorted(len(t) for t, _ in hyps) != possible:
                ctx.violation('exact-when-unpruned', f'{K}/unpruned-missing', f'{desc}: transcripts a^m for m in {sorted(len(t) for t, _ in hyps)[:5]}.. '
                              f'({len(hyps)}), possible are {len(possible)}')
                return
        ctx.outcome(('long', kind, len(hyps)))
    ctx.nontrivial(('long', T, kind))


NEG_INF = float('-inf')


def check_unnorm(case, ctx):
    from pero_ocr.decoding.decoders import CTCPrefixLogRawNumpyDecoder
    C = case['C']
    M = [list(rows_for(C)[i]) for i in case['rows']]
    pos, var = case['unnorm']
    if var == 0:
        M[pos] = [x * 0.9 for x in M[pos]]
    elif var == 1:
        M[pos] = [x * 1.1 for x in M[pos]]
    else:
        M[pos][0] += 0.05
    lp = to_log(M)
    ctx.state(('unnorm', C, tuple(case['rows']), pos, var))
    for k in (1, 100):
        for sel in SELS:
            kw = selector_kw(sel)
            dec = CTCPrefixLogRawNumpyDecoder(LETTERS[C], k, **kw)
            ctx.executed()
            try:
                boh = dec(lp.copy())
            except ValueError:
                ctx.outcome('rejected')
                continue
            ctx.violation('unnormalised-input-rejected', f'{ID}/unnormalised-accepted',
                          f'matrix {M} (row {pos} not normalised, sums {[sum(r) for r in M]}) was decoded to '
                          f'{[(h.transcript, h.vis_sc) for h in boh]} instead of being rejected', dict(case, k=k, sel=sel))
        # history: a decoder object that has already decoded a proper matrix must still reject this one
        dec = CTCPrefixLogRawNumpyDecoder(LETTERS[C], k)
        dec(to_log([list(rows_for(C)[i]) for i in case['rows']]))
        ctx.executed(2)
        try:
            boh = dec(lp.copy())
        except ValueError:
            continue
        ctx.violation('unnormalised-input-rejected', f'{ID}/unnormalised-accepted-by-a-used-decoder',
                      f'matrix {M} (row {pos} not normalised) was decoded to {[(h.transcript, h.vis_sc) for h in boh]} by a decoder object that '
                      f'had decoded a normalised matrix before; a fresh decoder rejects it', dict(case, k=k))
    ctx.nontrivial(('unnorm', C, tuple(case['rows']), pos, var), 'unnormalised-variants')


def check_long_unnorm(case, ctx):
    """a long line with ONE frame that is not normalised (anywhere: first, middle, block borders, last) must be rejected like a short one"""
    from pero_ocr.decoding.decoders import CTCPrefixLogRawNumpyDecoder
    T, pos, var = case['long_unnorm'], case['pos'], case['var']
    M = [list(r) for r in long_matrix(T, 1)]
    if var == 0:
        M[pos] = [x * 0.9 for x in M[pos]]
    elif var == 1:
        M[pos] = [x * 1.1 for x in M[pos]]
    else:
        M[pos][0] += 0.05
    lp = to_log(M)
    ctx.state(('long_unnorm', T, pos, var))
    dec = CTCPrefixLogRawNumpyDecoder(LETTERS[3], 2)
    ctx.executed()
    try:
        boh = dec(lp)
    except ValueError:
        ctx.outcome('rejected')
        ctx.nontrivial(('long_unnorm', T, pos, var), 'unnormalised-frame-in-a-long-line')
        return
    ctx.violation('unnormalised-input-rejected', f'{ID}/unnormalised-accepted/long-line',
                  f'a {T}-frame line whose frame {pos} is not normalised (sum {sum(M[pos]):.3f}) was decoded to {len(list(boh))} hypotheses instead of being rejected')


def check_faults(case, ctx):
    """environment answers (mc/faults.py): every single failing array allocation made by the decoder itself.  The decoder may report the failure;
    hypotheses it returns nevertheless are hypotheses like any others: distinct, never over-counted, exact when nothing was pruned"""
    from pero_ocr.decoding.decoders import CTCPrefixLogRawNumpyDecoder
    from mc import faults
    RA = rows_for(3)
    M = [RA[i] for i in case['faults']]
    lp = to_log(M)
    k = case['k']
    truth = {''.join(LETTERS[3][i] for i in t): math.log(p) for t, p in ctc_brute(M, 2).items()}
    ctx.state(('faults', tuple(case['faults']), k))
    inj = faults.Injector(faults.numpy_allocators(), faults.memory_error)
    dec = CTCPrefixLogRawNumpyDecoder(LETTERS[3], k, relevant_logits_selector=select_all)

    def call():
        return [(h.transcript, float(h.vis_sc)) for h in dec(lp.copy())]
    for kk, site, (what, val) in inj.explore(call):
        ctx.executed()
        if kk is None:
            if what != 'ok':
                raise val
            continue
        ctx.tag('fault-points')
        if what == 'raised':
            ctx.tag('failure-reported')
            ctx.outcome(('raised', type(val).__name__))
            continue
        ctx.nontrivial(('fault', tuple(case['faults']), k, kk), 'hypotheses-returned-despite-a-failed-allocation')
        ts = [t for t, _ in val]
        bad = [(t, sc, truth.get(t, NEG)) for t, sc in val if not (sc <= truth.get(t, NEG) + EPS)]
        missing = [t for t in truth if t not in ts] if k == 100 else []
        if len(set(ts)) != len(ts) or bad or missing:
            ctx.violation('never-over-counts', f'{ID}/hypotheses-returned-after-a-failed-allocation',
                          f'k={k}, matrix {M}: with the allocation #{kk} ({site[2]} in {site[0]}:{site[1]}) raising MemoryError the decoder returned {val}; '
                          f'over-counted (transcript, score, true log-probability) = {bad}, missing transcripts = {missing}')
            return


def read_hyps(boh):
    return [(h.transcript, float(h.vis_sc)) for h in boh]


def same_number(a, b, tol=0.0):
    return a == b or (a != a and b != b) or nabs(a - b) <= tol


def matches_reference_beam(C, lp, k, sel, hyps):
    """True / False: `hyps` is (is not) the result of frame-synchronous prefix beam search under some resolution of the boundary ties; None: too many tie branches"""
    selfn = (lambda r: [i for i, x in enumerate(r) if x > -10]) if sel == 'default' else (lambda r: list(range(len(r))))
    beams, st = ref_prefix_beam([list(map(float, r)) for r in lp], k, selfn)
    if st['truncated']:
        return None
    ts = [t for t, _ in hyps]
    if len(set(ts)) != len(ts):
        return False
    for b in beams:
        ref = {''.join(LETTERS[C][i] for i in l): lse(pb, pnb) for l, (pb, pnb) in b.items()}
        if set(ref) == set(ts) and all(same_number(ref[t], s, EPS) for t, s in hyps):
            return True
    return False


def check_buffer(case, ctx):
    """a short history on live objects: the caller owns ONE pre-allocated array, writes line after line into it (or overwrites single frames of it) and decodes
    it each time, with two long-lived decoder objects (default / non-pruning selector) taking turns on the same array.  Every result must be that of the
    array's content at the time of the call (= what a fresh decoder returns for a copy of it, or another resolution of boundary ties), and a result the caller
    kept must still read the same after later calls."""
    from pero_ocr.decoding.decoders import CTCPrefixLogRawNumpyDecoder
    C = 3
    RA = rows_for(C)
    lines = [list(l) for l in case['buffer']]
    T = len(lines[0])
    key = tuple(tuple(l) for l in lines)
    ctx.state(('buffer', key))
    passes = [[tuple(x > TH for x in RA[i][:-1]) for i in l] for l in lines]
    changes_selection = any(a != b for a, b in zip(passes, passes[1:]))
    for k in (2, 100):
        buf = np.zeros((T, C))
        decs = [(sel, CTCPrefixLogRawNumpyDecoder(LETTERS[C], k, **selector_kw(sel))) for sel in ('default', 'all')]
        kept = []
        for n, rows in enumerate(lines):
            M = [RA[i] for i in rows]
            lp = to_log(M)
            buf[...] = lp                                     # the same array object, new content
            for sel, dec in decs:
                boh = dec(buf)
                got = read_hyps(boh)
                fresh = decode(C, lp, k, sel)
                ctx.executed(2)
                ctx.outcome(('buffer', tuple(sorted(t for t, _ in got))))
                g, f = dict(got), dict(fresh)
                if len(g) != len(got) or set(g) != set(f) or not all(same_number(g[t], f[t], EPS) for t in f):
                    verdict = matches_reference_beam(C, lp, k, sel, got)
                    if verdict is None:
                        ctx.tag('skipped-too-many-tie-branches')
                    elif not verdict:
                        which = 'first-line' if n == 0 else 'line-written-over-the-previous-one'
                        ctx.violation('equals-frame-synchronous-beam-search', f'{ID}/C{C}/{sel}/one-array-refilled-in-place/{which}-differs-from-decoding-a-copy',
                                      f'k={k}, selector {sel}: one array holds line after line {[[RA[i] for i in l] for l in lines[:n + 1]]}; decoding it when it holds line #{n} '
                                      f'gives {sorted((t, round(s, 6)) for t, s in got)}, a fresh decoder on a copy of the same content gives '
                                      f'{sorted((t, round(s, 6)) for t, s in fresh)}')
                        return
                for boh0, was, n0, sel0 in kept:
                    now = read_hyps(boh0)
                    if len(now) != len(was) or any(t0 != t1 or not same_number(s0, s1) for (t0, s0), (t1, s1) in zip(was, now)):
                        ctx.violation('equals-frame-synchronous-beam-search', f'{ID}/C{C}/{sel0}/result-kept-by-the-caller-changed-by-a-later-call',
                                      f'k={k}: the hypotheses returned for line #{n0} (selector {sel0}) read {was} when returned and {now} after the call for line #{n} '
                                      f'(selector {sel}); lines {[[RA[i] for i in l] for l in lines]}')
                        return
                    ctx.tag('kept-result-read-again-after-a-later-call')
                kept.append((boh, got, n, sel))
    if changes_selection:
        ctx.nontrivial(('buffer', key), 'array-refilled-in-place-with-another-pre-selection')
    else:
        ctx.tag('array-refilled-in-place-same-pre-selection')


def check_case(case, ctx):
    if 'buffer' in case:
        return check_buffer(case, ctx)
    if 'long_unnorm' in case:
        return check_long_unnorm(case, ctx)
    if 'faults' in case:
        return check_faults(case, ctx)
    if 'unnorm' in case:
        return check_unnorm(case, ctx)
    if 'long' in case:
        return check_long(case, ctx)
    if 'wide' in case:
        return check_wide(case, ctx)
    C = case['C']
    RA = rows_for(C)
    M = [RA[i] for i in case['rows']]
    lp = to_log(M)
    blank = C - 1
    letters = LETTERS[C]
    truth = ctc_brute(M, blank)
    truth_s = {''.join(letters[i] for i in t): math.log(p) for t, p in truth.items()}
    ctx.state((C, tuple(case['rows'])))
    # does the default pre-selection prune a symbol of non-zero probability somewhere?
    default_prunes = any(0.0 < x <= TH for r in M for x in r[:-1])
    configs = [(case['k'], case['sel'])] if 'k' in case else itertools.product(KS, SELS)
    for k, sel in configs:
        sub = dict(case, k=k, sel=sel)
        K = f'{ID}/C{C}/{sel}'
        ctx.executed()
        hyps = decode(C, lp, k, sel)
        ts = [t for t, _ in hyps]
        ctx.outcome(tuple(sorted(ts)))
        if len(set(ts)) != len(ts):
            ctx.violation('distinct-transcripts', f'{K}/duplicate-transcripts',
                          f'k={k}: hypotheses {hyps} contain a transcript twice; matrix {M}', sub)
            continue
        bad = [(t, s, truth_s.get(t, NEG)) for t, s in hyps if not (s <= truth_s.get(t, NEG) + EPS)]
        if bad:
            ctx.violation('never-over-counts', f'{K}/over-count',
                          f'k={k}: (transcript, vis_sc, true CTC log-prob) = {bad}; matrix {M}', sub)
            continue
        selfn = (lambda r: [i for i, x in enumerate(r) if x > -10]) if sel == 'default' else (lambda r: list(range(len(r))))
        beams, st = ref_prefix_beam([list(map(float, r)) for r in lp], k, selfn)
        pruned_by_sel = sel == 'default' and default_prunes
        if st['pruned'] == 0 and not pruned_by_sel:
            # nothing pruned: exact
            ctx.tag('unpruned-nodes')
            got = dict(hyps)
            miss = [t for t in truth_s if t not in got]
            extra = [t for t in got if t not in truth_s]
            off = [(t, got[t], truth_s[t]) for t in got if t in truth_s and nabs(got[t] - truth_s[t]) > EPS]
            if miss or extra or off:
                ctx.violation('exact-when-unpruned', f'{K}/unpruned-{"missing" if miss else "extra" if extra else "score"}',
                              f'k={k}: nothing is pruned, yet missing={miss} extra={extra} wrong scores (t, got, true)={off}; '
                              f'matrix {M}', sub)
                continue
        if st['truncated']:
            ctx.tag('skipped-too-many-tie-branches')
            continue
        ok = False
        for b in beams:
            ref = {''.join(letters[i] for i in l): lse(pb, pnb) for l, (pb, pnb) in b.items()}
            if set(ref) == set(ts) and all(abs(ref[t] - s) <= EPS for t, s in hyps):
                ok = True
                break
        if not ok:
            ref0 = sorted((''.join(letters[i] for i in l), round(lse(pb, pnb), 6)) for l, (pb, pnb) in beams[0].items())
            ctx.violation('equals-frame-synchronous-beam-search', f'{K}/differs-from-reference-beam',
                          f'k={k}: got {sorted((t, round(s, 6)) for t, s in hyps)}; reference prefix beam search gives '
                          f'{ref0}{" (or a tie variant, %d in all)" % len(beams) if len(beams) > 1 else ""}; matrix {M}', sub)
            continue
        if st['pruned']:
            ctx.nontrivial((C, tuple(case['rows']), k, sel), 'beam-pruned')
        if st['joined']:
            ctx.tag('prefix-joining')
        if st['all_pruned_frames']:
            ctx.tag('all-pruned-shortcut')
        if pruned_by_sel:
            ctx.tag('selector-pruned')
        if st['tie_branches']:
            ctx.tag('tie-at-beam-boundary')
    # a character table with a base letter, a bare combining mark and the precomposed letter: 'e' + U+0301 and U+00E9 are different transcripts
    if C == 4 and len(case['rows']) <= 2 and 'k' not in case:
        from pero_ocr.decoding.decoders import CTCPrefixLogRawNumpyDecoder
        ulet = ['e', '\u0301', '\u00e9', '<BLANK>']
        want_u = {''.join(ulet[i] for i in l): math.log(p) for l, p in ctc_brute(M, C - 1).items()}
        got_u = [(h.transcript, float(h.vis_sc)) for h in CTCPrefixLogRawNumpyDecoder(ulet, 100, relevant_logits_selector=select_all)(lp.copy())]
        ctx.executed()
        if len({t for t, _ in got_u}) != len(got_u) or set(t for t, _ in got_u) != set(want_u) or any(nabs(v - want_u[t]) > EPS for t, v in got_u):
            ctx.violation('exact-when-unpruned', f'{ID}/C4/unicode-letter-table',
                          f'letters e / U+0301 / U+00E9: hypotheses {[(t.encode("unicode_escape").decode(), round(v, 4)) for t, v in got_u]}, '
                          f'truth {[(t.encode("unicode_escape").decode(), round(v, 4)) for t, v in sorted(want_u.items())]}; matrix {M}')
        ctx.tag('combining-mark-letter-table')
    # unusual-but-legal use: float32 log-probabilities; one decoder object called repeatedly on the same matrix object
    if len(case['rows']) <= 2 and 'k' not in case:
        from pero_ocr.decoding.decoders import CTCPrefixLogRawNumpyDecoder
        for k in (2, 100):
            dec = CTCPrefixLogRawNumpyDecoder(letters, k)
            lp32 = lp.astype(np.float32)
            r32 = [(h.transcript, float(h.vis_sc)) for h in dec(lp32)]
            other = to_log([RA[(i + 1) % len(RA)] for i in case['rows']])
            dec(other)                                         # another line in between
            again = [(h.transcript, float(h.vis_sc)) for h in dec(lp32)]
            ctx.executed(3)
            r64 = dict(decode(C, lp, k, 'default'))
            if sorted(r32) != sorted(again):
                ctx.violation('equals-frame-synchronous-beam-search', f'{ID}/C{C}/same-decoder-second-call-differs',
                              f'k={k}: decoding the same matrix again with the same decoder object (another line in between) gives {again} instead of {r32}; matrix {M}')
                break
            if k == 100 and (set(dict(r32)) != set(r64) or any(nabs(dict(r32)[t] - r64[t]) > 1e-4 for t in r64)):
                ctx.violation('exact-when-unpruned', f'{ID}/C{C}/float32-input-differs',
                              f'k={k}: float32 log-probabilities give {sorted(r32)}, float64 {sorted(r64.items())}; matrix {M}')
                break
        ctx.tag('float32-and-reused-decoder')
    if len(case['rows']) == 2 and 'k' not in case:
        ctx.sample({'matrix': M, 'k': 2, 'hypotheses': decode(C, lp, 2, 'default')})


def describe(tier):
    b = BOUNDS[tier]
    return {
        'rule': 'every matrix with T<=T3 rows over the 13-row alphabet (C=3) and T<=T4 rows over the 7-row alphabet (C=4) and T<=T5 rows over the 6-row alphabet (C=5: more relevant symbols per frame than the beam is wide) '
                'x k in {1,2,3,4,100} x {default, non-pruning} selector; plus 3 un-normalised variants of every row of every '
                'matrix with T<=2. state = distinct matrix. Non-trivial: (matrix,k,selector) where the reference beam '
                'actually dropped a finite candidate; counters report joins, all-pruned frames, selector pruning, boundary ties. '
                'Histories on one caller-owned array (C=3): every pair of lines of <=Tbuf_full frames, and every line of <=Tbuf frames followed by every '
                'overwrite of one of its frames, x k in {2,100} x two long-lived decoders (default / non-pruning selector) taking turns; non-trivial there: '
                'the two contents differ in which symbols pass the pre-selection threshold in some frame.',
        'bounds': dict(b, ks=KS, selectors=SELS, eps=EPS),
        'alphabets': {'rows_C3': ROWS3, 'rows_C4': ROWS4},
        'assumptions': ['ties at the beam boundary (within 1e-9) may be resolved either way',
                        'scores are compared within 1e-9', 'blank is the last symbol'],
        'min_nontrivial': 100,
        'required_tags': ['beam-pruned', 'prefix-joining', 'all-pruned-shortcut', 'selector-pruned', 'unpruned-nodes',
                          'unnormalised-variants', 'tie-at-beam-boundary', 'float32-and-reused-decoder', 'more-than-255-frames', 'output-layer-beyond-int16', 'combining-mark-letter-table',
                          'unnormalised-frame-in-a-long-line', 'fault-points', 'failure-reported',
                          'array-refilled-in-place-with-another-pre-selection', 'kept-result-read-again-after-a-later-call'],
    }
