"""C03 - LM fusion: the LM score is the LM's own score; the result maximises vis + scale*LM.

Space: input tree of CTC matrices (6-row alphabet, T <= Tmax) x the complete configuration product
LM in {hash LM 1, hash LM 2, constant LM} x lm_scale in {0,0.5,1,3} x insertion bonus in {0,0.3} x k in {1,2,4,100}
x end-of-line modelling {off,on} x initial state {default, primed with "ab"}.  The decoder runs with the REAL LMWrapper
around toy torch LMs whose hidden state is an exact hash of the whole prefix (history dependent, route independent).

Oracle: per returned hypothesis the LM score recomputed sequentially through the wrapper's own one-symbol-at-a-time API;
arg-max / posterior / returned-state consistency; scale 0 == LM-free decoding; the reference prefix beam search of C02
ranked by vis + scale*LM (all tie resolutions).
"""
import itertools
import math

import numpy as np

from mc.refmodels.ctc import ref_prefix_beam, lse, NEG

ID = 'C03'

def nmax(a):
    """max() of an array of differences; a NaN anywhere counts as an infinite difference"""
    import numpy as _np
    a = _np.asarray(a, dtype=float)
    return float('inf') if a.size and bool(_np.isnan(a).any()) else (float(a.max()) if a.size else 0.0)


def nabs(x):
    """abs() for tolerance tests: a NaN counts as an infinite difference (a result that is not a number equals nothing)"""
    x = abs(x)
    return float('inf') if x != x else x


MANIFEST = dict(
    technique='explicit-state enumeration of the CTC matrix input tree x full LM/scale/bonus/beam/EOS/initial-state configuration product; real decoder + real LMWrapper + toy prefix-hash LMs vs sequential LM re-scoring and a reference LM-fused prefix beam search',
    text='Bounded exhaustive: every matrix with T <= 3 (quick) / 4 (thorough) rows over a 6-row alphabet in each of 384 configurations. For every returned hypothesis the LM score must equal the sum of the wrapper\'s own per-character scores (+ bonus, + EOS) from the start state; best_hyp() must be the arg-max of vis + scale*LM, confidence() its posterior, the returned hidden state exactly the state of that transcript; scale 0 must reproduce LM-free decoding; the returned set must equal a reference prefix beam search ranked by the fused score. Added sub-sweeps: the same decoder object decoding another and a blank-only line first, exact ties of the fused score (hand-over and returned state must agree), and decoders built by decoder_factory from a configuration section (all scales incl. 0 x bonuses x beam widths) against directly constructed ones. After every decode the returned bag is re-weighted with each other LM scale (bag.lm_weight is a public attribute): best_hyp() and confidence() must follow the new scale. Lines with blank-only frames (incl. lines on which only the blank is possible) with a supplied start state; decode_page() over a character set that holds the space. Wave 10: every single failing call of the language model (out-of-memory RuntimeError of advance_h0 / log_probs / eos_scores) during a decode of all matrices of up to two rows - a bag that is returned must still carry the LM\'s own scores, the maximum and its state; an LSTM-like LM whose state is a pair of tensors. Wave 11: wide beams - every line of 2-3 frames from three rows over a 10-letter alphabet (all letters relevant graded both ways, a narrow frame) x beam widths on both sides of 64 / 128 (quick 64, 65, 100, 129, 200) x 2 hash LMs x scales 0.5/3 x bonus x EOS x start state, so that the number of prefixes that are new in one frame (the batch the LM is advanced for) is below, between and above 64 and 128 (counted from the returned transcripts that are as long as the line): LM score by sequential re-scoring, result a maximum of the fused score, returned state the state of the result.',
    note='Toy LMs only (trained brnolm models are not available offline); the LM vocabulary equals the decoder letters; scores compared within 1e-9; near-ties (< 1e-9) of the fused score skip the arg-max clauses.',
    ref='3/C03')

ROWS = [
    [0.90, 0.05, 0.05], [0.05, 0.90, 0.05], [0.05, 0.05, 0.90],
    [0.40, 0.40, 0.20], [1 / 3, 1 / 3, 1 / 3], [0.60, 4.0e-5, 0.40 - 4.0e-5],
    [0.0, 0.0, 1.0],            # a frame in which only the blank is possible (used by the extra sweep 'with_blank_row' only)
]
NR = 6                          # rows of the main sweep
LETTERS = ['a', 'b', '<BLANK>']
LMS = [0, 1, 2]
SCALES = [0.0, 0.5, 1.0, 3.0]
BONUS = [0.0, 0.3]
KS = [1, 2, 4, 100]
EOS = [False, True]
INIT = ['default', 'primed']
# wide beams on a longer alphabet: the number of prefixes that are NEW in one frame (those the LM is advanced for, in one batch call) lies on
# both sides of 64 and 128 - nothing of that size exists over the 2-letter alphabet above.  Rows over 10 letters + blank:
WLETTERS = list('abcdefghij') + ['<BLANK>']


def _norm(v):
    s = sum(v)
    return [x / s for x in v]


WROWS = [
    _norm([0.85 ** i for i in range(11)]),                                  # every letter relevant, graded, blank least likely
    _norm([0.05 * (1.0 + 0.13 * i) for i in range(10)] + [0.8]),            # blank-heavy, every letter relevant, graded the other way
    _norm([0.2, 0.17, 0.15, 0.12, 0.1] + [1.0e-6] * 5 + [0.26]),            # a narrow frame: five letters below the decoder's relevance threshold
]
WLMS = [0, 1]
WCFG = [(si, bi, ei, ii) for si in (1, 3) for bi in (0, 1) for ei in (0, 1) for ii in (0, 1)]     # scales 0.5 / 3 x bonus x eos x init
BOUNDS = {'quick': dict(T=3, WT=3, WKS=[64, 65, 100, 129, 200]),
          'thorough': dict(T=4, WT=3, WKS=[63, 64, 65, 66, 100, 127, 128, 129, 130, 200, 256, 257, 300])}
BOUNDS['replay'] = BOUNDS['quick']
EPS = 1e-9
_W = {}


def setup(tier):
    pass


def wrapper(kind, letters=None):
    key = kind if letters is None else (kind, tuple(letters))
    if key not in _W:
        from mc import stubs
        _W[key] = stubs.make_lm_wrapper(kind, (LETTERS if letters is None else letters)[:-1])
    return _W[key]


def shards(tier):
    T = BOUNDS[tier]['T']
    out = []
    for t in range(1, T + 1):
        for lm in LMS:
            if t <= 2:
                out.append({'T': t, 'lm': lm, 'prefix': []})
            else:
                for p in itertools.product(range(NR), repeat=t - 2):
                    out.append({'T': t, 'lm': lm, 'prefix': list(p)})
    for lm in (0, 1):
        for t in (1, 2):
            out.append({'faults': t, 'lm': lm})
    for t in range(1, T):            # an LSTM-like LM whose state is a pair of tensors, one frame shorter
        if t <= 2:
            out.append({'T': t, 'lm': 4, 'prefix': []})
        else:
            for p in itertools.product(range(NR), repeat=t - 2):
                out.append({'T': t, 'lm': 4, 'prefix': list(p)})
    for lm in WLMS:                 # wide beams on the 10-letter alphabet (the number of new prefixes of one frame on both sides of 64 / 128)
        for t in range(2, BOUNDS[tier]['WT'] + 1):
            for k in BOUNDS[tier]['WKS']:
                if t <= 2:
                    out.append({'wide': t, 'lm': lm, 'k': k, 'prefix': []})
                else:
                    for p in itertools.product(range(len(WROWS)), repeat=t - 2):
                        out.append({'wide': t, 'lm': lm, 'k': k, 'prefix': list(p)})
    for lm in LMS:
        out.append({'factory': lm})
        for t in range(1, T):       # lines with blank-only frames (incl. lines on which nothing but the blank is possible), one frame shorter
            out.append({'T': t, 'lm': lm, 'with_blank_row': True})
    return out


def run_shard(shard, ctx, tier):
    from mc.core import guarded_check
    import sys
    mod = sys.modules[__name__]
    if 'factory' in shard:
        for si, bi, ki in itertools.product(range(len(SCALES)), range(len(BONUS)), range(len(KS))):
            guarded_check(mod, {'factory': shard['factory'], 'cfg': [si, bi, ki]}, ctx)
        return
    if 'faults' in shard:
        for rows in itertools.product(range(NR), repeat=shard['faults']):
            for ki in (1, 2):
                for ei in (0, 1):
                    guarded_check(mod, {'faults': list(rows), 'lm': shard['lm'], 'cfg': [2, 1, ki, ei, 0]}, ctx)
        return
    if 'wide' in shard:
        for rest in itertools.product(range(len(WROWS)), repeat=shard['wide'] - len(shard['prefix'])):
            guarded_check(mod, {'wide': shard['prefix'] + list(rest), 'lm': shard['lm'], 'k': shard['k']}, ctx)
        return
    if shard.get('with_blank_row'):
        for rows in itertools.product(range(len(ROWS)), repeat=shard['T']):
            if NR in rows:
                guarded_check(mod, {'rows': list(rows), 'lm': shard['lm']}, ctx)
        return
    T, prefix = shard['T'], shard['prefix']
    for rest in itertools.product(range(NR), repeat=T - len(prefix)):
        guarded_check(mod, {'rows': prefix + list(rest), 'lm': shard['lm']}, ctx)


def h_value(h):
    """the wrapped LM state as a tuple of (shape, values) per tensor (public accessor; a state may be one tensor or a tuple of tensors)"""
    t = h.prepare_for_torch()
    parts = t if isinstance(t, tuple) else (t,)
    return tuple((tuple(x.shape), tuple(float(v) for v in x.reshape(-1))) for x in parts)


def seq_score(w, h0, transcript, bonus, eos, memo, letters=LETTERS):
    """LM score of a transcript computed one symbol at a time through the wrapper; returns (score, final state)"""
    key = (transcript, bonus)
    if key not in memo:
        if not transcript:
            memo[key] = (0.0, h0)
        else:
            s, h = seq_score(w, h0, transcript[:-1], bonus, False, memo, letters)
            c = letters.index(transcript[-1])
            lp = float(w.log_probs(h)[0][c])
            h2 = w.advance_h0(np.asarray([c]), h)
            memo[key] = (s + lp + bonus, h2)
    s, h = memo[key]
    if eos:
        s = s + float(w.eos_scores(h)[0])
    return s, h


def check_factory(case, ctx):
    """the decoder as users get it: decoder_factory on a [DECODER] configuration section (LM_SCALE, INSERTION_BONUS, BEAM_SIZE, LM) must
    behave like the decoder constructed directly with these values - on every matrix of up to two rows"""
    import configparser
    import contextlib
    import io
    import unittest.mock
    import torch
    from pero_ocr.decoding import decoding_itf
    from pero_ocr.decoding.decoders import CTCPrefixLogRawNumpyDecoder
    from mc import stubs
    lm = case['factory']
    si, bi, ki = case['cfg']
    scale, bonus, k = SCALES[si], BONUS[bi], KS[ki]
    cfg = configparser.ConfigParser()
    cfg['DECODER'] = {'TYPE': 'FAST-LOG-RAW', 'BEAM_SIZE': str(k), 'LM_SCALE': repr(scale), 'INSERTION_BONUS': repr(bonus), 'LM': 'toy.lm'}
    with unittest.mock.patch.object(decoding_itf, 'construct_lm', lambda path, config_path='': stubs.ToyLM(lm, LETTERS[:-1])), \
            contextlib.redirect_stderr(io.StringIO()):
        dec = decoding_itf.decoder_factory(cfg['DECODER'], LETTERS[:-1], torch.device('cpu'))
    ref = CTCPrefixLogRawNumpyDecoder(LETTERS, k, lm=wrapper(lm), lm_scale=scale, insertion_bonus=bonus)
    ctx.state(('factory', lm, si, bi, ki))
    ctx.tag('decoder-built-from-configuration')
    K = f'{ID}/decoder_factory'
    for T in (1, 2):
        for rows in itertools.product(range(len(ROWS)), repeat=T):
            with np.errstate(divide='ignore'):
                lp = np.log(np.asarray([ROWS[i] for i in rows], dtype=float))
            b1, b2 = dec(lp.copy()), ref(lp.copy())
            ctx.executed(2)
            h1 = sorted((h.transcript, round(float(h.vis_sc), 9), round(float(h.lm_sc), 9)) for h in b1)
            h2 = sorted((h.transcript, round(float(h.vis_sc), 9), round(float(h.lm_sc), 9)) for h in b2)
            t1 = sorted(float(x) for x in b1.total_scores()) if hasattr(b1, 'total_scores') else None
            t2 = sorted(float(x) for x in b2.total_scores()) if hasattr(b2, 'total_scores') else None
            if h1 != h2 or b1.best_hyp() != b2.best_hyp() or nabs(b1.lm_weight - b2.lm_weight) > 0 or \
                    (t1 is not None and nmax(np.abs(np.asarray(t1) - np.asarray(t2))) > 1e-9):
                ctx.violation('result-maximises-fused-score', f'{K}/differs-from-directly-constructed-decoder',
                              f'[DECODER] LM_SCALE={scale} INSERTION_BONUS={bonus} BEAM_SIZE={k} LM={lm}: matrix {[ROWS[i] for i in rows]} decodes to '
                              f'{h1} / {b1.best_hyp()!r} (weight {b1.lm_weight}); the decoder constructed with these values gives {h2} / {b2.best_hyp()!r}')
                return
    # the page-level entry point decode_page() hands on, for every line label, exactly the decoder's best hypothesis - here with a character
    # set that holds the space, so that hypotheses beginning or ending with white space take part
    from scipy import sparse
    sp_letters = [' ', 'b']
    dsp = CTCPrefixLogRawNumpyDecoder(sp_letters + [LETTERS[-1]], k, lm=stubs.make_lm_wrapper(lm, sp_letters), lm_scale=scale, insertion_bonus=bonus)
    dref = CTCPrefixLogRawNumpyDecoder(sp_letters + [LETTERS[-1]], k, lm=stubs.make_lm_wrapper(lm, sp_letters), lm_scale=scale, insertion_bonus=bonus)
    page, labels = [{}, {}], []
    for T in (1, 2):
        for rows in itertools.product(range(NR), repeat=T):
            lab = 'l' + ''.join(map(str, rows))
            page[len(labels) % 2][lab] = sparse.csc_matrix(np.log(np.asarray([ROWS[i] for i in rows], dtype=float)))
            labels.append((lab, rows))
    with contextlib.redirect_stdout(io.StringIO()):
        got = decoding_itf.decode_page(page, dsp)
    ctx.executed(len(labels))
    for lab, rows in labels:
        par = labels.index((lab, rows)) % 2          # (the lines were dealt out to two paragraphs)
        want = dref(decoding_itf.prepare_dense_logits(page[par][lab])).best_hyp()
        have = got[par].get(lab) if par < len(got) else None
        ctx.executed()
        if have != want:
            ctx.violation('result-maximises-fused-score', f'{ID}/decode_page/not-the-best-hypothesis',
                          f'LM {lm}, scale {scale}, bonus {bonus}, k {k}, characters {sp_letters}: decode_page hands on {have!r} for the line with '
                          f'matrix {[ROWS[i] for i in rows]}; the decoder\'s best hypothesis is {want!r}')
            return
        if want != want.strip():
            ctx.tag('best-hypothesis-begins-or-ends-with-a-space')
    ctx.outcome(('factory', scale, bonus, k))


def check_faults(case, ctx):
    """environment answers (mc/faults.py): the language model fails ONCE (an out-of-memory RuntimeError of its batch call) at any of the calls
    the decoder makes to it.  The decoder may report that; a bag it returns nevertheless carries the LM's own scores, hands on the maximum
    of vis + scale*LM and returns that hypothesis' state"""
    from pero_ocr.decoding.decoders import CTCPrefixLogRawNumpyDecoder
    from mc import faults
    rows, lm = case['faults'], case['lm']
    si, bi, ki, ei, ii = case['cfg']
    scale, bonus, k, eos = SCALES[si], BONUS[bi], KS[ki], EOS[ei]
    M = [ROWS[i] for i in rows]
    with np.errstate(divide='ignore'):
        lp = np.log(np.asarray(M, dtype=float))
    w = wrapper(lm)
    h0 = w.initial_h(1)
    memo = {}
    ctx.state(('faults', tuple(rows), lm, tuple(case['cfg'])))
    inj = faults.Injector([(w, n) for n in ('advance_h0', 'log_probs', 'eos_scores', 'initial_h') if hasattr(w, n)],
                          lambda name: RuntimeError(f'CUDA out of memory. Tried to allocate 1.50 GiB (injected into the language model, {name})'))

    def call():
        dec = CTCPrefixLogRawNumpyDecoder(LETTERS, k, lm=w, lm_scale=scale, insertion_bonus=bonus)
        boh, hret = dec(lp.copy(), model_eos=eos, return_h=True)
        return [(h.transcript, float(h.vis_sc), float(h.lm_sc)) for h in boh], boh.best_hyp(), hret
    for kk, site, (what, val) in inj.explore(call):
        ctx.executed()
        if kk is None:
            if what != 'ok':
                raise val
            continue
        ctx.tag('language-model-failure-injected')
        if what == 'raised':
            ctx.outcome(('raised', type(val).__name__))
            continue
        hyps, best, hret = val
        ctx.nontrivial(('fault', tuple(rows), lm, tuple(case['cfg']), kk), 'bag-returned-despite-a-failed-lm-call')
        desc = (f'matrix {M}, LM {lm}, scale {scale}, bonus {bonus}, k {k}, eos {eos}; the LM call #{kk} ({site[2]}, made by {site[1]}) raised an '
                f'out-of-memory RuntimeError; hypotheses {[(t, round(v, 4), round(l, 4)) for t, v, l in hyps]}')
        bad = [(t, l, seq_score(w, h0, t, bonus, eos, memo)[0]) for t, v, l in hyps if not (abs(seq_score(w, h0, t, bonus, eos, memo)[0] - l) <= EPS)]
        if bad:
            ctx.violation('lm-score-is-the-models-own', f'{ID}/lm{lm}/after-a-failed-lm-call/lm-score-wrong',
                          f'{desc}; LM score of {bad[0][0]!r} is {bad[0][1]}, sequential re-scoring gives {bad[0][2]}')
            return
        tot = [v + scale * l for _, v, l in hyps]
        tied = [hyps[i][0] for i in range(len(hyps)) if max(tot) - tot[i] <= EPS]
        if best not in tied:
            ctx.violation('result-maximises-fused-score', f'{ID}/lm{lm}/after-a-failed-lm-call/not-the-maximum', f'{desc}; best_hyp() = {best!r}, maximal: {tied}')
            return
        _, hwant = seq_score(w, h0, best, bonus, False, memo)
        if h_value(hret) != h_value(hwant):
            ctx.violation('returned-state-is-state-of-result', f'{ID}/lm{lm}/after-a-failed-lm-call/returned-state',
                          f'{desc}; returned LM state {h_value(hret)}, feeding {best!r} gives {h_value(hwant)}')
            return


def check_wide(case, ctx):
    """wide beams: a 10-letter alphabet and beam widths on both sides of 64 / 128, so that the number of prefixes that are new in ONE frame
    (the batch the language model is advanced for) takes values below, at and above these sizes.  Clauses: every returned hypothesis carries
    the LM's own score (sequential re-scoring), the result is a maximum of vis + scale*LM, the returned state is the state of the result."""
    from pero_ocr.decoding.decoders import CTCPrefixLogRawNumpyDecoder
    rows, lm, k = case['wide'], case['lm'], case['k']
    M = [WROWS[i] for i in rows]
    lp = np.log(np.asarray(M, dtype=float))
    w = wrapper(lm, WLETTERS)
    ctx.state(('wide', tuple(rows), lm, k))
    K = f'{ID}/lm{lm}/wide-beam'
    memo_by_init = {}
    for cfg in ([tuple(case['cfg'])] if 'cfg' in case else WCFG):
        si, bi, ei, ii = cfg
        scale, bonus, eos, init = SCALES[si], BONUS[bi], EOS[ei], INIT[ii]
        sub = dict(case, cfg=list(cfg))
        h0 = w.initial_h(1) if init == 'default' else w.initial_h_from_line('hedge')
        memo = memo_by_init.setdefault(init, {})
        dec = CTCPrefixLogRawNumpyDecoder(WLETTERS, k, lm=w, lm_scale=scale, insertion_bonus=bonus)
        boh, hret = dec(lp.copy(), model_eos=eos, return_h=True, init_h=(None if init == 'default' else h0))
        best = boh.best_hyp()
        ctx.executed(2)
        hyps = [(h.transcript, float(h.vis_sc), float(h.lm_sc)) for h in boh]
        # a transcript with as many letters as the line has frames cannot have been in the beam before the last frame: a lower bound of
        # the number of prefixes that were new in that frame
        n_new = sum(1 for t, _, _ in hyps if len(t) == len(rows))
        ctx.tag('wide-beam/at-most-64-new-prefixes-in-the-last-frame' if n_new <= 64 else
                'wide-beam/65-to-128-new-prefixes-in-the-last-frame' if n_new <= 128 else
                'wide-beam/more-than-128-new-prefixes-in-the-last-frame')
        desc = (f'10-letter alphabet, matrix rows {rows} of WROWS, LM {lm}, scale {scale}, bonus {bonus}, k {k}, eos {eos}, init {init}: '
                f'{len(hyps)} hypotheses, at least {n_new} of them new in the last frame')
        bad = None
        for t, v, l in hyps:
            want, _ = seq_score(w, h0, t, bonus, eos, memo, WLETTERS)
            if not (nabs(want - l) <= EPS):
                bad = (t, l, want)
                break
        if bad:
            ctx.violation('lm-score-is-the-models-own', f'{K}/lm-score-wrong',
                          f'{desc}; LM score of {bad[0]!r} is {bad[1]}, sequential re-scoring gives {bad[2]}', sub)
            continue
        tot = [v + scale * l for _, v, l in hyps]
        top = max(tot)
        tied = [hyps[i][0] for i in range(len(hyps)) if top - tot[i] <= EPS]
        ctx.outcome(('wide', len(best), min(len(hyps), 65)))
        if best not in tied:
            ctx.violation('result-maximises-fused-score', f'{K}/best_hyp/not-the-maximum',
                          f'{desc}; best_hyp() = {best!r} but vis + {scale}*lm is maximal for {tied[:4]}', sub)
            continue
        _, hwant = seq_score(w, h0, best, bonus, False, memo, WLETTERS)
        if h_value(hret) != h_value(hwant):
            ctx.violation('returned-state-is-state-of-result', f'{K}/returned-state',
                          f'{desc}; returned LM state {h_value(hret)} but feeding {best!r} gives {h_value(hwant)}', sub)
            continue
        if len(hyps) > 64:
            ctx.nontrivial(('wide', tuple(rows), lm, k, cfg), 'wide-beam/more-than-64-hypotheses-returned')


def check_case(case, ctx):
    from pero_ocr.decoding.decoders import CTCPrefixLogRawNumpyDecoder
    if 'faults' in case:
        return check_faults(case, ctx)
    if 'factory' in case:
        return check_factory(case, ctx)
    if 'wide' in case:
        return check_wide(case, ctx)
    rows, lm = case['rows'], case['lm']
    M = [ROWS[i] for i in rows]
    with np.errstate(divide='ignore'):
        lp = np.log(np.asarray(M, dtype=float))
    w = wrapper(lm)
    ctx.state((tuple(rows), lm))
    if lm == 4:
        ctx.tag('language-model-with-a-tuple-state')
    if 'cfg' in case:
        configs = [tuple(case['cfg'])]
    else:
        configs = itertools.product(range(len(SCALES)), range(len(BONUS)), range(len(KS)), range(2), range(2))
    memo_by_init = {}
    plain = {}
    for cfg in configs:
        si, bi, ki, ei, ii = cfg
        scale, bonus, k, eos, init = SCALES[si], BONUS[bi], KS[ki], EOS[ei], INIT[ii]
        sub = dict(case, cfg=list(cfg))
        K = f'{ID}/lm{lm}'
        h0 = w.initial_h(1) if init == 'default' else w.initial_h_from_line('ab')
        memo = memo_by_init.setdefault((init,), {})
        dec = CTCPrefixLogRawNumpyDecoder(LETTERS, k, lm=w, lm_scale=scale, insertion_bonus=bonus)
        boh, hret = dec(lp.copy(), model_eos=eos, return_h=True, init_h=(None if init == 'default' else h0))
        ctx.executed()
        hyps = [(h.transcript, float(h.vis_sc), float(h.lm_sc)) for h in boh]
        desc = (f'matrix {M}, LM {lm}, scale {scale}, bonus {bonus}, k {k}, eos {eos}, init {init}: '
                f'hypotheses {[(t, round(v, 4), round(l, 4)) for t, v, l in hyps]}')
        # (0) history: the same decoder object decodes another line first; this line's result must not depend on it
        if len(rows) <= 2:
            d2 = CTCPrefixLogRawNumpyDecoder(LETTERS, k, lm=w, lm_scale=scale, insertion_bonus=bonus)
            with np.errstate(divide='ignore'):
                other = np.log(np.asarray([ROWS[(i + 2) % NR] for i in rows] + [ROWS[0]], dtype=float))
                empty = np.log(np.asarray([[0.0, 0.0, 1.0]] * 2))           # a line on which only the blank is possible
            d2(other.copy(), model_eos=eos, return_h=True, init_h=(None if init == 'default' else h0))
            d2(empty.copy(), model_eos=eos, return_h=True, init_h=(None if init == 'default' else h0))
            b2, _ = d2(lp.copy(), model_eos=eos, return_h=True, init_h=(None if init == 'default' else h0))
            ctx.executed(3)
            h2 = [(h.transcript, float(h.vis_sc), float(h.lm_sc)) for h in b2]
            if sorted(h2) != sorted(hyps):
                ctx.violation('lm-score-is-the-models-own', f'{K}/depends-on-previously-decoded-line',
                              f'{desc}; the same decoder gives {[(t, round(v, 4), round(l, 4)) for t, v, l in h2]} after decoding two other lines (one of them blank-only) first', sub)
                continue
            ctx.tag('decoder-reused-for-another-line')
        # (1) the LM score is the LM's own score, whatever route the search took
        bad = None
        for t, v, l in hyps:
            want, _ = seq_score(w, h0, t, bonus, eos, memo)
            if nabs(want - l) > EPS:
                bad = (t, l, want)
                break
        if bad:
            ctx.violation('lm-score-is-the-models-own', f'{K}/lm-score-wrong',
                          f'{desc}; LM score of {bad[0]!r} is {bad[1]}, sequential re-scoring gives {bad[2]}', sub)
            continue
        if nabs(boh.lm_weight - scale) > 0:
            ctx.violation('result-maximises-fused-score', f'{K}/lm-weight-not-archived', f'{desc}; bag.lm_weight={boh.lm_weight}', sub)
            continue
        # (2) the result handed on maximises vis + scale*lm; confidence is its posterior; returned state is its state
        tot = [v + scale * l for _, v, l in hyps]
        order = sorted(range(len(hyps)), key=lambda i: -tot[i])
        clear = len(hyps) == 1 or tot[order[0]] - tot[order[1]] > EPS
        best = boh.best_hyp()
        ctx.executed()
        ctx.outcome((best, len(hyps)))
        if clear:
            top = hyps[order[0]][0]
            if best != top:
                by_unscaled = max(hyps, key=lambda x: x[1] + x[2])[0]
                kind = 'ignores-lm-scale' if best == by_unscaled else 'not-the-maximum'
                ctx.violation('result-maximises-fused-score', f'{K}/best_hyp/{kind}',
                              f'{desc}; best_hyp() = {best!r} but vis + {scale}*lm is maximal for {top!r}', sub)
                continue
            post = math.exp(tot[order[0]] - np.logaddexp.reduce(np.asarray(tot)))
            conf = boh.confidence()
            ctx.executed()
            if nabs(conf - post) > EPS or not (0 <= conf <= 1 + 1e-12):
                ctx.violation('confidence-is-posterior-of-result', f'{K}/confidence',
                              f'{desc}; confidence() = {conf}, posterior of {top!r} = {post}', sub)
                continue
            _, hwant = seq_score(w, h0, top, bonus, False, memo)
            if h_value(hret) != h_value(hwant):
                ctx.violation('returned-state-is-state-of-result', f'{K}/returned-state',
                              f'{desc}; returned LM state {h_value(hret)} but feeding {top!r} gives {h_value(hwant)}', sub)
                continue
            if len(hyps) > 1 and max(hyps, key=lambda x: x[1])[0] != top:
                ctx.nontrivial((tuple(rows), lm, cfg), 'lm-changes-the-winner')
            if len(hyps) > 1 and max(hyps, key=lambda x: x[1] + x[2])[0] != top:
                ctx.tag('scale-changes-the-winner')
        else:
            # tie of the fused score: whichever of the tied hypotheses is handed on, it is one of the maximal ones and the returned LM state
            # is the state of THAT hypothesis
            ctx.tag('skipped-near-tie-of-fused-score')
            tied = [hyps[i][0] for i in order if tot[order[0]] - tot[i] <= EPS]
            if best not in tied:
                ctx.violation('result-maximises-fused-score', f'{K}/best_hyp/not-the-maximum',
                              f'{desc}; best_hyp() = {best!r}, the maximal (tied) hypotheses are {tied}', sub)
                continue
            _, hwant = seq_score(w, h0, best, bonus, False, memo)
            if h_value(hret) != h_value(hwant):
                ctx.violation('returned-state-is-state-of-result', f'{K}/returned-state-on-a-tie',
                              f'{desc}; {tied} tie; best_hyp() hands on {best!r} but the returned LM state {h_value(hret)} is not its state '
                              f'{h_value(hwant)}', sub)
                continue
            ctx.tag('tie-handled-consistently')
        # (2b) the bag archives its LM scale as a plain attribute: re-weighted with another scale, the result it reports is the maximum under THAT scale
        #      (scale 0: the visually best hypothesis) and the confidence is that hypothesis' posterior
        bad = None
        for w2 in SCALES:
            if w2 == scale:
                continue
            boh.lm_weight = w2
            tot2 = [v + w2 * l for _, v, l in hyps]
            o2 = sorted(range(len(hyps)), key=lambda i: -tot2[i])
            tied2 = [hyps[i][0] for i in o2 if tot2[o2[0]] - tot2[i] <= EPS]
            b2, c2 = boh.best_hyp(), boh.confidence()
            ctx.executed(2)
            post2 = math.exp(tot2[o2[0]] - np.logaddexp.reduce(np.asarray(tot2)))
            if b2 not in tied2 or nabs(c2 - post2) > EPS:
                bad = (w2, b2, c2, tied2, post2)
                break
            if len(tied2) == 1 and tied2[0] != best:
                ctx.tag('re-weighted-bag-changes-the-winner')
        boh.lm_weight = scale
        if bad:
            ctx.violation('result-maximises-fused-score', f'{K}/re-weighted-bag',
                          f'{desc}; with bag.lm_weight set to {bad[0]} afterwards best_hyp() = {bad[1]!r}, confidence() = {bad[2]}; the maximum of '
                          f'vis + {bad[0]}*lm is {bad[3]} with posterior {bad[4]}', sub)
            continue
        # (3) scale 0 reproduces LM-free decoding
        if scale == 0.0:
            if k not in plain:
                b0 = CTCPrefixLogRawNumpyDecoder(LETTERS, k)(lp.copy())
                ctx.executed()
                plain[k] = ([(h.transcript, float(h.vis_sc)) for h in b0], b0.best_hyp())
            p_h, p_best = plain[k]
            if sorted(p_h) != sorted((t, v) for t, v, _ in hyps):
                ctx.violation('scale-0-is-lm-free-decoding', f'{K}/scale0-differs',
                              f'{desc}; LM-free decoder gives {p_h}', sub)
                continue
            vs = sorted((v for _, v in p_h), reverse=True)
            if (len(vs) == 1 or vs[0] - vs[1] > EPS) and best != p_best:
                ctx.violation('scale-0-is-lm-free-decoding', f'{K}/scale0-best-differs', f'{desc}; best {best!r} vs LM-free {p_best!r}', sub)
                continue
            ctx.tag('scale-zero-cases')
        # (4) the returned set is that of prefix beam search ranked by the fused score
        if not eos:
            def lm_score(prefix):
                return seq_score(w, h0, ''.join(LETTERS[i] for i in prefix), bonus, False, memo)[0]
            beams, st = ref_prefix_beam([list(map(float, r)) for r in lp], k, lambda r: [i for i, x in enumerate(r) if x > -10],
                                        lm_score=lm_score, lm_scale=scale)
            if st['truncated']:
                ctx.tag('skipped-too-many-tie-branches')
            else:
                ok = False
                for b in beams:
                    ref = {''.join(LETTERS[i] for i in l): lse(pb, pnb) for l, (pb, pnb) in b.items()}
                    if set(ref) == {t for t, _, _ in hyps} and all(abs(ref[t] - v) <= EPS for t, v, _ in hyps):
                        ok = True
                        break
                if not ok:
                    ref0 = sorted((''.join(LETTERS[i] for i in l), round(lse(pb, pnb), 5)) for l, (pb, pnb) in beams[0].items())
                    ctx.violation('beam-ranked-by-fused-score', f'{K}/differs-from-reference-fused-beam',
                                  f'{desc}; reference beam search ranked by vis + scale*lm gives {ref0}', sub)
                    continue
                if st['pruned']:
                    ctx.tag('beam-pruned')
    if len(rows) == 2 and 'cfg' not in case and lm == 0:
        ctx.sample({'matrix': M, 'lm': lm, 'last_config': {'scale': scale, 'bonus': bonus, 'k': k}, 'hypotheses': hyps})


def describe(tier):
    return {
        'rule': 'every matrix with T<=T rows over the 6-row alphabet x 3 LMs x 4 scales x 2 bonuses x 4 beam widths x EOS on/off x 2 '
                'initial states. state = (matrix, LM). Non-trivial: configurations in which the LM changes the winning hypothesis with '
                'respect to the visual score alone; counter scale-changes-the-winner = winner differs from the unscaled (scale 1) choice. '
                'Wide-beam sub-sweep: every line of 2..WT frames over the 3 wide rows (10 letters + blank) x 2 LMs x beam widths WKS x 16 configurations; '
                'counters wide-beam/*-new-prefixes-in-the-last-frame = number of returned transcripts as long as the line (<= 64, 65-128, > 128).',
        'bounds': dict(BOUNDS[tier], scales=SCALES, bonus=BONUS, ks=KS, eos=EOS, init=INIT, eps=EPS),
        'alphabets': {'wide_rows': WROWS, 'wide_letters': WLETTERS, 'wide_lms': WLMS, 'wide_configs': [[SCALES[a], BONUS[b], EOS[c], INIT[d]] for a, b, c, d in WCFG], 'rows': ROWS, 'lms': ['hash(5)/scoreA', 'hash(7)/scoreB', 'constant', '(kind 4) LSTM-like pair state (h, c) / scoreA, T one shorter']},
        'assumptions': ['LM vocabulary == decoder letters (the decoder indexes LM columns by letter index)',
                        'arg-max clauses are skipped when the two best fused scores are within 1e-9'],
        'min_nontrivial': 100,
        'required_tags': ['wide-beam/at-most-64-new-prefixes-in-the-last-frame', 'wide-beam/65-to-128-new-prefixes-in-the-last-frame', 'wide-beam/more-than-128-new-prefixes-in-the-last-frame', 'wide-beam/more-than-64-hypotheses-returned', 'language-model-with-a-tuple-state', 'language-model-failure-injected', 'best-hypothesis-begins-or-ends-with-a-space', 're-weighted-bag-changes-the-winner', 'decoder-built-from-configuration', 'tie-handled-consistently', 'decoder-reused-for-another-line', 'lm-changes-the-winner', 'scale-changes-the-winner', 'scale-zero-cases', 'beam-pruned'],
    }
