"""C06 - ALTO export never loses, reorders or invents text and never fails.

Space: (i) transcription tree: ALL strings of length <= L over {a, b (in the charset), c (outside it), ' ', NBSP, TAB,
THIN SPACE, IDEOGRAPHIC SPACE} x logit mode in {peaky+aligned, diffuse, too short to align, absent, legacy (no charset,
no window), unknown window [None,None]} x min_line_confidence in {0, 0.5} x baseline shape in {2-point, 4-point slanted, one-pixel speck};
(ii) structure sweep: 0..2 regions x 0..3 lines with blank / non-blank transcriptions in every position, region boxes
touching / not touching each page edge, integer and fractional coordinates;
(ii-b) all ordered pairs and triples of lines over a 7-text alphabet mixing Latin / Arabic script and word-border punctuation,
     in one block or two, alignable or without logits (a line's words must not depend on its neighbours);
 (ii-c) very wide lines: 499..2100 logit frames with the text aligned near the start / middle / end;
 (iii) Arabic lines: all strings <= La over {beh, alef, x, 1, ' '} in alignable and fallback mode;
(v) code-point classes: every string of length <= Lc over {a, X, ' '} containing X, for one letter X on each side of every boundary of the
    XML Char production and of the UTF-8 / UTF-16 encoded lengths (U+007E .. U+10FFFF), X in the engine charset and outside it, 4 logit modes;
    plus three Arabic-script lines per letter.
(iv) logical/label order conversion: ALL strings of length <= Lo over {beh, alef, x, 1, ' ', '.', arabic comma}.

Oracle: parsed output vs the words of str.split(); print-space arithmetic on the written attributes; re-import.
"""
import itertools
import re

import numpy as np

ID = 'C06'

def nabs(x):
    """abs() for tolerance tests: a NaN counts as an infinite difference (a result that is not a number equals nothing)"""
    x = abs(x)
    return float('inf') if x != x else x


MANIFEST = dict(
    technique='explicit-state enumeration of the transcription input tree x logit modes x confidence filter x baseline shapes, a page-structure lattice, and all short strings for the Arabic order conversion; real to_altoxml_string / from_altoxml_string / ArabicHelper vs split()-based reference',
    text='Bounded exhaustive: every transcription of length <= 3 (quick) / 4 (thorough) over an 8-symbol alphabet (in-charset, out-of-charset, five kinds of white space) in 7 logit modes x 2 confidence filters x 3 baseline shapes (straight, slanted 4-point, one-pixel), and one level deeper in the two export branches (alignment / fallback); every page structure of 0-2 regions x 0-3 lines with blank/non-blank text and region boxes touching or not touching each page edge; Arabic lines up to length 4; every string up to length 6 / 7 over a 7-symbol mixed Arabic/Latin/digit/delimiter alphabet for the order conversion. Export must not raise, must parse, list every non-blank line once and in order with exactly the split() words (logical order on Arabic lines), write integer geometry, a print space equal to the bounding box of the blocks with margins tiling the page, WC in [0,1], drop only lines below the requested confidence, and re-import must return the same words. Added sub-sweeps: an eighth logit mode with exactly one frame per character, a one-pixel baseline, all ordered pairs / triples of mixed-script lines, lines of 499-2100 frames, pages of 12 blocks / 12 lines, export histories on one page object (logits attached or removed between exports), and a confidence-class clause (> 0.99 for one-hot-like, <= 0.5 for near-uniform or unalignable posteriors). Two more baseline shapes: one pixel long (empty crop grid; tested line first in its block) and right-to-left. Wave 10: export after get_quality() when the line was corrected by hand or recognised again; texts that are not in Unicode normal form C. Wave 11: a code-point-class sub-sweep - every string of length <= 3 (4 thorough) over {a, X, blank} containing X, for 11 letters X taken from both sides of every class boundary of the XML Char production and of the UTF-8 / UTF-16 encoded lengths (U+007E, U+00E9, U+07FF, U+0800, U+D7FF, U+E000, U+FFFD, U+10000, U+1D504, U+20000, U+10FFFF), X in the character table of the line and outside it, alignable / diffuse / unalignable / absent posteriors, and three Arabic-script lines per letter; the exported and re-imported words must be the words of the transcription.',
    note='Posteriors are synthetic; strings longer than the bound and characters outside the alphabets are not explored (of the code points only one representative per class; characters XML 1.0 cannot hold - controls, U+FFFE/U+FFFF - are outside the space).',
    ref='3/C06')

ALPHA = ['a', 'b', 'c', ' ', ' ', '\t', ' ', '　']
MODES = ['aligned', 'diffuse', 'short', 'absent', 'legacy', 'nowindow', 'tight', 'exact']
MINCONF = [0.0, 0.5]
BASELINES = ['straight2', 'slanted4', 'speck', 'dot', 'rtl3']
AR = ['ب', 'ا', 'x', '1', ' ', '\u00a0', '\t']
ORD = ['ب', 'ا', 'x', '1', ' ', '.', '،']
CHARSET = ['a', 'b', ' ', '​']
CHARSET_PERMUTED = ['b', ' ', 'a', '​']
BOUNDS = {'quick': dict(L=3, Lr=4, La=4, Lo=6, max_lines=3, Lc=3), 'thorough': dict(L=4, Lr=5, La=5, Lo=7, max_lines=4, Lc=4)}
# one letter on each side of every class boundary a text encoder / XML writer distinguishes (all of them are XML 1.0 Chars, none is white space):
# last printable ASCII | Latin-1 (2 UTF-8 bytes) | last 2-byte | first 3-byte | last before the surrogates | first after them (private use) |
# last BMP Char | first supplementary (2 UTF-16 units, 4 UTF-8 bytes) | plane 1 letter | plane 2 ideograph | last code point
CODEPOINTS = [0x7e, 0xe9, 0x7ff, 0x800, 0xd7ff, 0xe000, 0xfffd, 0x10000, 0x1d504, 0x20000, 0x10ffff]
CP_MODES = ['aligned', 'diffuse', 'short', 'absent']
CP_ARABIC = ['با {X}', '{X} با', 'ب{X} ا']


def cp_class(cp):
    return ('ascii' if cp < 0x80 else 'two-utf8-bytes' if cp < 0x800 else 'bmp-below-surrogates' if cp < 0xd800 else
            'bmp-above-surrogates' if cp < 0x10000 else 'supplementary-plane')
BOUNDS['replay'] = BOUNDS['quick']
PAGE = (200, 400)   # height, width
NS = '{http://www.loc.gov/standards/alto/ns-v2#}'
_AH = {}


def arabic_helper():
    if 'h' not in _AH:
        from pero_ocr.core.arabic_helper import ArabicHelper
        _AH['h'] = ArabicHelper()
    return _AH['h']


def setup(tier):
    from pero_ocr.core.force_alignment import force_align
    force_align(np.asarray([[0.1, 2.0], [2.0, 0.1]]), [0], 1)


def shards(tier):
    b = BOUNDS[tier]
    out = []
    n = len(ALPHA)
    for L in range(1, b['Lr'] + 1):
        if L <= 2:
            out.append({'kind': 'text', 'L': L, 'prefix': []})
        else:
            for p in itertools.product(range(n), repeat=2):
                out.append({'kind': 'text', 'L': L, 'prefix': list(p), 'reduced': L > b['L']})
    out.append({'kind': 'structure'})
    out.append({'kind': 'long'})
    for i in range(len(CODEPOINTS)):
        out.append({'kind': 'codepoint', 'cp': i})
    for i in range(len(MULTI_TEXTS)):
        out.append({'kind': 'multi', 'first': i})
    for L in range(1, b['La'] + 1):
        out.append({'kind': 'arabic', 'L': L})
    for L in range(0, b['Lo'] + 1):
        if L <= 4:
            out.append({'kind': 'order', 'L': L, 'prefix': []})
        else:
            for p in itertools.product(range(len(ORD)), repeat=2):
                out.append({'kind': 'order', 'L': L, 'prefix': list(p)})
    return out


REGION_BOXES = [
    [[0, 0], [400, 0], [400, 200], [0, 200]],            # touches all four edges
    [[30, 20], [350, 20], [350, 170], [30, 170]],        # touches none
    [[0, 20], [200, 20], [200, 100], [0, 100]],          # touches the left edge only
    [[210, 110], [400, 110], [400, 200], [210, 200]],    # touches right and bottom
    [[30.6, 20.4], [350.5, 20.4], [350.5, 170.7], [30.6, 170.7]],   # fractional
]
LINE_TEXTS = [None, '   ', 'a b']
# lines whose export must not depend on their neighbours (script detection, punctuation at word borders)
MULTI_TEXTS = ['ab', 'a, b.', 'x-y: "b"', 'با', 'ب ا', 'اب, x.', '1 2',
               'be\u0301 a\u030a', 'y\u0323\u0307 \u1e69\u0301']     # not in Unicode normal form C (decomposed accents; marks not in canonical order): the words are the words as they are


def run_shard(shard, ctx, tier):
    from mc.core import guarded_check
    import sys
    mod = sys.modules[__name__]
    if shard['kind'] == 'text':
        L, prefix = shard['L'], shard['prefix']
        for rest in itertools.product(range(len(ALPHA)), repeat=L - len(prefix)):
            if shard.get('reduced'):
                # deepest level: the two branches of the export (alignment / fallback) only
                for cfg in ([0, 0, 0], [2, 0, 0]):
                    guarded_check(mod, {'text': prefix + list(rest), 'cfg': cfg}, ctx)
            else:
                guarded_check(mod, {'text': prefix + list(rest)}, ctx)
    elif shard['kind'] == 'structure':
        for nreg in range(0, 3):
            for boxes in itertools.product(range(len(REGION_BOXES)), repeat=nreg):
                counts = itertools.product(range(0, 4), repeat=nreg)
                for cnt in counts:
                    total = sum(cnt)
                    if total > BOUNDS[tier]['max_lines']:
                        continue
                    for texts in itertools.product(range(len(LINE_TEXTS)), repeat=total):
                        guarded_check(mod, {'structure': {'boxes': list(boxes), 'counts': list(cnt), 'texts': list(texts)}}, ctx)
        # pages with more blocks / lines than one digit can number
        nt = len(LINE_TEXTS)
        guarded_check(mod, {'structure': {'boxes': [1], 'counts': [12], 'texts': [(3 * k + 1) % nt for k in range(12)]}}, ctx)
        guarded_check(mod, {'structure': {'boxes': [k % len(REGION_BOXES) for k in range(12)], 'counts': [1 + (k % 2) for k in range(12)],
                                          'texts': [(5 * k + 2) % nt for k in range(18)]}}, ctx)
    elif shard['kind'] == 'long':
        for T in LONG_T:
            for place in ('start', 'middle', 'end'):
                for text in ('ab', 'a b a', 'b'):
                    guarded_check(mod, {'long': [T, place, text]}, ctx)
    elif shard['kind'] == 'codepoint':
        for L in range(1, BOUNDS[tier]['Lc'] + 1):
            for t in itertools.product(range(3), repeat=L):
                if 1 in t:
                    guarded_check(mod, {'codepoint': shard['cp'], 'ctext': list(t)}, ctx)
        for k in range(len(CP_ARABIC)):
            guarded_check(mod, {'codepoint': shard['cp'], 'carabic': k}, ctx)
    elif shard['kind'] == 'multi':
        n = len(MULTI_TEXTS)
        for rest in itertools.chain(itertools.product(range(n), repeat=1), itertools.product(range(n), repeat=2)):
            for mode in ('aligned', 'absent'):
                for split in (0, 1):
                    guarded_check(mod, {'multi': [shard['first']] + list(rest), 'mode': mode, 'split': split}, ctx)
    elif shard['kind'] == 'arabic':
        for s in itertools.product(range(len(AR)), repeat=shard['L']):
            guarded_check(mod, {'arabic': list(s)}, ctx)
    else:
        L, prefix = shard['L'], shard['prefix']
        for rest in itertools.product(range(len(ORD)), repeat=L - len(prefix)):
            guarded_check(mod, {'order': prefix + list(rest)}, ctx)


# ------------------------------------------------------------------ builders
def make_logits(text, mode, charset):
    """(sparse logits, characters, logit_coords) for a transcription in the given mode"""
    from scipy import sparse
    C = len(charset)
    blank = C - 1
    cmap = {c: i for i, c in enumerate(charset)}
    labels = [cmap.get(ch, 0) if cmap.get(ch, 0) < blank else 0 for ch in text]
    if mode == 'absent':
        return None, None, None
    pad = 2
    if mode in ('aligned', 'nowindow', 'legacy'):
        rows = []
        for _ in range(pad):
            rows.append(blank)
        for l in labels:
            rows += [l, blank]
        for _ in range(pad):
            rows.append(blank)
        M = np.full((len(rows), C), -6.0)
        for t, s in enumerate(rows):
            M[t, s] = 6.0
        M += np.linspace(0.01, 0.02, M.size).reshape(M.shape)
    elif mode == 'exact':
        # exactly one frame per character and nothing else (what a transformer-style recogniser stores); a blank only between equal labels
        rows, prev = [], None
        for l in labels:
            if l == prev:
                rows.append(blank)
            rows.append(l)
            prev = l
        pad = 0
        M = np.full((len(rows), C), -6.0)
        for t, s in enumerate(rows):
            M[t, s] = 6.0
        M += np.linspace(0.01, 0.02, M.size).reshape(M.shape)
    elif mode == 'tight':
        # one frame per character, a blank only where CTC needs one (between equal labels), then trailing blanks; no padding
        rows, prev = [], None
        for l in labels:
            if l == prev:
                rows.append(blank)
            rows.append(l)
            prev = l
        rows += [blank, blank]
        pad = 0
        M = np.full((len(rows), C), -6.0)
        for t, s in enumerate(rows):
            M[t, s] = 6.0
        M += np.linspace(0.01, 0.02, M.size).reshape(M.shape)
    elif mode == 'diffuse':
        T = 2 * len(text) + 6
        M = np.linspace(0.05, 0.6, T * C).reshape(T, C)[:, ::-1].copy()
    else:   # 'short': fewer frames than characters need
        T = max(1, len(text) - 1) + 2 * pad
        M = np.linspace(0.05, 0.6, T * C).reshape(T, C)
        pad = pad if len(text) > 1 else 3      # leave fewer usable frames than characters
    coords = [pad, M.shape[0] - pad]
    chars = list(charset)
    if mode == 'nowindow':
        coords = [None, None]
    if mode == 'legacy':
        coords, chars = [None, None], None
    return sparse.csc_matrix(M), chars, coords


def make_line(lid, text, mode, y=50, baseline='straight2', charset=CHARSET, x0=20, x1=300):
    from pero_ocr.core.layout import TextLine
    if baseline == 'straight2':
        bl = np.asarray([[x0, y], [x1, y]], dtype=float)
    elif baseline == 'speck':           # a degenerate one-pixel baseline (two identical points): export must still succeed
        bl = np.asarray([[x0 + 40, y], [x0 + 40, y]], dtype=float)
    elif baseline == 'dot':             # a baseline one pixel long: the crop grid under the line has no columns at all
        bl = np.asarray([[x0 + 40, y], [x0 + 41, y]], dtype=float)
    elif baseline == 'rtl3':            # a baseline running from right to left (a page scanned upside down): word positions decrease along the line
        bl = np.asarray([[x1, y], [(x0 + x1) / 2.0, y], [x0, y]], dtype=float)
    else:
        bl = np.asarray([[x0, y], [x0 + 90, y + 9], [x0 + 180, y + 19], [x0 + 270.4, y + 30.9]], dtype=float)
    poly = np.asarray([[x0, y - 20], [x1, y - 20], [x1, y + 12], [x0, y + 12]], dtype=float)
    if baseline == 'slanted4':
        poly = poly + np.asarray([0, 16])
    logits, chars, coords = make_logits(text or '', mode, charset) if text else (None, None, None)
    tl = TextLine(id=lid, baseline=bl, polygon=poly, heights=[20, 10], transcription=text, logits=logits,
                  characters=chars, logit_coords=coords)
    tl._verif_mode = mode
    return tl


PEAKY = ('aligned', 'nowindow', 'tight', 'exact')      # every frame puts 1 - 1e-4 or more on one class: the line confidence is > 0.99 by definition


def confidence_class_ok(line):
    """the confidence the export stores on a line comes from the line's CURRENT posteriors: > 0.99 for the peaky modes, <= 0.5 for
    diffuse posteriors (near-uniform) and for lines the export cannot align (fallback: 0)"""
    mode, c = getattr(line, '_verif_mode', None), line.transcription_confidence
    if mode is None or c is None:
        return True
    return c > 0.99 if mode in PEAKY else c <= 0.5


def make_page(regions):
    """regions: list of (id, polygon, [TextLine])"""
    from pero_ocr.core.layout import PageLayout, RegionLayout
    page = PageLayout(id='page 1.jpg', page_size=PAGE)
    for rid, poly, lines in regions:
        r = RegionLayout(rid, np.asarray(poly, dtype=float))
        r.lines = list(lines)
        page.regions.append(r)
    return page


def is_int_literal(s):
    return s is not None and re.fullmatch(r'-?\d+', s) is not None


def parse_alto(xml):
    import lxml.etree as ET
    root = ET.fromstring(xml.encode('utf-8'))
    page = root.find(f'{NS}Layout').find(f'{NS}Page')
    out = {'page': page, 'blocks': []}
    ps = page.find(f'{NS}PrintSpace')
    out['ps'] = ps
    for blk in ps.findall(f'{NS}TextBlock'):
        lines = []
        for tl in blk.findall(f'{NS}TextLine'):
            lines.append({'el': tl, 'words': [s.get('CONTENT') for s in tl.findall(f'{NS}String')],
                          'wc': [s.get('WC') for s in tl.findall(f'{NS}String')]})
        out['blocks'].append({'el': blk, 'lines': lines})
    return out


def ref_is_arabic_line(text):
    """independent of the library: a line is Arabic-script if one of its white-space separated words consists of Arabic letters only"""
    def ar(ch):
        o = ord(ch)
        return 0x0600 <= o <= 0x06ff or 0x0750 <= o <= 0x077f or 0xfb50 <= o <= 0xfdff or 0xfe70 <= o <= 0xfefc
    return any(w and all(ar(ch) for ch in w) for w in text.split())


def expected_words(text):
    ws = text.split()
    ah = arabic_helper()
    if ref_is_arabic_line(text):
        ws = [ah.label_form_to_string(w) for w in ws]
    return ws


def check_export(page, minconf, ctx, K, desc, sub, frac=False):
    """runs the export on `page` and evaluates every clause; returns parsed output or None"""
    from pero_ocr.core.layout import PageLayout
    texts = [[l.transcription for l in r.lines] for r in page.regions]
    try:
        xml = page.to_altoxml_string(min_line_confidence=minconf)
    except Exception as e:  # noqa
        import traceback
        tb = traceback.extract_tb(e.__traceback__)[-1]
        ctx.violation('export-always-succeeds', f'{K}/export-raises/{type(e).__name__}@{tb.name}',
                      f'{desc}: to_altoxml_string raised {type(e).__name__}: {e}', sub)
        return None
    finally:
        ctx.executed()
    try:
        doc = parse_alto(xml)
    except Exception as e:  # noqa
        ctx.violation('export-always-succeeds', f'{K}/output-not-parseable', f'{desc}: {e}', sub)
        return None
    if len(doc['blocks']) != len(page.regions):
        ctx.violation('text-kept', f'{K}/block-count', f'{desc}: {len(doc["blocks"])} TextBlocks for {len(page.regions)} regions', sub)
        return None
    all_words = []
    for r, blk, rtexts in zip(page.regions, doc['blocks'], texts):
        want = []
        for l, t in zip(r.lines, rtexts):
            if not t or t.strip() == '':
                continue
            conf = l.transcription_confidence
            if not confidence_class_ok(l):
                ctx.violation('only-lines-below-the-requested-confidence-are-dropped', f'{K}/line-confidence-not-from-its-posteriors',
                              f'{desc}: line {l.id} (logit mode {l._verif_mode}) carries confidence {conf} after the export', sub)
                return None
            dropped = conf is not None and conf < minconf
            if not dropped:
                want.append(expected_words(t))
            else:
                ctx.tag('line-dropped-by-confidence-filter')
        got = [ln['words'] for ln in blk['lines']]
        all_words.append(got)
        if got != want:
            if len(got) != len(want):
                kind = 'line-count'
            elif any(len(g) < len(w) and g == w[:len(g)] for g, w in zip(got, want)):
                kind = 'words-dropped'
            else:
                kind = 'words-differ'
            ctx.violation('text-kept', f'{K}/{kind}', f'{desc}: exported words per line {got}, expected {want}', sub)
            return None
        for ln in blk['lines']:
            for wc in ln['wc']:
                if wc is not None and not (0.0 <= float(wc) <= 1.0):
                    ctx.violation('word-confidence-in-unit-interval', f'{K}/wc-range', f'{desc}: WC={wc}', sub)
                    return None
    # geometry attributes are integer literals
    for el in doc['page'].iter():
        for a in ('HEIGHT', 'WIDTH', 'VPOS', 'HPOS', 'BASELINE'):
            v = el.get(a)
            if v is not None and not is_int_literal(v):
                ctx.violation('geometry-is-integer', f'{K}/non-integer-attribute', f'{desc}: <{el.tag.split("}")[-1]} {a}="{v}">', sub)
                return None
    # print space = bounding box of the blocks; margins tile the rest of the page
    if page.regions:
        g = lambda el, a: int(el.get(a))
        bl = [b['el'] for b in doc['blocks']]
        top = min(g(b, 'VPOS') for b in bl)
        left = min(g(b, 'HPOS') for b in bl)
        bottom = max(g(b, 'VPOS') + g(b, 'HEIGHT') for b in bl)
        right = max(g(b, 'HPOS') + g(b, 'WIDTH') for b in bl)
        ps = doc['ps']
        tol = 2 if frac else 0      # each written value is truncated separately, sums of two may be off by 2
        got = (g(ps, 'VPOS'), g(ps, 'HPOS'), g(ps, 'VPOS') + g(ps, 'HEIGHT'), g(ps, 'HPOS') + g(ps, 'WIDTH'))
        if any(nabs(a - b) > tol for a, b in zip(got, (top, left, bottom, right))):
            ctx.violation('print-space-is-bounding-box', f'{K}/print-space',
                          f'{desc}: PrintSpace (top,left,bottom,right) = {got}, bounding box of the TextBlocks = {(top, left, bottom, right)}', sub)
            return None
        H, W = page.page_size
        pg = doc['page']
        m = {n: pg.find(f'{NS}{n}') for n in ('TopMargin', 'LeftMargin', 'RightMargin', 'BottomMargin')}
        eq = lambda a, b: abs(a - b) <= tol
        okm = (g(m['TopMargin'], 'VPOS') == 0 and eq(g(m['TopMargin'], 'HEIGHT'), got[0]) and g(m['TopMargin'], 'WIDTH') == W and
               g(m['LeftMargin'], 'HPOS') == 0 and eq(g(m['LeftMargin'], 'WIDTH'), got[1]) and g(m['LeftMargin'], 'HEIGHT') == H and
               eq(g(m['RightMargin'], 'HPOS'), got[3]) and eq(g(m['RightMargin'], 'WIDTH'), W - got[3]) and
               eq(g(m['BottomMargin'], 'VPOS'), got[2]) and eq(g(m['BottomMargin'], 'HEIGHT'), H - got[2]))
        if not okm:
            ctx.violation('margins-cover-the-rest', f'{K}/margins',
                          f'{desc}: margins {[(n, dict(e.attrib)) for n, e in m.items()]} do not tile the page around print space {got}', sub)
            return None
        if got[2] < H or got[3] < W:
            ctx.tag('print-space-not-reaching-page-edge')
    # re-import returns the same words for every line
    p2 = PageLayout()
    try:
        p2.from_altoxml_string(xml)
        ctx.executed()
    except Exception as e:  # noqa
        ctx.violation('reimport-returns-same-words', f'{K}/reimport-raises', f'{desc}: {type(e).__name__}: {e}', sub)
        return None
    back = [[(l.transcription or '').split() for l in r.lines] for r in p2.regions]
    if back != all_words:
        ctx.violation('reimport-returns-same-words', f'{K}/reimport-differs', f'{desc}: exported {all_words}, re-imported {back}', sub)
        return None
    # the re-imported page can be exported again (its polygons are plain lists) and still carries the same words
    if len(all_words) and sum(len(x) for x in all_words) <= 4:
        try:
            xml2 = p2.to_altoxml_string()
            ctx.executed()
            again = [[ln['words'] for ln in blk['lines']] for blk in parse_alto(xml2)['blocks']]
        except Exception as e:  # noqa
            ctx.violation('export-always-succeeds', f'{K}/re-export-of-imported-page-raises/{type(e).__name__}',
                          f'{desc}: exporting the re-imported page raised {type(e).__name__}: {e}', sub)
            return None
        has_arabic = any(ref_is_arabic_line(' '.join(w)) for blk in all_words for w in blk)
        # (an ALTO file holds Arabic words in logical order; exporting an imported page converts once more, so only Latin pages compare)
        if not has_arabic and again != [[w for w in blk if w] for blk in all_words]:
            ctx.violation('reimport-returns-same-words', f'{K}/re-export-differs', f'{desc}: {all_words} vs {again}', sub)
            return None
    return doc


def check_text(case, ctx):
    text = ''.join(ALPHA[i] for i in case['text'])
    ctx.state(('text', text))
    combos = [tuple(case['cfg'])] if 'cfg' in case else itertools.product(range(len(MODES)), range(len(MINCONF)), range(len(BASELINES)))
    for mi, ci, bi in combos:
        mode, minconf, bshape = MODES[mi], MINCONF[ci], BASELINES[bi]
        sub = dict(case, cfg=[mi, ci, bi])
        # the lines of a page may come from different engines: every second case gives the tested line a character table of the same size in
        # another order than its neighbour's
        cs = CHARSET if (sum(case['text']) + mi) % 2 == 0 else CHARSET_PERMUTED
        line = make_line('r1-l001', text, mode, baseline=bshape, charset=cs)
        first = make_line('r1-l000', 'b a', 'aligned', y=120)
        if cs is CHARSET_PERMUTED:
            ctx.tag('lines-with-different-character-tables')
        if 'cfg' not in case and ((bi == 3 and len(case['text']) > 2) or (bi == 4 and (len(case['text']) > 3 or mode not in ('aligned', 'absent', 'diffuse')))):
            continue                        # the two extra baseline shapes: texts of up to two (one-pixel) / three (right-to-left) symbols
        # (the tested line is the first line of its block for every second baseline shape, the second one otherwise)
        page = make_page([('r1', REGION_BOXES[1], [line, first] if bi % 2 else [first, line])])
        desc = f'transcription {text!r} mode={mode} min_conf={minconf} baseline={bshape}' + (' (first line of its block)' if bi % 2 else '')
        doc = check_export(page, minconf, ctx, f'{ID}/{mode}', desc, sub)
        if doc is None:
            continue
        ws = text.split()
        ctx.outcome((len(ws), mode))
        # history on one page object: exported once without logits (or with them), then logits attached (removed), exported again with
        # a confidence filter - the second export must be that of the page as it is now
        if ws and bi == 0 and ci == 1 and mode in PEAKY + ('absent',):
            l2 = make_line('r1-l001', text, 'absent' if mode in PEAKY else 'aligned', baseline=bshape)
            page2 = make_page([('r1', REGION_BOXES[1], [make_line('r1-l000', 'b a', 'aligned', y=120), l2])])
            try:
                page2.to_altoxml_string(min_line_confidence=0)
                page2.to_altoxml_string(min_line_confidence=0.5)
            except Exception:  # noqa  (reported by the plain export of this mode)
                continue
            ctx.executed(2)
            if mode in PEAKY:
                l2.logits, l2.characters, l2.logit_coords = make_logits(text, mode, CHARSET)
            else:
                l2.logits, l2.characters, l2.logit_coords = None, None, None
            l2._verif_mode = mode
            check_export(page2, minconf, ctx, f'{ID}/{mode}/after-earlier-exports', desc + ' (page exported before its logits were ' +
                         ('attached' if mode in PEAKY else 'removed') + ')', sub)
            ctx.tag('export-history-on-one-page')
        # another history on one page object: the page quality is estimated (get_quality aligns every line), then the line is corrected by hand
        # (new transcription, old logits) or recognised again (new transcription with its logits) - the export is that of the page as it is now
        if ws and bi == 0 and ci == 0 and mode in ('aligned', 'tight', 'diffuse'):
            for how in ('corrected-by-hand', 'recognised-again'):
                l3 = make_line('r1-l001', 'b a', 'aligned', baseline=bshape)
                page3 = make_page([('r1', REGION_BOXES[1], [make_line('r1-l000', 'b a', 'aligned', y=120), l3])])
                try:
                    page3.get_quality()
                except Exception:  # noqa  (get_quality is not the subject of this property)
                    ctx.tag('get_quality-raised')
                    break
                ctx.executed()
                l3.transcription = text
                if how == 'recognised-again':
                    l3.logits, l3.characters, l3.logit_coords = make_logits(text, mode, CHARSET)
                    l3._verif_mode = mode
                else:
                    l3._verif_mode = None
                check_export(page3, minconf, ctx, f'{ID}/{mode}/after-get_quality', desc + f' (get_quality() was called on the page when the line read "b a", '
                             f'then the line was {how})', sub)
                ctx.tag('export-after-get_quality')
        if len(ws) >= 2 and mode in ('aligned', 'diffuse', 'nowindow', 'tight', 'exact'):
            ctx.nontrivial((text, mode), 'multi-word-aligned')
        if any(ch in text for ch in ALPHA[4:]) and ws:
            ctx.tag('non-ascii-or-tab-white-space')
        if mode in ('short', 'absent', 'legacy') and ws:
            ctx.tag('fallback-branch')
    if len(case['text']) == 3 and 'cfg' not in case and case['text'][0] == 0 and case['text'][1] == 3:
        ctx.sample({'transcription': text, 'words': text.split()})


def check_structure(case, ctx):
    st = case['structure']
    regs, k = [], 0
    frac = False
    for ri, (bi, cnt) in enumerate(zip(st['boxes'], st['counts'])):
        lines = []
        box = REGION_BOXES[bi]
        frac = frac or any(float(v) != int(v) for p in box for v in p)
        for j in range(cnt):
            t = LINE_TEXTS[st['texts'][k]]
            k += 1
            x0 = int(min(p[0] for p in box)) + 5
            lines.append(make_line(f'r{ri}-l{j}', t, 'aligned' if (j + ri) % 2 == 0 else 'absent', y=int(min(p[1] for p in box)) + 25 + 12 * j,
                                   x0=x0, x1=x0 + 120))
        regs.append((f'r{ri}', box, lines))
    page = make_page(regs)
    ctx.state(('structure', tuple(st['boxes']), tuple(st['counts']), tuple(st['texts'])))
    desc = f'page with region boxes {[REGION_BOXES[i] for i in st["boxes"]]}, line texts {[[l.transcription for l in r[2]] for r in regs]}'
    doc = check_export(page, 0.0, ctx, f'{ID}/structure', desc, case, frac=frac)
    if doc is not None:
        ctx.outcome(('structure', len(regs), sum(len(b['lines']) for b in doc['blocks'])))
        if len(regs) == 2:
            ctx.nontrivial(('structure', tuple(st['boxes']), tuple(st['counts']), tuple(st['texts'])), 'two-region-pages')
        if len(regs) > 9 or max(st['counts'], default=0) > 9:
            ctx.tag('more-than-nine-blocks-or-lines')


LONG_T = [499, 501, 999, 1001, 1100, 2100]


def check_long(case, ctx):
    """very wide lines: many logit frames, the text aligned near the start / middle / end of the line"""
    from scipy import sparse
    from pero_ocr.core.layout import TextLine
    T, place, text = case['long']
    C = len(CHARSET)
    M = np.full((T, C), -6.0)
    M[:, C - 1] = 6.0
    n = len(text)
    first = {'start': 3, 'middle': T // 2 - n, 'end': T - 2 * n - 5}[place]
    for i, ch in enumerate(text):
        M[first + 2 * i, CHARSET.index(ch)] = 8.0
    M += np.linspace(0.01, 0.02, M.size).reshape(M.shape)
    line = TextLine(id='r1-l001', baseline=np.asarray([[20, 50], [380, 50]], dtype=float),
                    polygon=np.asarray([[20, 30], [380, 30], [380, 62], [20, 62]], dtype=float), heights=[20, 10], transcription=text,
                    logits=sparse.csc_matrix(M), characters=list(CHARSET), logit_coords=[0, T])
    page = make_page([('r1', REGION_BOXES[0], [line])])
    ctx.state(('long', T, place, text))
    doc = check_export(page, 0.0, ctx, f'{ID}/long', f'line with {T} logit frames, text {text!r} aligned near the {place}', case)
    if doc is not None:
        ctx.outcome(('long', T > 1000))
        if T > 1000:
            ctx.nontrivial(('long', T, place, text), 'lines-with-more-than-1000-frames')


def check_codepoint(case, ctx):
    """the out-of-charset / in-charset letter of the transcription taken from every code-point class (both sides of each class boundary)"""
    cp = CODEPOINTS[case['codepoint']]
    X, cls = chr(cp), cp_class(cp)
    if 'carabic' in case:
        text = CP_ARABIC[case['carabic']].replace('{X}', X)
        combos = [(m, 0) for m in ('diffuse', 'absent')]
        base = ['ب', 'ا', ' ', '​']
    else:
        text = ''.join(('a', X, ' ')[i] for i in case['ctext'])
        combos = [(m, inside) for m in CP_MODES for inside in (0, 1)]
        base = CHARSET
    if 'cfg' in case:
        combos = [tuple(case['cfg'])]
    ctx.state(('codepoint', cp, text))
    for mode, inside in combos:
        cs = [base[0], X] + base[2:] if inside else base
        sub = dict(case, cfg=[mode, inside])
        line = make_line('r1-l001', text, mode, charset=cs)
        page = make_page([('r1', REGION_BOXES[1], [make_line('r1-l000', 'b a', 'aligned', y=120), line])])
        desc = (f'transcription {text!r} with U+{cp:04X} ({cls}, {"in" if inside else "not in"} the character table of the line) mode={mode}')
        doc = check_export(page, 0.0, ctx, f'{ID}/codepoint/{cls}/{mode}', desc, sub)
        if doc is None:
            continue
        ws = text.split()
        ctx.outcome(('codepoint', cls, len(ws), mode))
        ctx.nontrivial(('codepoint', cp, text, mode, inside), 'code-point-class-exported')
        if cp >= 0x10000:
            ctx.tag('supplementary-plane-character-exported')
        if 'carabic' in case:
            ctx.tag('code-point-class-on-arabic-line')


def check_multi(case, ctx):
    texts = [MULTI_TEXTS[i] for i in case['multi']]
    cs = ['a', 'b', 'x', 'y', ' ', 'ب', 'ا', '​']
    lines = [make_line(f'l{k}', t, case['mode'], y=30 + 45 * k, charset=cs) for k, t in enumerate(texts)]
    if case['split']:
        regs = [('r1', REGION_BOXES[0], lines[:1]), ('r2', REGION_BOXES[1], lines[1:])]
    else:
        regs = [('r1', REGION_BOXES[0], lines)]
    page = make_page(regs)
    ctx.state(('multi', tuple(case['multi']), case['mode'], case['split']))
    desc = f'lines {texts} mode={case["mode"]} in {"two blocks" if case["split"] else "one block"}'
    doc = check_export(page, 0.0, ctx, f'{ID}/multi-{case["mode"]}', desc, case)
    if doc is not None:
        ah = arabic_helper()
        kinds = {ref_is_arabic_line(t) for t in texts}
        if len(kinds) == 2:
            ctx.nontrivial(('multi', tuple(case['multi']), case['mode'], case['split']), 'mixed-script-pages')
        ctx.outcome(('multi', tuple(len(t.split()) for t in texts)))


def check_arabic(case, ctx):
    text = ''.join(AR[i] for i in case['arabic'])
    ctx.state(('arabic', text))
    if not text.strip():
        return
    for mode in ('diffuse', 'absent'):
        line = make_line('r1-l001', text, mode, charset=['ب', 'ا', ' ', '​'])
        page = make_page([('r1', REGION_BOXES[1], [line])])
        desc = f'Arabic-script transcription {text!r} mode={mode}'
        doc = check_export(page, 0.0, ctx, f'{ID}/arabic-{mode}', desc, case)
        if doc is not None and ref_is_arabic_line(text):
            ctx.nontrivial(('arabic', text, mode), 'arabic-line-exported')
            ctx.outcome(('arabic', len(text.split())))


def check_order(case, ctx):
    ah = arabic_helper()
    s = ''.join(ORD[i] for i in case['order'])
    ctx.state(('order', s))
    for name in ('string_to_label_form', 'label_form_to_string'):
        f = getattr(ah, name)
        r = f(s)
        rr = f(r)
        ctx.executed(2)
        if sorted(r) != sorted(s):
            ctx.violation('order-conversion-is-a-permutation', f'{ID}/order/{name}/not-a-permutation', f'{name}({s!r}) = {r!r}')
            return
        if rr != s:
            ctx.violation('order-conversion-is-an-involution', f'{ID}/order/{name}/not-an-involution',
                          f'{name}({s!r}) = {r!r}, applied again = {rr!r}')
            return
    ctx.outcome(('order', r == s))
    if r != s:
        ctx.nontrivial(('order', s), 'order-conversion-reorders')


def check_case(case, ctx):
    if 'codepoint' in case:
        check_codepoint(case, ctx)
    elif 'text' in case:
        check_text(case, ctx)
    elif 'structure' in case:
        check_structure(case, ctx)
    elif 'long' in case:
        check_long(case, ctx)
    elif 'multi' in case:
        check_multi(case, ctx)
    elif 'arabic' in case:
        check_arabic(case, ctx)
    else:
        check_order(case, ctx)


def describe(tier):
    return {
        'rule': 'all transcriptions of length<=L over the 8-symbol alphabet x 8 logit modes x 2 confidence filters x 5 baseline shapes (straight, slanted 4-point, zero-length, one pixel long, right-to-left; the last two for short texts) (length L+1..Lr: aligned and too-short mode only); '
                'every string <=Lc over {a, X, blank} containing X for 11 letters X, one on each side of every code-point class boundary (ASCII / 2 / 3 / 4 UTF-8 bytes, surrogate gap, last BMP Char, supplementary planes, last code point), X in and outside the character table, 4 logit modes, and 3 Arabic-script lines per letter; '
                'all page structures (0..2 regions from 5 boxes, 0..3 lines each, <=max_lines lines per page, 3 line texts); all Arabic-script '
                'strings <=La (2 modes); all strings <=Lo over the 7-symbol order alphabet. state = distinct input. Non-trivial: a '
                'multi-word transcription exported through the alignment branch; a two-region page; an Arabic line; a string the '
                'order conversion actually reorders.',
        'bounds': BOUNDS[tier],
        'alphabets': {'text': [repr(c) for c in ALPHA], 'modes': MODES, 'min_conf': MINCONF, 'baselines': BASELINES,
                      'arabic': AR, 'order': ORD, 'codepoints': ['U+%04X' % c for c in CODEPOINTS], 'codepoint_modes': CP_MODES, 'region_boxes': REGION_BOXES, 'line_texts': [repr(t) for t in LINE_TEXTS]},
        'assumptions': ['print space compared exactly for integer region coordinates, within 2 px for fractional ones (values are truncated separately)',
                        'a line counts as dropped iff the confidence the export stored on it is below min_line_confidence; that confidence must be > 0.99 for one-hot-like posteriors and <= 0.5 for near-uniform or unalignable ones'],
        'min_nontrivial': 100,
        'required_tags': ['code-point-class-exported', 'supplementary-plane-character-exported', 'code-point-class-on-arabic-line', 'export-after-get_quality', 'lines-with-different-character-tables', 'more-than-nine-blocks-or-lines', 'export-history-on-one-page', 'lines-with-more-than-1000-frames', 'mixed-script-pages', 'multi-word-aligned', 'two-region-pages', 'arabic-line-exported', 'order-conversion-reorders',
                          'non-ascii-or-tab-white-space', 'fallback-branch', 'line-dropped-by-confidence-filter',
                          'print-space-not-reaching-page-edge'],
    }
