"""C19 - Engine merging keeps, per line, the most confident engine's result.

Space (configuration lattice): 1..3 engines x 1..2 lines; per engine and line a complete cartesian product of
transcription in {None, '', 'ab', 'ba', 'b'} x logits in {peaky for 'ab', peaky for 'ba', diffuse, peaky for 'bb',
one row per character (the no-alignment path)} x charset order in 2; all engine orders arise from the product.

Oracle: mean character confidence per engine, recomputed on untouched deep copies by a boring reference
implementation of the documented definition (aligned label probability minus the best competing non-neighbour,
non-blank probability inside the character's frame window, clipped at 0); winner = first arg-max.
"""
import copy
import itertools
import os

import numpy as np

ID = 'C19'

MANIFEST = dict(
    technique='explicit-state enumeration of the engine x line x (transcription, logits, charset) lattice; real merge_layouts vs a reference arg-max over independently recomputed mean confidences',
    text='Bounded exhaustive: every tuple of 1-2 engine outputs for one line over the full variant alphabet (6 transcriptions x 6 logit matrices x 2 charset orders), every triple over a 26-variant sub-alphabet (quick) / the full alphabet (thorough) and every pair of engines on two lines over a 12-variant sub-alphabet; the merged line must carry transcription, logits and charset of the same winning engine (first arg-max of the mean character confidence), record the maximum when positive, leave ids/geometry untouched, and merging a layout with a copy of itself must change nothing. Added sub-sweeps: a reference confidence with an independent brute-force alignment, a doubled-letter line, float32 logits of magnitude 95, incremental merging of three engines, pruned logits stored as explicit zeros, and the clause that every recorded confidence is a probability. Wave 10: a transcription that cannot be aligned (0.5 fallback); two-line pages whose lines carry different character tables (14-variant explicit sub-alphabet); every single failing array allocation of the merge.',
    note='Mean character confidence is recomputed by a reference implementation of the documented definition (it agrees with get_line_confidence on every enumerated case of the unchanged tree); more than 3 engines / 2 lines are not explored.',
    ref='3/C19')

TRANS = [None, '', 'ab', 'ba', 'b', 'bab', 'abb', 'aabb']       # 'aabb' needs 6 frames: on the 5-frame matrices it cannot be aligned (0.5 fallback)
LOGITS = ['ab', 'ba', 'diffuse', 'bb', 'perchar', 'bab_leaky', 'perchar_off', 'ab_big32', 'abb']
ORDERS = [['a', 'b', '​'], ['b', 'a', '​']]
BOUNDS = {'quick': dict(engines=3, three_engine_variants=26, two_line_variants=14),
          'thorough': dict(engines=3, three_engine_variants=10 ** 6, two_line_variants=20)}
BOUNDS['replay'] = BOUNDS['quick']
VARIANTS = [(t, l, o) for t in range(len(TRANS)) for l in range(len(LOGITS)) for o in range(2)
            if not (LOGITS[l] in ('perchar', 'perchar_off') and not TRANS[t])]


def setup(tier):
    from pero_ocr.core.force_alignment import force_align
    force_align(np.asarray([[0.1, 2.0], [2.0, 0.1]]), [0], 1)


def sub_variants(k):
    if k >= len(VARIANTS):
        return list(VARIANTS)
    # deterministic sub-alphabet that keeps every transcription, every logit kind and both charset orders
    picked, seen_t, seen_l = [], set(), set()
    for v in VARIANTS:
        if (v[0] not in seen_t or v[1] not in seen_l) and v[2] == len(picked) % 2:      # the charset orders alternate
            picked.append(v); seen_t.add(v[0]); seen_l.add(v[1])
    for v in VARIANTS[::3]:
        if len(picked) >= k:
            break
        if v not in picked:
            picked.append(v)
    return picked


def shards(tier):
    out = [{'n': 1}, {'n': 2}]
    for i in range(len(sub_variants(BOUNDS[tier]['three_engine_variants']))):
        out.append({'n': 3, 'first': i})
    for i in range(BOUNDS[tier]['two_line_variants']):
        out.append({'n': 2, 'lines': 2, 'first': i})
    for i in range(len(TWO_LINE)):
        out.append({'faults': i})
    return out


TWO_LINE = [(None, 'ab', 0), ('', 'ba', 1), ('ab', 'ab', 0), ('ab', 'ab', 1), ('ba', 'ab', 0), ('ba', 'ba', 1), ('b', 'bb', 0),
            ('bab', 'bab_leaky', 1), ('abb', 'abb', 0), ('aabb', 'ab', 1), ('ab', 'diffuse', 0), ('ab', 'perchar', 1),
            ('ba', 'perchar_off', 0), ('ab', 'ab_big32', 1)]


def two_line_variants(tier):
    # a sub-alphabet that has every transcription, every logit kind and both charset orders (the two lines of ONE engine may carry
    # different character tables, as the lines of a merged layout do)
    out = [(TRANS.index(t), LOGITS.index(l), o) for t, l, o in TWO_LINE]
    for v in sub_variants(10 ** 6):
        if len(out) >= BOUNDS[tier]['two_line_variants']:
            break
        if v not in out:
            out.append(v)
    return out[:BOUNDS[tier]['two_line_variants']]


def run_shard(shard, ctx, tier):
    from mc.core import guarded_check
    import sys
    mod = sys.modules[__name__]
    if 'faults' in shard:
        V = two_line_variants('quick')[:len(TWO_LINE)]
        for b in V:
            guarded_check(mod, {'faults': [[list(V[shard['faults']])], [list(b)]]}, ctx)
        return
    if shard.get('lines') == 2:
        V = two_line_variants(tier)
        a = V[shard['first']]
        for b, c, d in itertools.product(V, repeat=3):
            guarded_check(mod, {'engines': [[list(a), list(b)], [list(c), list(d)]]}, ctx)
        return
    n = shard['n']
    V = sub_variants(BOUNDS[tier]['three_engine_variants']) if n == 3 else VARIANTS
    firsts = [V[shard['first']]] if 'first' in shard else V
    for f in firsts:
        for rest in itertools.product(V, repeat=n - 1):
            guarded_check(mod, {'engines': [[list(v)] for v in (f,) + rest]}, ctx)


def build_logits(kind, order, trans):
    """dense logit matrix [T, 3] in the column order of the charset; peaky rows have margin 12, none exactly 0"""
    col = {c: i for i, c in enumerate(order)}
    blank = 2

    def row(sym, hi=8.0, lo=-4.0):
        r = [lo, lo - 0.5, lo - 1.0]
        r[sym] = hi
        return r
    if kind == 'ab_big32':
        # a very confident engine emitting float32 logits of large magnitude (beyond the exp() range of float32)
        seq = [col['a'], blank, col['b'], blank, blank]
        return np.asarray([row(s, hi=95.0, lo=-20.0) for s in seq], dtype=np.float32)
    if kind == 'abb':
        # a doubled letter: frames a b - b -, the blank between the two b's cannot be skipped
        seq = [col['a'], col['b'], blank, col['b'], blank]
        M = [row(s) for s in seq]
    elif kind in ('ab', 'ba', 'bb'):
        seq = [col[kind[0]], blank, col[kind[1]], blank, blank]
        M = [row(s) for s in seq]
    elif kind == 'diffuse':
        M = [[0.30, 0.20, 0.10], [0.10, 0.25, 0.40], [0.20, 0.35, 0.15], [0.15, 0.10, 0.45], [0.12, 0.22, 0.32]]
    elif kind == 'bab_leaky':
        # 'bab' whose first frame leaks probability to the SECOND letter (a neighbour, which the definition ignores)
        seq = [col['b'], blank, col['a'], blank, col['b'], blank]
        M = [row(s) for s in seq]
        M[0][col['a']] = M[0][col['b']] - 0.2
    else:   # one row per character of the transcription: probabilities are used directly, no alignment
        M = []
        for i, ch in enumerate(trans):
            r = [0.2, 0.1, -0.3]
            r[col[ch]] = 2.0 + 0.5 * i
            if kind == 'perchar_off' and i == 0:
                # the transcription is NOT the frame-wise arg-max here (as after beam search / LM rescoring)
                r[col[ch]] = 0.6
                r[(col[ch] + 1) % 2] = 1.9
            M.append(r)
    return np.asarray(M, dtype=np.float64)


def build_layout(engine_variants):
    from scipy import sparse
    from pero_ocr.core.layout import PageLayout, RegionLayout, TextLine
    lay = PageLayout(id='page', page_size=(100, 200))
    reg = RegionLayout('r1', np.asarray([[0, 0], [200, 0], [200, 100], [0, 100]]))
    for i, (t, l, o) in enumerate(engine_variants):
        trans = TRANS[t]
        order = ORDERS[o]
        M = build_logits(LOGITS[l], order, trans)
        line = TextLine(id=f'r1-l{i + 1:03d}', baseline=np.asarray([[10, 20 + 30 * i], [150, 20 + 30 * i]]),
                        polygon=np.asarray([[10, 5 + 30 * i], [150, 5 + 30 * i], [150, 25 + 30 * i], [10, 25 + 30 * i]]),
                        heights=[15, 5], transcription=trans, logits=sparse.csc_matrix(M), characters=list(order),
                        logit_coords=[0, M.shape[0]], index=i)
        reg.lines.append(line)
    lay.regions.append(reg)
    return lay


_BRUTE = {}


def brute_positions(logp, labels, blank):
    """independent forced alignment for the small matrices of this check: the best of ALL symbol paths that collapse to the labels, then for
    every character its most confident frame.  None = no alignment exists; 'ambiguous' = several optimal paths (decided by the library)"""
    T, C = logp.shape
    if T > 7:
        return 'ambiguous'
    key = (logp.tobytes(), str(logp.dtype), tuple(labels), blank)
    if key in _BRUTE:
        return _BRUTE[key]
    best, best_paths = None, []
    for path in itertools.product(range(C), repeat=T):
        col, prev = [], None
        for sym in path:
            if sym != prev and sym != blank:
                col.append(sym)
            prev = sym
        if col != list(labels):
            continue
        c = float(sum(float(logp[t, sym]) for t, sym in enumerate(path)))
        if best is None or c > best + 1e-9:
            best, best_paths = c, [path]
        elif abs(c - best) <= 1e-9:
            best_paths.append(path)
    if best is None:
        res = None
    elif len(best_paths) > 1:
        res = 'ambiguous'
    else:
        path, res, k, prev = best_paths[0], [], -1, None
        frames = [[] for _ in labels]
        for t, sym in enumerate(path):
            if sym != blank and sym != prev:
                k += 1
            if sym != blank:
                frames[k].append(t)
            prev = sym
        conf = logp.max(axis=1)
        res = [max(f, key=lambda t: (float(conf[t]), -t)) for f in frames]
    if len(_BRUTE) > 5000:
        _BRUTE.clear()
    _BRUTE[key] = res
    return res


def ref_confidences(line):
    """reference implementation of the documented per-character confidence; None if the line has no characters"""
    from pero_ocr.core.force_alignment import align_text
    if not line.transcription:
        return None
    cmap = {c: i for i, c in enumerate(line.characters)}
    labels = [cmap[c] for c in line.transcription]
    dense = line.logits.toarray()          # keep the dtype of the logits (float32 engines: float32 arithmetic, as the library does)
    dense[dense == 0] = -80
    logp = dense - np.logaddexp.reduce(dense, axis=1)[:, None]
    P = np.exp(logp)
    if P.shape[0] == len(labels):
        return [float(P[i, l]) for i, l in enumerate(labels)]
    pos = brute_positions(logp, labels, P.shape[1] - 1)
    if pos == 'ambiguous':
        try:
            pos = [int(x) for x in align_text(-logp, np.asarray(labels), P.shape[1] - 1)]
        except ValueError:
            pos = None
    if pos is None:
        return [0.5] * len(labels)
    out, last = [], 0
    for i, l in enumerate(labels):
        nxt = (pos[i] + 1 + (pos[i + 1] if i + 1 < len(labels) else 1000)) // 2
        excluded = {l, P.shape[1] - 1}
        if i > 0:
            excluded.add(labels[i - 1])
        if i + 1 < len(labels):
            excluded.add(labels[i + 1])
        other = 0.0
        for t in range(last, min(nxt, P.shape[0])):
            for c in range(P.shape[1]):
                if c not in excluded:
                    other = max(other, float(P[t, c]))
        out.append(max(0.0, float(P[pos[i], l]) - other))
        last = nxt
    return out


def snapshot(lay):
    return [(l.id, l.index, np.asarray(l.baseline).tolist(), np.asarray(l.polygon).tolist(), list(l.heights))
            for l in lay.lines_iterator()]


def check_faults(case, ctx):
    """environment answers (mc/faults.py): every single failing array allocation made by the merge script itself while two engines are merged.  The merge
    may report the failure; if it returns, the merged line is the one a fault-free merge produces"""
    import merge_ocr_results as mor
    from mc import faults
    engines = [[tuple(v) for v in e] for e in case['faults']]
    ctx.state(('faults', tuple(map(tuple, engines))))

    def fields(lay):
        return [(l.transcription, list(l.characters) if l.characters is not None else None, None if l.logits is None else l.logits.toarray().tolist(),
                 None if l.transcription_confidence is None else round(float(l.transcription_confidence), 9)) for l in lay.lines_iterator()]

    def call():
        lays = [build_layout(e) for e in engines]
        mor.merge_layouts(lays)
        return fields(lays[0])
    inj = faults.Injector(faults.numpy_allocators(), faults.memory_error)
    ref = None
    for kk, site, (what, val) in inj.explore(call):
        ctx.executed()
        if kk is None:
            if what != 'ok':
                raise val
            ref = val
            continue
        ctx.tag('fault-points')
        if what == 'raised':
            ctx.tag('failure-reported')
            continue
        ctx.nontrivial(('fault', tuple(map(tuple, engines)), kk), 'merge-returned-despite-a-failed-allocation')
        if val != ref:
            ctx.violation('keeps-most-confident-engine', f'{ID}/merge-returned-after-a-failed-allocation-differs',
                          f'engines {engines}: with the allocation #{kk} ({site[2]} in {site[0]}:{site[1]}) raising MemoryError merge_layouts returned and the merged '
                          f'line is {[(v[0], v[1], v[3]) for v in val]}; the fault-free merge gives {[(v[0], v[1], v[3]) for v in ref]}')
            return


def check_case(case, ctx):
    if 'faults' in case:
        return check_faults(case, ctx)
    import merge_ocr_results as mor
    from pero_ocr.core.confidence_estimation import get_line_confidence
    engines = [[tuple(v) for v in e] for e in case['engines']]
    n_lines = len(engines[0])
    layouts = [build_layout(e) for e in engines]
    pristine = copy.deepcopy(layouts)
    geo_before = snapshot(layouts[0])
    ctx.state(tuple(map(tuple, engines)))
    mor.merge_layouts(layouts)
    ctx.executed()
    merged = layouts[0]
    K = f'{ID}'
    if snapshot(merged) != geo_before:
        ctx.violation('ids-and-geometry-unaltered', f'{K}/geometry-or-ids-changed', f'engines {engines}')
    # the storage of a pruned logit must not matter: the same engine outputs with one pruned entry held as an explicitly stored 0.0 (pruning in
    # place without eliminate_zeros) instead of an implicit one are merged to the same result
    if len(engines) == 2 and n_lines == 1 and VARIANTS.index(engines[0][0]) % 3 == 0:
        from scipy import sparse
        res = []
        for explicit in (False, True):
            lays = copy.deepcopy(pristine)
            for lay in lays:
                for ln in lay.lines_iterator():
                    D = ln.logits.toarray()
                    r, c = D.shape[0] - 1, int(np.argmin(D[-1]))
                    if explicit:
                        D[r, c] = 12345.0
                        m2 = sparse.csc_matrix(D)
                        m2.data[m2.data == 12345.0] = 0.0
                    else:
                        D[r, c] = 0.0
                        m2 = sparse.csc_matrix(D)
                    ln.logits = m2
            mor.merge_layouts(lays)
            ctx.executed()
            ml = list(lays[0].lines_iterator())[0]
            res.append((ml.transcription, list(ml.characters), None if ml.transcription_confidence is None else round(float(ml.transcription_confidence), 9)))
        if res[0] != res[1]:
            ctx.violation('keeps-most-confident-engine', f'{K}/depends-on-how-a-pruned-logit-is-stored',
                          f'engines {engines}: with the pruned entry of the last frame implicit the merge gives {res[0]}, with the same entry stored as an '
                          f'explicit 0.0 it gives {res[1]}')
            return
        ctx.tag('explicitly-stored-zero-logits')
    # the command-line tool merges the directories in the order given on the command line (that order decides ties)
    if len(engines) == 2 and n_lines == 1 and VARIANTS.index(engines[0][0]) % 5 == 1 and all(TRANS[e[0][0]] is not None for e in engines):
        import contextlib
        import io
        import shutil
        import sys as _sys
        from pero_ocr.core.layout import PageLayout
        root = f'/verif/.cache/tmp/c19-cli-{os.getpid()}'
        shutil.rmtree(root, ignore_errors=True)
        dirs = [os.path.join(root, 'z_engine'), os.path.join(root, 'a_engine')]          # first engine: the lexicographically LATER name
        for d, lay in zip(dirs, copy.deepcopy(pristine)):
            os.makedirs(d)
            lay.to_pagexml(os.path.join(d, 'page.xml'))
            lay.save_logits(os.path.join(d, 'page.logits'))
        loaded = []
        for d in dirs:
            pl = PageLayout(file=os.path.join(d, 'page.xml'))
            pl.load_logits(os.path.join(d, 'page.logits'))
            loaded.append(pl)
        mor.merge_layouts(loaded)
        want_line = list(loaded[0].lines_iterator())[0]
        old_argv = _sys.argv
        _sys.argv = ['merge_ocr_results.py', '--output-path', os.path.join(root, 'out')] + dirs
        try:
            with contextlib.redirect_stdout(io.StringIO()):
                mor.main()
        finally:
            _sys.argv = old_argv
        ctx.executed(2)
        got = PageLayout(file=os.path.join(root, 'out', 'page.xml'))
        got.load_logits(os.path.join(root, 'out', 'page.logits'))
        got_line = list(got.lines_iterator())[0]
        same = got_line.transcription == want_line.transcription and list(got_line.characters) == list(want_line.characters) and \
            got_line.logits.shape == want_line.logits.shape and abs(got_line.logits - want_line.logits).max() == 0
        shutil.rmtree(root, ignore_errors=True)
        if not same:
            ctx.violation('keeps-most-confident-engine', f'{K}/command-line-tool-differs-from-merge_layouts',
                          f'engines {engines} written to directories z_engine, a_engine and merged by the command-line tool in that order: '
                          f'{got_line.transcription!r} with characters {got_line.characters}; merge_layouts on the same files in the same order gives '
                          f'{want_line.transcription!r} with characters {want_line.characters}')
            return
        ctx.tag('command-line-merge')
    outcome = []
    for li in range(n_lines):
        cands = [list(p.lines_iterator())[li] for p in pristine]
        confs = []
        for c in cands:
            r = ref_confidences(c)
            confs.append(None if r is None else float(np.mean(r)))
            if r is not None:
                got = mor.get_confidences(copy.deepcopy(c))
                ctx.executed()
                if len(got) != len(r) or np.abs(np.asarray(got) - np.asarray(r)).max() > (1e-9 if c.logits.dtype == np.float64 else 1e-5):
                    ctx.violation('mean-character-confidence', f'{K}/confidence-differs-from-reference-definition',
                                  f'line {li} variant {engines[[id(x) for x in cands].index(id(c))][li]}: get_confidences = {list(got)}, '
                                  f'reference definition = {r}')
                    return
        m = list(merged.lines_iterator())[li]
        defined = [(c, i) for i, c in enumerate(confs) if c is not None]
        desc = f'line {li}: engines {[e[li] for e in engines]} mean confidences {confs}; merged text {m.transcription!r}'
        if not defined:
            want = 0
        else:
            best = max(c for c, _ in defined)
            want = min(i for c, i in defined if c == best)
        # means that agree up to round-off (1e-9 relative; 1e-6 when float32 logits are involved) are a tie the statement cannot pin down
        # - how the mean is accumulated decides it: any of these engines may be kept; exactly equal means: the first one
        if defined:
            f32 = any(c.logits is not None and c.logits.dtype != np.float64 for c in cands)
            near = [i for c, i in defined if best - c <= (1e-6 if f32 else 1e-9) * max(abs(best), 1e-300) and c != best]
            for i in sorted(near):
                ci = cands[i]
                if m.transcription == ci.transcription and list(m.characters) == list(ci.characters) and m.logits.shape == ci.logits.shape \
                        and abs(m.logits - ci.logits).max() == 0:
                    want = i
                    ctx.tag('near-tie-of-mean-confidences-either-engine-accepted')
                    break
        w = cands[want]
        same_fields = (m.transcription == w.transcription and list(m.characters) == list(w.characters) and
                       m.logits.shape == w.logits.shape and abs(m.logits - w.logits).max() == 0)
        outcome.append(want)
        if not same_fields:
            # which engine (if any) do the three fields come from?
            src = [i for i, c in enumerate(cands) if m.transcription == c.transcription and list(m.characters) == list(c.characters)
                   and m.logits.shape == c.logits.shape and abs(m.logits - c.logits).max() == 0]
            if not src:
                ctx.violation('fields-from-the-same-engine', f'{K}/fields-mixed-between-engines',
                              f'{desc}: transcription/logits/charset do not all come from one engine')
            elif defined and confs[want] is not None and confs[want] <= 0 and confs[0] is None and src[0] == 0:
                ctx.violation('keeps-most-confident-engine', f'{K}/zero-confidence-engine-does-not-replace-empty-first-engine',
                              f'{desc}: engine {want} is the only/most confident one (mean confidence {confs[want]}) but the empty '
                              f'result of engine 0 is kept')
            else:
                kind = 'tie-not-first' if defined and confs[src[0]] == confs[want] else 'not-the-most-confident'
                ctx.violation('keeps-most-confident-engine', f'{K}/{kind}',
                              f'{desc}: fields of engine {src[0]} kept, engine {want} has the highest mean confidence (first on ties)')
            continue
        tc0 = m.transcription_confidence
        if tc0 is not None and not (0.0 <= float(tc0) <= 1.0 + 1e-9):
            ctx.violation('records-maximum-confidence', f'{K}/recorded-confidence-not-a-probability',
                          f'{desc}: transcription_confidence = {tc0}')
            continue
        if defined and confs[want] > 0:
            tc = m.transcription_confidence
            if tc is None or abs(float(tc) - confs[want]) > (1e-9 if w.logits.dtype == np.float64 else 1e-5):
                ctx.violation('records-maximum-confidence', f'{K}/recorded-confidence',
                              f'{desc}: transcription_confidence = {tc}, maximum mean confidence = {confs[want]}')
        if len(defined) >= 2:
            vals = sorted(c for c, _ in defined)
            if want != 0:
                ctx.nontrivial((tuple(map(tuple, engines)), li), 'later-engine-wins')
            if vals[-1] == vals[-2]:
                ctx.tag('exact-tie-at-the-top')
    ctx.outcome(tuple(outcome))
    # incremental merging (a merged layout is merged again with the next engine) gives what merging all at once gives
    if len(engines) == 3:
        inc = [build_layout(e) for e in engines]
        mor.merge_layouts(inc[:2])
        mor.merge_layouts([inc[0], inc[2]])
        ctx.executed(2)
        for x, y in zip(inc[0].lines_iterator(), merged.lines_iterator()):
            if x.transcription != y.transcription or list(x.characters) != list(y.characters) or x.logits.shape != y.logits.shape or \
                    abs(x.logits - y.logits).max() != 0:
                ctx.violation('keeps-most-confident-engine', f'{K}/incremental-merge-differs',
                              f'engines {engines}: merging (0,1) and then the result with 2 keeps {x.transcription!r} for line {x.id}, merging all three '
                              f'at once keeps {y.transcription!r}')
                return
        ctx.tag('incremental-merges')
    # merging a result with itself changes nothing
    if len(engines) == 1:
        a = build_layout(engines[0])
        b = copy.deepcopy(a)
        ref = copy.deepcopy(a)
        mor.merge_layouts([a, b])
        ctx.executed()
        for x, y in zip(a.lines_iterator(), ref.lines_iterator()):
            if x.transcription != y.transcription or list(x.characters) != list(y.characters) or abs(x.logits - y.logits).max() != 0 \
                    or snapshot(a) != snapshot(ref):
                ctx.violation('self-merge-changes-nothing', f'{K}/self-merge', f'engines {engines}: line {x.id} changed')
                break


def describe(tier):
    return {
        'rule': 'all tuples of 1..2 engines on one line over the full variant alphabet, all triples over three_engine_variants of them (transcription x logits x charset order, minus '
                'impossible combinations) and all pairs of engines on two lines over a sub-alphabet; state = the tuple. Non-trivial: a line '
                'on which an engine other than the first wins; counter: exact ties at the top.',
        'bounds': BOUNDS[tier], 'alphabets': {'transcriptions': [str(t) for t in TRANS], 'logits': LOGITS, 'charset_orders': 2,
                                               'variants': len(VARIANTS)},
        'assumptions': ['the per-character confidence is the documented one (reference implementation in the check)',
                        'engines whose line has no characters (None / empty transcription) have no confidence'],
        'min_nontrivial': 100, 'required_tags': ['fault-points', 'failure-reported', 'command-line-merge', 'explicitly-stored-zero-logits', 'later-engine-wins', 'exact-tie-at-the-top', 'incremental-merges'],
    }
