"""C13 - Edit distance, alignments and error summaries are exact and consistent.

Space (input tree, shape a): ALL pairs of sequences (s, t) with |s|+|t| <= L up to renaming of symbols: a pair is
a restricted-growth string over the concatenation s+t plus a split point.  The implementation only ever compares
symbols for equality, and edit distance is invariant under bijective renaming, so this covers every pair over every
alphabet of that total length.  Each canonical pair is rendered with four symbol types (ints, 1-char strings,
multi-char tokens, a mixed alphabet in which 1 and '1' are different symbols; up to Lh also distinct ints of equal hash).  Costs (sub, ins, del) range over a
full cube on the pairs with |s|+|t| <= Lc.

Oracle: full-matrix Wagner-Fischer / brute force over all substrings (mc/refmodels/editdist.py).
"""
import copy
import itertools

import numpy as np

from mc.refmodels.editdist import wagner_fischer, best_substring_distance, same

ID = 'C13'

def nabs(x):
    """abs() for tolerance tests: a NaN counts as an infinite difference (a result that is not a number equals nothing)"""
    x = abs(x)
    return float('inf') if x != x else x


MANIFEST = dict(
    technique='explicit-state enumeration of all sequence pairs up to renaming (restricted-growth strings), real code vs Wagner-Fischer / brute-force substring oracle',
    text='Bounded exhaustive: every pair of sequences with |s|+|t| <= 7 (quick) / 9 (thorough) up to symbol renaming, in four symbol renderings, plus the full cost cube on short pairs and all 1-3-tuples of a summary pool, is executed on the real functions and compared with an independent full-matrix reference. Optimality is a for-all over alignments, so only enumeration against a reference decides it. Added sub-sweeps: tuples / numpy arrays as inputs (left untouched, second call equal), aggregates of aggregates, and structured pairs of 130-520 symbols. One list object edited in place (same length) between two calls. Wave 10: every single failing array allocation of the six functions on all pairs with |s|+|t| <= 4 (5 thorough): the call may report the failure, an answer it returns must be the distance / a projecting alignment of that cost. Wave 11: a fifth rendering over DISTINCT ints of EQUAL hash (-1/-2, k and k + 2**61-1) on all pairs with |s|+|t| <= 6 (8 thorough); and, on all pairs with |s|+|t| <= 5 in every rendering, a two-use history of the three list-returning functions: the caller keeps a result across later calls (it still reads the same), then extends the returned lists in place and aligns the same and the reversed pair again (every new answer, and the line summary, is judged against the reference); likewise an aggregate the caller added to, then aggregate again.',
    note='Assumes the functions compare symbols only for equality (renaming invariance); sequences longer than the bound are not explored.',
    ref='3/C13')

RENDERS = ['int', 'str', 'tok', 'mixed']
MIXED = ['a', 1, '1', 'b', 2, '2', 'c', 3, '3', 'd', 4, '4']
_M = 2 ** 61 - 1            # CPython hashes ints modulo this prime, and hash(-1) == hash(-2) == -2
# DISTINCT ints in four classes of EQUAL hash (-2, 0, 1, 2): labels 0 and 1 of every canonical pair already collide
HASHTWIN = [-1, -2, 0, _M, 1, _M + 1, -_M, 2 * _M, 2, _M + 2, -_M - 1, -_M - 2]
TOK = ['a', 'bb', 'ccc', 'b', 'aa', 'cc', 'abc', 'c', 'ab', 'bc', 'ca', 'cab']

BOUNDS = {
    'quick': dict(L=7, Lc=5, costs=[1, 2, 3], agg_pool=6, Lf=4, Lh=6),
    'thorough': dict(L=9, Lc=6, costs=[1, 2, 3, 4], agg_pool=9, Lf=5, Lh=8),
}
BOUNDS['replay'] = BOUNDS['quick']
NCHUNK = 8


def render(labels, r):
    if r == 'int':
        return [int(x) for x in labels]
    if r == 'str':
        return [chr(97 + x) for x in labels]
    if r == 'tok':
        return [TOK[x] for x in labels]
    if r == 'mixed':
        return [MIXED[x] for x in labels]
    if r == 'hashtwin':
        return [HASHTWIN[x] for x in labels]
    if r == 'tok7':
        return ['t%d' % x for x in labels]
    raise ValueError(r)


def rgs(n):
    """all restricted growth strings of length n (canonical forms of sequences up to renaming)"""
    def rec(prefix, mx):
        if len(prefix) == n:
            yield list(prefix)
            return
        for v in range(mx + 2):
            prefix.append(v)
            yield from rec(prefix, max(mx, v))
            prefix.pop()
    yield from rec([], -1)


def setup(tier):
    pass


def shards(tier):
    b = BOUNDS[tier]
    out = []
    for L in range(0, b['L'] + 1):
        n = NCHUNK if L >= 7 else 1
        for r in RENDERS:
            for j in range(n):
                out.append({'kind': 'pairs', 'L': L, 'render': r, 'chunk': j, 'of': n})
    for L in range(0, b.get('Lh', 6) + 1):             # the alphabet of distinct ints with equal hash
        n = NCHUNK if L >= 7 else 1
        for j in range(n):
            out.append({'kind': 'pairs', 'L': L, 'render': 'hashtwin', 'chunk': j, 'of': n})
    for L in range(0, b['Lc'] + 1):
        out.append({'kind': 'costs', 'L': L})
    out.append({'kind': 'agg'})
    for L in range(0, b.get('Lf', 4) + 1):
        out.append({'kind': 'faults', 'L': L})
    for n in LONG_N[tier if tier in LONG_N else 'quick']:
        out.append({'kind': 'long', 'n': n})
    return out


LONG_N = {'quick': [130, 260], 'thorough': [130, 260, 300, 520]}      # lengths on both sides of 127 / 255 / 511 (narrow integer types)


def long_pairs(n):
    """structured long pairs: the same algorithms on sequences whose lengths and distances exceed 127 / 255"""
    s = [i % 7 for i in range(n)]
    yield s, list(s)                                   # distance 0
    yield s, []                                        # n deletions
    yield [], s                                        # n insertions
    yield s, s[::2]                                    # every second symbol missing
    yield s, [9 + (i % 3) for i in range(n)]           # n substitutions
    yield s, s + s                                     # n insertions at the end
    yield s, s[3:] + [9, 9, 9]                         # shifted by three
    yield s[:n // 2] + [8] * 5 + s[n // 2:], s         # five deletions in the middle


def agg_pool(tier):
    pool = [([0, 1, 2], [0, 1, 2]), ([0, 1], [1, 0]), ([0, 1, 2], [0, 2]), ([0], [0, 1, 1]), ([], [0]), ([0, 1], []),
            ([0, 1, 2, 3], [3, 0, 1]), ([0, 0, 1], [1, 1, 0]), ([0, 1, 0], [1, 0, 1])]
    return pool[:BOUNDS[tier]['agg_pool']]


def run_shard(shard, ctx, tier):
    from mc.core import guarded_check
    import sys
    mod = sys.modules[__name__]
    b = BOUNDS[tier]
    if shard['kind'] == 'pairs':
        for i, g in enumerate(rgs(shard['L'])):
            if i % shard['of'] != shard['chunk']:
                continue
            for cut in range(shard['L'] + 1):
                guarded_check(mod, {'kind': 'pair', 'render': shard['render'], 's': g[:cut], 't': g[cut:],
                                    'costs': [1, 1, 1]}, ctx)
    elif shard['kind'] == 'costs':
        for g in rgs(shard['L']):
            for cut in range(shard['L'] + 1):
                for costs in itertools.product(b['costs'], repeat=3):
                    if costs == (1, 1, 1):
                        continue
                    guarded_check(mod, {'kind': 'pair', 'render': 'int' if sum(costs) % 2 else 'str', 's': g[:cut],
                                        't': g[cut:], 'costs': list(costs)}, ctx)
    elif shard['kind'] == 'faults':
        for g in rgs(shard['L']):
            for cut in range(shard['L'] + 1):
                guarded_check(mod, {'kind': 'faults', 'render': 'int', 's': g[:cut], 't': g[cut:], 'costs': [1, 1, 1]}, ctx)
    elif shard['kind'] == 'long':
        for k, (s_, t_) in enumerate(long_pairs(shard['n'])):
            for costs in ([1, 1, 1], [2, 3, 1]):
                guarded_check(mod, {'kind': 'pair', 'render': 'int' if k % 2 == 0 else 'tok7', 's': s_, 't': t_, 'costs': costs, 'long': 1}, ctx)
    else:
        pool = agg_pool(tier)
        idx = range(len(pool))
        for combo in itertools.chain(([i] for i in idx), itertools.product(idx, repeat=2), itertools.product(idx, repeat=3)):
            guarded_check(mod, {'kind': 'agg', 'items': [[pool[i][0], pool[i][1]] for i in combo], 'render': 'str'}, ctx)


def align_cost(pairs, sub, ins, dele, empty=None):
    c = 0
    for a, b in pairs:
        if a is empty and b is empty:
            return None
        if a is empty:
            c += ins
        elif b is empty:
            c += dele
        elif not same(a, b):
            c += sub
    return c


def seq_same(xs, ys):
    return len(xs) == len(ys) and all(same(x, y) for x, y in zip(xs, ys))


def pairs_defect(al, s, t, want, costs=(1, 1, 1)):
    """None if `al` is an alignment of s and t of cost `want`, else (clause, what)"""
    try:
        p1 = [a for a, b in al if a is not None]
        p2 = [b for a, b in al if b is not None]
    except (TypeError, ValueError):
        return 'alignment-projects-onto-inputs', 'projection'
    if not (seq_same(p1, s) and seq_same(p2, t)):
        return 'alignment-projects-onto-inputs', 'projection'
    if align_cost(al, *costs) != want:
        return 'alignment-has-exactly-the-distance', 'cost'
    return None


def path_defect(path, s, t, want, costs=(1, 1, 1)):
    pr = path_pairs(path, s, t)
    if pr is None:
        return 'alignment-projects-onto-inputs', 'projection'
    if align_cost(pr, *costs) != want:
        return 'alignment-has-exactly-the-distance', 'cost'
    return None


def substring_alignment_defect(al, s, t, cands):
    try:
        p1 = [a for a, b in al if a is not None]
        p2 = [b for a, b in al if b is not None]
    except (TypeError, ValueError):
        return 'alignment-projects-onto-inputs', 'projection'
    if not (seq_same(p1, s) and seq_same(p2, t)):
        return 'alignment-projects-onto-inputs', 'projection'
    frees = [(lambda p: p[1] is None)] if len(s) > len(t) else [(lambda p: p[0] is None)] if len(t) > len(s) else \
        [(lambda p: p[1] is None), (lambda p: p[0] is None)]
    for free in frees:
        core = list(al)
        while core and free(core[0]):
            core.pop(0)
        while core and free(core[-1]):
            core.pop()
        if align_cost(core, 1, 1, 1) in cands:
            return None
    return 'substring-alignment-has-that-cost', 'cost'


def check_results_owned_by_the_caller(s, t, want, cands, K, ctx):
    """History of two uses of one pair (and of the reversed pair) in one process.  A returned alignment belongs to the caller:
    (a) it is still what it was after further calls; (b) the caller extends the lists it was given (a page-level alignment built with +=)
    and asks again - every new answer is that of the inputs.  Only new ANSWERS are judged, always against the reference."""
    from pero_ocr import sequence_alignment as sa
    from pero_ocr.error_summary import ErrorsSummary
    x = s[0] if s else t[0] if t else 'x'
    fns = [('alignment', sa.levenshtein_alignment, (x, x), lambda v, a, b: pairs_defect(v, a, b, want)),
           ('path', sa.levenshtein_alignment_path, 0.0, lambda v, a, b: path_defect(v, a, b, want)),
           ('substring-alignment', sa.levenshtein_alignment_substring, (x, x), lambda v, a, b: substring_alignment_defect(v, a, b, cands))]
    for short, fn, filler, defect in fns:
        r1 = fn(list(s), list(t))
        snap1 = list(r1)
        r2 = fn(list(t), list(s))
        snap2 = list(r2)
        fn(list(s), list(t))
        ctx.executed(3)
        ctx.tag('earlier-result-kept-across-later-calls')
        if list(r1) != snap1 or list(r2) != snap2:
            ctx.violation('alignment-projects-onto-inputs', f'{K}/{short}/earlier-result-changed-by-a-later-call',
                          f'levenshtein {short} of ({s!r},{t!r}) was {snap1!r}; after aligning the reversed pair and the same pair again the '
                          f'list the caller holds reads {r1!r} (reversed pair: {snap2!r} -> {r2!r})')
            continue
        try:
            for mine, other in ((r1, snap2), (r2, snap1)):
                n = len(mine)
                mine += other
                if len(mine) == n:
                    mine.append(filler)
            q1, q2 = fn(list(s), list(t)), fn(list(t), list(s))
            ctx.executed(2)
            ctx.tag('returned-list-extended-then-asked-again')
            bad = defect(q1, s, t) or defect(q2, t, s)
            if bad:
                ctx.violation(bad[0], f'{K}/{short}/{bad[1]}-after-the-caller-extended-an-earlier-result',
                              f'levenshtein {short}: the caller extended the lists returned for ({s!r},{t!r}) and the reversed pair in place '
                              f'(now {r1!r} / {r2!r}); asked again: {q1!r} / {q2!r}; distance {want}')
            elif short == 'alignment':
                es = ErrorsSummary.from_lists(list(s), list(t))
                ctx.executed()
                if es.nb_subs + es.nb_inss + es.nb_dels != want or es.nb_errors != want or es.ref_len != len(s):
                    ctx.violation('summary-counts-add-up-to-distance', f'{K}/summary/counts-after-the-caller-extended-an-earlier-alignment',
                                  f'ErrorsSummary.from_lists(ref={s!r}, hyp={t!r}) after the caller extended earlier alignments of this pair in place: '
                                  f'subs={es.nb_subs} ins={es.nb_inss} dels={es.nb_dels} errors={es.nb_errors} ref_len={es.ref_len}; distance={want}')
        finally:
            r1[:] = snap1                              # the caller undoes its edit: the following cases do not depend on this one
            r2[:] = snap2


def check_pair(case, ctx):
    from pero_ocr import sequence_alignment as sa
    r = case['render']
    s, t = render(case['s'], r), render(case['t'], r)
    sub, ins, dele = case['costs']
    unit = (sub, ins, dele) == (1, 1, 1)
    ctx.state((r, tuple(case['s']), tuple(case['t'])) if case.get('long') else (r, case['s'], case['t']))
    want = wagner_fischer(s, t, sub, ins, dele)
    if case.get('long'):
        ctx.tag('sequences-longer-than-255')
    K = f'{ID}/{r}'
    if r == 'hashtwin' and any(hash(a) == hash(b) and a != b for a in s for b in t):
        ctx.tag('distinct-symbols-with-equal-hash')
    if not unit:
        K += '/costs'

    # --- distance
    got = sa.levenshtein_distance(list(s), list(t), sub, ins, dele)
    ctx.executed()
    if float(got) != want:
        ctx.violation('distance-is-minimum-edit-cost', f'{K}/distance/{"too-high" if got > want else "too-low"}',
                      f'levenshtein_distance({s!r},{t!r},{sub},{ins},{dele}) = {got}, true minimum = {want}')

    # --- history: the caller keeps ONE list object for the target, replaces a symbol in place (same length) and asks again
    if unit and len(t) >= 1 and not case.get('long'):
        cand = [x for x in ([s[-1]] if len(s) else []) + [t[0]] if x != t[-1]]
        if cand:
            hs, ht = list(s), list(t)
            sa.levenshtein_distance(hs, ht)
            sa.levenshtein_distance(ht, hs)
            ht[-1] = cand[0]
            d2, d3 = sa.levenshtein_distance(hs, ht), sa.levenshtein_distance(ht, hs)
            w2 = wagner_fischer(hs, ht, 1, 1, 1)
            ctx.executed(4)
            if float(d2) != w2 or float(d3) != w2:
                ctx.violation('distance-is-minimum-edit-cost', f'{K}/distance/list-object-edited-in-place-between-calls',
                              f'levenshtein_distance({s!r}, T) and (T, {s!r}) with T = {t!r}, then T[-1] = {cand[0]!r} in place and the same calls again: '
                              f'{d2} / {d3}, true minimum {w2}')
            elif w2 != want:
                ctx.tag('list-edited-in-place-changes-the-distance')

    # --- alignment as pairs
    al = sa.levenshtein_alignment(list(s), list(t), sub, ins, dele)
    ctx.executed()
    p1 = [a for a, b in al if a is not None]
    p2 = [b for a, b in al if b is not None]
    if not (seq_same(p1, s) and seq_same(p2, t)):
        ctx.violation('alignment-projects-onto-inputs', f'{K}/alignment/projection',
                      f'levenshtein_alignment({s!r},{t!r}) = {al!r} does not project onto its inputs')
    else:
        c = align_cost(al, sub, ins, dele)
        if c != want:
            ctx.violation('alignment-has-exactly-the-distance', f'{K}/alignment/cost',
                          f'levenshtein_alignment({s!r},{t!r},{sub},{ins},{dele}) = {al!r} costs {c}, distance {want}')

    # --- alignment as path (-1 insertion: consumes target, 0 match/substitution, 1 deletion: consumes source)
    path = sa.levenshtein_alignment_path(list(s), list(t), sub, ins, dele)
    ctx.executed()
    i = j = 0
    pairs, ok = [], True
    for w in path:
        if w < 0:
            if j >= len(t): ok = False; break
            pairs.append((None, t[j])); j += 1
        elif w > 0:
            if i >= len(s): ok = False; break
            pairs.append((s[i], None)); i += 1
        else:
            if i >= len(s) or j >= len(t): ok = False; break
            pairs.append((s[i], t[j])); i += 1; j += 1
    if not ok or i != len(s) or j != len(t):
        ctx.violation('alignment-projects-onto-inputs', f'{K}/path/projection',
                      f'levenshtein_alignment_path({s!r},{t!r}) = {path!r} does not consume both inputs exactly')
    else:
        c = align_cost(pairs, sub, ins, dele)
        if c != want:
            ctx.violation('alignment-has-exactly-the-distance', f'{K}/path/cost',
                          f'levenshtein_alignment_path({s!r},{t!r},{sub},{ins},{dele}) = {path!r} costs {c}, distance {want}')

    # unusual-but-legal use: tuples / numpy arrays as sequences, repeated calls on the same objects
    if unit and r in ('int', 'str') and len(s) + len(t) <= 5:
        for conv, cname in ((tuple, 'tuple'), (np.asarray, 'ndarray')):
            if cname == 'ndarray' and (not s or not t):
                continue
            cs, ct = conv(s), conv(t)
            d1 = sa.levenshtein_distance(cs, ct)
            d2 = sa.levenshtein_distance(cs, ct)
            al2 = sa.levenshtein_alignment(cs, ct)
            ctx.executed(3)
            if float(d1) != want or float(d2) != want or align_cost(al2, 1, 1, 1) != want:
                ctx.violation('distance-is-minimum-edit-cost', f'{K}/{cname}-input',
                              f'levenshtein_distance / alignment on {cname} inputs {s!r},{t!r}: {d1}, {d2}, {al2!r}; true minimum {want}')
                break
        ctx.tag('other-containers')
    diag = sum(0 if same(a, b) else sub for a, b in zip(s, t)) + (len(t) - len(s)) * ins if len(t) >= len(s) else \
        sum(0 if same(a, b) else sub for a, b in zip(s, t)) + (len(s) - len(t)) * dele
    if s and t and want < diag:
        ctx.nontrivial((case['s'], case['t'], case['costs']), 'optimum-beats-diagonal')
    ctx.outcome(want)
    if not unit:
        return

    if case.get('long'):
        from pero_ocr.error_summary import ErrorsSummary
        es = ErrorsSummary.from_lists(list(s), list(t))
        ctx.executed()
        if es.nb_subs + es.nb_inss + es.nb_dels != want or es.nb_errors != want or es.ref_len != len(s):
            ctx.violation('summary-counts-add-up-to-distance', f'{K}/summary/counts',
                          f'ErrorsSummary.from_lists on sequences of length {len(s)} / {len(t)}: subs={es.nb_subs} ins={es.nb_inss} dels={es.nb_dels} '
                          f'errors={es.nb_errors} ref_len={es.ref_len}; distance={want}')
        return                                         # (the brute-force substring oracle is quartic)
    # --- substring variants (unit costs): optimal over all substrings of the longer sequence
    if len(t) > len(s):
        cands = [best_substring_distance(t, s)]
    elif len(s) > len(t):
        cands = [best_substring_distance(s, t)]
    else:   # equal length: "the longer sequence" is not determined by the statement; accept either reading
        cands = sorted({best_substring_distance(s, t), best_substring_distance(t, s)})
    got = sa.levenshtein_distance_substring(list(s), list(t))
    ctx.executed()
    if float(got) not in [float(c) for c in cands]:
        kind = 'too-high' if got > max(cands) else 'too-low'
        if got == float('inf'):
            kind = 'infinite'
        ctx.violation('substring-distance-optimal', f'{K}/substring-distance/{kind}',
                      f'levenshtein_distance_substring({s!r},{t!r}) = {got}, optimum over substrings = {cands}')
    if want > cands[0]:
        ctx.nontrivial(('sub', case['s'], case['t']), 'substring-beats-whole')

    # the gap symbol is a parameter: with another one ('-') the alignment is the same alignment written with that symbol
    if r == 'int' and len(s) + len(t) <= 6:
        al_d = sa.levenshtein_alignment_substring(list(s), list(t), empty_symbol='-')
        al_n = sa.levenshtein_alignment_substring(list(s), list(t))
        ctx.executed(2)
        if [(('-' if a is None else a), ('-' if b is None else b)) for a, b in al_n] != [tuple(x) for x in al_d]:
            ctx.violation('alignment-projects-onto-inputs', f'{K}/substring-alignment/other-gap-symbol',
                          f'levenshtein_alignment_substring({s!r},{t!r}, empty_symbol="-") = {al_d!r}, with the default gap symbol {al_n!r}')
        for fn in ('levenshtein_alignment',):
            a_d = getattr(sa, fn)(list(s), list(t), empty_symbol='-') if 'empty_symbol' in getattr(sa, fn).__code__.co_varnames else None
            if a_d is not None:
                a_n = getattr(sa, fn)(list(s), list(t))
                ctx.executed(2)
                if [(('-' if a is None else a), ('-' if b is None else b)) for a, b in a_n] != [tuple(x) for x in a_d]:
                    ctx.violation('alignment-projects-onto-inputs', f'{K}/alignment/other-gap-symbol', f'{fn}({s!r},{t!r}, empty_symbol="-") = {a_d!r}, default {a_n!r}')
        ctx.tag('other-gap-symbol')
    al = sa.levenshtein_alignment_substring(list(s), list(t))
    ctx.executed()
    p1 = [a for a, b in al if a is not None]
    p2 = [b for a, b in al if b is not None]
    if not (seq_same(p1, s) and seq_same(p2, t)):
        ctx.violation('alignment-projects-onto-inputs', f'{K}/substring-alignment/projection',
                      f'levenshtein_alignment_substring({s!r},{t!r}) = {al!r} does not project onto its inputs')
    else:
        # remove the free leading and trailing part: pairs that only consume the longer sequence
        longer_first = len(s) >= len(t)
        free = (lambda p: p[1] is None) if longer_first else (lambda p: p[0] is None)
        core = list(al)
        while core and free(core[0]):
            core.pop(0)
        while core and free(core[-1]):
            core.pop()
        c = align_cost(core, 1, 1, 1)
        ok = c in cands
        if not ok and len(s) == len(t):
            # equal length: the other orientation may have been used
            core2 = list(al)
            free2 = (lambda p: p[0] is None)
            while core2 and free2(core2[0]):
                core2.pop(0)
            while core2 and free2(core2[-1]):
                core2.pop()
            ok = align_cost(core2, 1, 1, 1) in cands
        if not ok:
            ctx.violation('substring-alignment-has-that-cost', f'{K}/substring-alignment/cost',
                          f'levenshtein_alignment_substring({s!r},{t!r}) = {al!r}: cost without free ends {c}, optimum {cands}')

    # --- error summary of one line
    from pero_ocr.error_summary import ErrorsSummary
    es = ErrorsSummary.from_lists(list(s), list(t))
    ctx.executed()
    d = wagner_fischer(s, t)
    if es.nb_subs + es.nb_inss + es.nb_dels != d or es.nb_errors != d or es.ref_len != len(s):
        ctx.violation('summary-counts-add-up-to-distance', f'{K}/summary/counts',
                      f'ErrorsSummary.from_lists(ref={s!r}, hyp={t!r}): subs={es.nb_subs} ins={es.nb_inss} '
                      f'dels={es.nb_dels} errors={es.nb_errors} ref_len={es.ref_len}; distance={d}')

    if len(s) + len(t) <= 5:
        check_results_owned_by_the_caller(s, t, want, cands, K, ctx)


def summary_fields(es):
    e = es.ending_errors
    return {'lines': int(es.nb_lines_summarized), 'ref_len': int(es.ref_len), 'errors': int(es.nb_errors),
            'subs': int(es.nb_subs), 'inss': int(es.nb_inss), 'dels': int(es.nb_dels),
            'conf': sorted((repr(k), sorted((repr(k2), int(v)) for k2, v in c.items())) for k, c in es.confusions.items() if c),
            'end': [int(e.correct), int(e.pure_deletions), int(e.mixed_deletions), int(e.pure_insertions),
                    int(e.mixed_insertions), int(e.pure_substitutions)]}


def add_fields(fs):
    import collections
    out = {k: sum(f[k] for f in fs) for k in ('lines', 'ref_len', 'errors', 'subs', 'inss', 'dels')}
    conf = collections.defaultdict(collections.Counter)
    for f in fs:
        for k, c in f['conf']:
            for k2, v in c:
                conf[k][k2] += v
    out['conf'] = sorted((k, sorted(c.items())) for k, c in conf.items())
    out['end'] = [sum(f['end'][i] for f in fs) for i in range(6)]
    return out


def check_agg(case, ctx):
    from pero_ocr.error_summary import ErrorsSummary
    items = [ErrorsSummary.from_lists(render(s, case['render']), render(t, case['render'])) for s, t in case['items']]
    before = [summary_fields(e) for e in items]
    agg = ErrorsSummary.aggregate(items)
    ctx.executed(len(items) + 1)
    after = [summary_fields(e) for e in items]
    want = add_fields(before)
    got = summary_fields(agg)
    got['conf'] = [(k, [tuple(x) for x in c]) for k, c in got['conf']]
    want['conf'] = [(k, [tuple(x) for x in c]) for k, c in want['conf']]
    ctx.state(('agg', case['items']))
    ctx.outcome(got['errors'])
    if got != want:
        bad = [k for k in want if got[k] != want[k]]
        ctx.violation('aggregation-is-plain-addition', f'{ID}/aggregate/{"+".join(bad)}',
                      f'aggregate over {case["items"]}: got {got}, field-wise sum {want}')
    # the summaries may come as any iterable (a generator over pages, an iterator): same totals
    for how, it in (('generator', (e for e in items)), ('iterator', iter(items)), ('tuple', tuple(items))):
        g2 = summary_fields(ErrorsSummary.aggregate(it))
        ctx.executed()
        g2['conf'] = [(k, [tuple(x) for x in c]) for k, c in g2['conf']]
        if g2 != want:
            bad = [k for k in want if g2[k] != want[k]]
            ctx.violation('aggregation-is-plain-addition', f'{ID}/aggregate-of-a-{how}/{"+".join(bad)}',
                          f'aggregate over a {how} of {case["items"]}: got {g2}, field-wise sum {want}')
            return
    if before != after:
        ctx.violation('aggregation-is-plain-addition', f'{ID}/aggregate/mutates-inputs',
                      f'aggregate changed its inputs: {before} -> {after}')
    if len(items) > 1:
        ctx.nontrivial(('agg', case['items']), 'aggregate-of-several')
        # hierarchical aggregation (lines -> pages -> document): aggregating aggregates is still plain addition
        for k in range(1, len(items)):
            nested = ErrorsSummary.aggregate([ErrorsSummary.aggregate(items[:k]), ErrorsSummary.aggregate(items[k:])])
            ctx.executed(3)
            gn = summary_fields(nested)
            gn['conf'] = [(kk, [tuple(x) for x in c]) for kk, c in gn['conf']]
            if gn != want:
                bad = [kk for kk in want if gn[kk] != want[kk]]
                ctx.violation('aggregation-is-plain-addition', f'{ID}/aggregate-of-aggregates/{"+".join(bad)}',
                              f'aggregate([aggregate(first {k}), aggregate(rest)]) over {case["items"]}: got {gn}, field-wise sum {want}')
                break
    if want['ref_len'] > 0 and nabs(agg.error_rate - want['errors'] / want['ref_len']) > 1e-12:
        ctx.violation('aggregation-is-plain-addition', f'{ID}/aggregate/error-rate', f'{agg.error_rate}')
    # the aggregate belongs to the caller: it adds to it in place (document total), then aggregates the same summaries again
    agg.nb_lines_summarized += 1
    agg.ref_len += 2
    agg.nb_errors += 1
    agg.nb_subs += 1
    for k in list(agg.confusions):
        agg.confusions[k].update(agg.confusions[k])
    agg.ending_errors += agg.ending_errors
    g3 = summary_fields(ErrorsSummary.aggregate(items))
    ctx.executed()
    ctx.tag('returned-aggregate-edited-then-asked-again')
    g3['conf'] = [(k, [tuple(x) for x in c]) for k, c in g3['conf']]
    if g3 != want:
        bad = [k for k in want if g3[k] != want[k]]
        ctx.violation('aggregation-is-plain-addition', f'{ID}/aggregate-after-the-caller-added-to-an-earlier-aggregate/{"+".join(bad)}',
                      f'aggregate over {case["items"]} once more after the caller added to the first aggregate in place: got {g3}, field-wise sum {want}')


def path_pairs(path, s, t):
    i = j = 0
    pairs = []
    for w in path:
        if w < 0:
            if j >= len(t):
                return None
            pairs.append((None, t[j])); j += 1
        elif w > 0:
            if i >= len(s):
                return None
            pairs.append((s[i], None)); i += 1
        else:
            if i >= len(s) or j >= len(t):
                return None
            pairs.append((s[i], t[j])); i += 1; j += 1
    return pairs if (i == len(s) and j == len(t)) else None


def check_faults(case, ctx):
    """Environment answers (mc/faults.py): every single failing array allocation made by the functions themselves.  The call may report
    the failure; an answer it returns nevertheless must be THE distance / a projecting alignment of exactly that cost."""
    from pero_ocr import sequence_alignment as sa
    from pero_ocr.error_summary import ErrorsSummary
    from mc import faults
    r = case['render']
    s, t = render(case['s'], r), render(case['t'], r)
    want = wagner_fischer(s, t, 1, 1, 1)
    if len(t) > len(s):
        cands = [best_substring_distance(t, s)]
    elif len(s) > len(t):
        cands = [best_substring_distance(s, t)]
    else:
        cands = sorted({best_substring_distance(s, t), best_substring_distance(t, s)})
    ctx.state(('faults', case['s'], case['t']))

    def ok_pairs(al):
        p1 = [a for a, b in al if a is not None]
        p2 = [b for a, b in al if b is not None]
        return seq_same(p1, s) and seq_same(p2, t) and align_cost(al, 1, 1, 1) == want

    def ok_path(path):
        pr = path_pairs(path, s, t)
        return pr is not None and align_cost(pr, 1, 1, 1) == want

    def ok_sub_al(al):
        p1 = [a for a, b in al if a is not None]
        p2 = [b for a, b in al if b is not None]
        if not (seq_same(p1, s) and seq_same(p2, t)):
            return False
        for free in ((lambda p: p[1] is None), (lambda p: p[0] is None)):
            core = list(al)
            while core and free(core[0]):
                core.pop(0)
            while core and free(core[-1]):
                core.pop()
            if align_cost(core, 1, 1, 1) in cands:
                return True
        return False

    def ok_summary(es):
        return es.nb_subs + es.nb_inss + es.nb_dels == want and es.nb_errors == want and es.ref_len == len(s)

    calls = [('levenshtein_distance', lambda: sa.levenshtein_distance(list(s), list(t)), lambda v: float(v) == want),
             ('levenshtein_alignment', lambda: sa.levenshtein_alignment(list(s), list(t)), ok_pairs),
             ('levenshtein_alignment_path', lambda: sa.levenshtein_alignment_path(list(s), list(t)), ok_path),
             ('levenshtein_distance_substring', lambda: sa.levenshtein_distance_substring(list(s), list(t)), lambda v: float(v) in [float(c) for c in cands]),
             ('levenshtein_alignment_substring', lambda: sa.levenshtein_alignment_substring(list(s), list(t)), ok_sub_al),
             ('ErrorsSummary.from_lists', lambda: ErrorsSummary.from_lists(list(s), list(t)), ok_summary)]
    inj = faults.Injector(faults.numpy_allocators(), faults.memory_error)
    for name, call, good in calls:
        for k, site, (what, val) in inj.explore(call):
            ctx.executed()
            if k is None:
                if what != 'ok':
                    raise val
                continue
            ctx.tag('fault-points')
            if what == 'raised':
                ctx.tag('failure-reported')
                ctx.outcome(('raised', type(val).__name__))
                continue
            ctx.nontrivial(('fault', name, case['s'], case['t'], k), 'answer-returned-despite-a-failed-allocation')
            if not good(val):
                ctx.violation('distance-is-minimum-edit-cost', f'{ID}/{name}/wrong-answer-after-a-failed-allocation',
                              f'{name}({s!r},{t!r}) with the allocation #{k} ({site[2]} in {site[0]}:{site[1]}) raising MemoryError returned '
                              f'{val if not hasattr(val, "nb_errors") else (val.nb_subs, val.nb_inss, val.nb_dels)!r} (distance {want}, substring optimum {cands})')


def check_case(case, ctx):
    if case['kind'] == 'faults':
        check_faults(case, ctx)
    elif case['kind'] == 'pair':
        check_pair(case, ctx)
    else:
        check_agg(case, ctx)


def describe(tier):
    b = BOUNDS[tier]
    return {
        'rule': 'all sequence pairs (s,t) with |s|+|t| <= L up to symbol renaming (restricted growth strings x split point), '
                'each in 4 symbol renderings (int, 1-char str, multi-char tokens, mixed int/str); full cost cube on pairs with '
                '|s|+|t| <= Lc; all 1-,2-,3-tuples of a summary pool. state = distinct (rendering, s, t). Non-trivial: both '
                'sequences non-empty and the optimum is strictly cheaper than the position-wise (diagonal) alignment, or the '
                'best substring match is strictly cheaper than the whole-sequence distance, or an aggregate of >= 2 summaries.',
        'bounds': b,
        'alphabets': {'renderings': RENDERS, 'mixed_tokens': [repr(x) for x in MIXED], 'tok': TOK},
        'assumptions': ['symbols are only compared for equality (renaming invariance)',
                        'for equal-length inputs either sequence may play the role of "the longer sequence"',
                        'sequences longer than the bound and costs above 4 are not explored'],
        'min_nontrivial': 10,
        'required_tags': ['list-edited-in-place-changes-the-distance', 'optimum-beats-diagonal', 'substring-beats-whole', 'aggregate-of-several', 'other-containers', 'sequences-longer-than-255', 'other-gap-symbol', 'fault-points', 'failure-reported',
                          'distinct-symbols-with-equal-hash', 'earlier-result-kept-across-later-calls', 'returned-list-extended-then-asked-again',
                          'returned-aggregate-edited-then-asked-again'],
    }
